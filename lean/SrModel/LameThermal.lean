import SrModel.Lame
/-!
# Thermo-elastic thick cylinder with an arbitrary radial temperature profile (generalised plane strain)

A linear-elastic tube `r_i ≤ r ≤ r_o` with traction-free surfaces, uniform axial strain `ε_z` and a
temperature CHANGE profile `T(r)`.  With the moment `I(r) = ∫_{r_i}^{r} T(ρ) ρ dρ`
(`I r_i = 0`, `I' = r·T`), `k = αE/(1−ν)` and `w = r_o² − r_i²`:

    σ_r = k ( −I(r)/r² + (r² − r_i²)/(r² w) · I(r_o) )
    σ_θ = k (  I(r)/r² + (r² + r_i²)/(r² w) · I(r_o) − T(r) )
    σ_z = ν(σ_r + σ_θ) − EαT + Eε_z
    F   = π w E ε_z − 2π α E I(r_o)

The pressure part is `SrModel.Lame` (superposition).  Written once, polymorphic in the scalar `K`:
executed on `Float`, proved on `ℝ` (`SrProofs/LameThermal.lean`, `SrProps/C03.lean`).  Core Lean only.
-/
namespace SrModel.LameThermal

/-- the data of the closed form (`al` = α, `ez` = axial strain) -/
structure TPrm (K : Type) where
  ri : K
  ro : K
  E  : K
  nu : K
  al : K
  ez : K

variable {K : Type} [Add K] [Sub K] [Mul K] [Div K] [Neg K]
  [OfNat K 0] [OfNat K 1] [OfNat K 2] [OfNat K 3] [OfNat K 4]

def kfac (P : TPrm K) : K := P.al * P.E / (1 - P.nu)
def w (P : TPrm K) : K := P.ro * P.ro - P.ri * P.ri

/-- radial stress -/
def sr (P : TPrm K) (I : K → K) (r : K) : K :=
  kfac P * ( -(I r) / (r * r) + (r * r - P.ri * P.ri) / ((r * r) * w P) * I P.ro )
/-- hoop stress -/
def st (P : TPrm K) (T I : K → K) (r : K) : K :=
  kfac P * ( (I r) / (r * r) + (r * r + P.ri * P.ri) / ((r * r) * w P) * I P.ro - T r )
/-- axial stress -/
def sz (P : TPrm K) (T I : K → K) (r : K) : K :=
  P.nu * (sr P I r + st P T I r) - P.E * P.al * T r + P.E * P.ez
/-- `dσ_r/dr` written out -/
def dsr (P : TPrm K) (T I : K → K) (r : K) : K :=
  kfac P * ( -(T r) / r + 2 * (I r) / (r * r * r) + 2 * P.ri * P.ri / ((r * r * r) * w P) * I P.ro )

/-- strains by Hooke's law with thermal strain -/
def er (P : TPrm K) (T I : K → K) (r : K) : K :=
  (sr P I r - P.nu * (st P T I r + sz P T I r)) / P.E + P.al * T r
def et (P : TPrm K) (T I : K → K) (r : K) : K :=
  (st P T I r - P.nu * (sr P I r + sz P T I r)) / P.E + P.al * T r
/-- radial displacement `u = r ε_θ` -/
def u (P : TPrm K) (T I : K → K) (r : K) : K := r * et P T I r

/-- axial force `∫ σ_z 2πr dr`, `pi` supplied by the caller -/
def force (P : TPrm K) (I : K → K) (pi : K) : K :=
  pi * w P * P.E * P.ez - 2 * pi * P.al * P.E * I P.ro

/-- quadratic profile `T(r) = c0 + c1 r + c2 r²` -/
def Tq (c0 c1 c2 : K) (r : K) : K := c0 + c1 * r + c2 * r * r
/-- its exact moment from `ri` -/
def Iq (ri c0 c1 c2 : K) (r : K) : K :=
  c0 * (r * r - ri * ri) / 2 + c1 * (r * r * r - ri * ri * ri) / 3
    + c2 * (r * r * r * r - ri * ri * ri * ri) / 4

/-! ### line protocol -/

open Proto in
/-- requests (floats as bit patterns):
* `lamet stress ri ro p E nu al ez c0 c1 c2 r` → `σ_r σ_θ σ_z` (thermal, quadratic profile, plus the pressure part of `Lame`)
* `lamet force ri ro p E nu al ez c0 c1 c2 pi` → `F` -/
def handle : List String → Option String
  | ["lamet", "stress", ri, ro, p, e, nu, al, ez, c0, c1, c2, r] =>
    match parseF ri, parseF ro, parseF p, parseF e, parseF nu, parseF al, parseF ez, parseF c0, parseF c1,
      parseF c2, parseF r with
    | some ri, some ro, some p, some e, some nu, some al, some ez, some c0, some c1, some c2, some r =>
      let P : TPrm Float := ⟨ri, ro, e, nu, al, ez⟩
      let L : Lame.Prm Float := ⟨ri, ro, p, e, nu, al, 0, 0⟩
      let T := Tq c0 c1 c2
      let I := Iq ri c0 c1 c2
      some (showFs [sr P I r + L.sr r, st P T I r + L.st r, sz P T I r + nu * (L.sr r + L.st r)])
    | _, _, _, _, _, _, _, _, _, _, _ => none
  | ["lamet", "force", ri, ro, p, e, nu, al, ez, c0, c1, c2, pi] =>
    match parseF ri, parseF ro, parseF p, parseF e, parseF nu, parseF al, parseF ez, parseF c0, parseF c1,
      parseF c2, parseF pi with
    | some ri, some ro, some p, some e, some nu, some al, some ez, some c0, some c1, some c2, some pi =>
      let P : TPrm Float := ⟨ri, ro, e, nu, al, ez⟩
      let I := Iq ri c0 c1 c2
      some (showFs [force P I pi + 2 * nu * pi * p * ri * ri])
    | _, _, _, _, _, _, _, _, _, _, _ => none
  | _ => none

end SrModel.LameThermal
