import SrModel.Scalar
import SrModel.Proto
/-!
# Model of `Tube.element_volumes` (`srlife/receiver.py`: `_volume1d`, `_volume2d`, `_volume3d`)

The element volumes multiply every element log-reliability of the ceramic models
(`SrModel.Ceramic`, C05), so "log-reliability is proportional to the element volume" is only as good
as these numbers.

* `linspace start stop n i` — entry `i` of `numpy.linspace(start, stop, n)` (`n ≥ 2`):
  `i * step + start` with `step = (stop - start)/(n-1)`, the last entry overwritten by `stop`
  (numpy does exactly that: `y = arange(n) * step + start; y[-1] = stop`).
* `radius ro t nr i` — `r = linspace(ro - t, ro, nr)`.
* `theta pi nt j` — `np.diff(np.linspace(0, 2π, nt+1))[j]`; `height h nz k` — `np.diff(np.linspace(0, h, nz))[k]`.
  (As real numbers these are `2π/nt` and `h/(nz-1)`: `SrProofs.Volume.theta_eq`, `height_eq`; in
  binary64 `diff(linspace)` equals them up to rounding.)
* `vol1d` — `π (r[i+1]² − r[i]²) h`.
* `base2d` — area of the trapezoid between radii `r[i]`, `r[i+1]` over the angle `θ_j`:
  `a = 2 r[i] sin(θ_j/2)`, `b = 2 r[i+1] sin(θ_j/2)`, `edge = r[i+1] − r[i]`,
  `hh = sqrt(edge² − ((b−a)/2)²)`, `base = 0.5 (a+b) hh`.
* `vol2d = base * h`; `vol3d = heights[k] * base[i,j]`.
* `vols1d`, `vols2d`, `vols3d` — the flattened arrays in the code's order: `(nr-1)`, `(nr-1, nt)` row-major,
  `(nr-1, nt, nz-1)` row-major.  (`np.einsum("k,ij", heights, base)` has no `->`: the output labels are
  sorted alphabetically, `ijk`, so the axial index `k` is the *fastest*; this is also the element order of
  `structural.mesh3D`: `for i … for j … for k`.)

π is a parameter (`numpy.pi` on `Float`, `Real.pi` in the theorems).  `x ** 2.0` is `x * x`
(numpy evaluates a power with exponent 2 as a square).  Scalar-polymorphic; core Lean only.
-/
namespace SrModel.Volume
open SrModel

instance : NatCast Float := ⟨Float.ofNat⟩

section defs
variable {K : Type} [Add K] [Sub K] [Mul K] [Div K] [OfNat K 0] [OfNat K 2] [OfScientific K]
  [NatCast K] [Transc K]

/-- entry `i` of `numpy.linspace(start, stop, n)` for `n ≥ 2`, `i < n` -/
def linspace (start stop : K) (n i : Nat) : K :=
  if i + 1 = n then stop else (i : K) * ((stop - start) / ((n - 1 : Nat) : K)) + start

def sq (x : K) : K := x * x

/-- `r = np.linspace(self.r - self.t, self.r, self.nr)` -/
def radius (ro t : K) (nr i : Nat) : K := linspace (ro - t) ro nr i

/-- `np.pi * (r[1:]**2 - r[:-1]**2) * self.h`, entry `i` -/
def vol1d (pi ro t h : K) (nr i : Nat) : K :=
  pi * (sq (radius ro t nr (i + 1)) - sq (radius ro t nr i)) * h

/-- `np.diff(np.linspace(0, 2*np.pi, nt+1))[j]` -/
def theta (pi : K) (nt j : Nat) : K :=
  linspace 0 (2 * pi) (nt + 1) (j + 1) - linspace 0 (2 * pi) (nt + 1) j

/-- `base[i, j]` of `_volume2d` / `_volume3d` -/
def base2d (pi ro t : K) (nr nt i j : Nat) : K :=
  let r0 := radius ro t nr i
  let r1 := radius ro t nr (i + 1)
  let s := Transc.sin (theta pi nt j / 2)
  let a := 2 * r0 * s
  let b := 2 * r1 * s
  let edge := r1 - r0
  let hh := Transc.sqrt (sq edge - sq ((b - a) / 2))
  0.5 * (a + b) * hh

/-- `(base * self.h)[i, j]` -/
def vol2d (pi ro t h : K) (nr nt i j : Nat) : K := base2d pi ro t nr nt i j * h

/-- `np.diff(np.linspace(0, self.h, self.nz))[k]` -/
def height (h : K) (nz k : Nat) : K := linspace 0 h nz (k + 1) - linspace 0 h nz k

/-- `np.einsum("k,ij", heights, base)[i, j, k]` = `heights[k] * base[i, j]` -/
def vol3d (pi ro t h : K) (nr nt nz k i j : Nat) : K := height h nz k * base2d pi ro t nr nt i j

/-- `_volume1d()`: shape `(nr-1,)` -/
def vols1d (pi ro t h : K) (nr : Nat) : List K :=
  (List.range (nr - 1)).map fun i => vol1d pi ro t h nr i

/-- `_volume2d()`: shape `(nr-1, nt)` flattened row-major -/
def vols2d (pi ro t h : K) (nr nt : Nat) : List K :=
  (List.range (nr - 1)).flatMap fun i => (List.range nt).map fun j => vol2d pi ro t h nr nt i j

/-- `_volume3d()`: `einsum("k,ij", heights, base)` has shape `(nr-1, nt, nz-1)` (implicit output `ijk`),
flattened row-major: `i` slowest, `k` fastest -/
def vols3d (pi ro t h : K) (nr nt nz : Nat) : List K :=
  (List.range (nr - 1)).flatMap fun i => (List.range nt).flatMap fun j =>
    (List.range (nz - 1)).map fun k => vol3d pi ro t h nr nt nz k i j

/-- `element_volumes()` by `ndim` -/
def elementVolumes (dim : Nat) (pi ro t h : K) (nr nt nz : Nat) : Option (List K) :=
  match dim with
  | 1 => some (vols1d pi ro t h nr)
  | 2 => some (vols2d pi ro t h nr nt)
  | 3 => some (vols3d pi ro t h nr nt nz)
  | _ => none

end defs

open SrModel.Proto in
/-- `vol <dim> <ro> <t> <h> <nr> <nt> <nz> <pi>` → comma-separated volumes (bit patterns) -/
def handle : List String → Option String
  | ["vol", dim, ro, t, h, nr, nt, nz, pi] => do
    let dim ← dim.toNat?
    let ro ← parseF ro
    let t ← parseF t
    let h ← parseF h
    let nr ← nr.toNat?
    let nt ← nt.toNat?
    let nz ← nz.toNat?
    let pi ← parseF pi
    if nr < 2 || nt < 1 || nz < 2 then none else
    (elementVolumes dim pi ro t h nr nt nz).map showFs
  | _ => none

end SrModel.Volume
