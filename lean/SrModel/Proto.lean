/-!
Helpers for the line protocol between the Python harness and the Lean driver.
Floats travel as the decimal value of their IEEE-754 bit pattern (`UInt64`), so the
model reads *exactly* the implementation's inputs and its outputs can be compared bit-wise
or with a stated tolerance on the Python side.  Core Lean only.
-/
namespace SrModel.Proto

/-- float from the decimal rendering of its bit pattern -/
def parseF (s : String) : Option Float :=
  s.toNat?.map (fun n => Float.ofBits n.toUInt64)

def showF (x : Float) : String := toString x.toBits.toNat

/-- comma-separated list; "-" is the empty list -/
def parseList {α} (p : String → Option α) (s : String) : Option (List α) :=
  if s == "-" then some [] else (s.splitOn ",").mapM p

def parseFs (s : String) : Option (List Float) := parseList parseF s
def parseNats (s : String) : Option (List Nat) := parseList String.toNat? s
def parseInts (s : String) : Option (List Int) := parseList String.toInt? s

def showFs (xs : List Float) : String :=
  if xs.isEmpty then "-" else ",".intercalate (xs.map showF)

def showNats (xs : List Nat) : String :=
  if xs.isEmpty then "-" else ",".intercalate (xs.map toString)

def showInts (xs : List Int) : String :=
  if xs.isEmpty then "-" else ",".intercalate (xs.map toString)

def parseBits (s : String) : Option (List Bool) :=
  if s == "-" then some [] else
  s.toList.mapM (fun c => if c == '1' then some true else if c == '0' then some false else none)

/-- rational `num/den` or integer -/
def parseQ (s : String) : Option Rat :=
  match s.splitOn "/" with
  | [n] => n.toInt?.map (fun k => (k : Rat))
  | [n, d] => match n.toInt?, d.toNat? with
    | some k, some m => if m == 0 then none else some ((k : Rat) / (m : Rat))
    | _, _ => none
  | _ => none

def showQ (q : Rat) : String := s!"{q.num}/{q.den}"

end SrModel.Proto
