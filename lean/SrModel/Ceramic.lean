import SrModel.Scalar
import SrModel.Proto
/-!
# Model of the ceramic (Weibull) reliability calculation of `srlife/damage.py`

What is modelled (names on the right are the functions of `damage.py`):

* `storedOf`, `assemble`, `toTensor` — the tube stores *tensor* components
  (`stress_xx … stress_xy`); `tube_log_reliability` builds a Mandel vector from them
  (shear × √2) and `calculate_principal_stress` turns the Mandel vector back into a
  tensor (shear / √2) before `eigvalsh`.
* `cutoff`, `principal` — the CARES cut-off `|pmin/(pmax+tol)| > 3 ⇒ (0,0,0)`; the
  eigen-solver is a parameter `eig : Sym3 K → P3 K` (numpy's `eigvalsh`).
* `trapz`, `gfac`, `sigma0`, `chanTD` — the time-dependent transformation of one
  "channel" (a principal direction for PIA, a crack orientation for the others):
  `g = trapz((σ/(σmax+tol))^N, t)/t[-1]`,
  `σ₀ = ((σmax^N g t_service)/B + σmax^(N-2))^(1/(N-2))`.
* `elemGen` — the common skeleton of every `calculate_element_log_reliability`:
  when all times are zero the result has one entry per time step (no transformation),
  otherwise one entry (transformed stresses).
* `piaElem`, `wntsaElem`, `batElem` — PIA, WNTSA and the six Batdorf models
  (`BModel`: MTS/CSE/SMM × Griffith/penny-shaped) as finite sums over an arbitrary
  orientation grid (`List (Node K)`), with the numerically normalised `k̄` (`kbar`).
* `tubeSeries`, `tubeLog`, `panelLog`, `overallLog`, `rel` — `tube_log_reliability` and
  `determine_reliability` (sum over elements, min over time, Σ multiplier·tube over the
  panel's own tubes, Σ panel, `exp`).

Everything is polymorphic in the scalar `K`: the correspondence runs it on `Float`, the
theorems (`SrProps/C05.lean`) are about the same definitions at `ℝ`.
Core Lean only.
-/
namespace SrModel.Ceramic
open SrModel

/-- π and the ℕ → K cast (for means), the two constants `Transc` does not carry -/
class Consts (K : Type) where
  pi : K
  ofNat : Nat → K

instance : Consts Float := ⟨3.141592653589793, Float.ofNat⟩

/-- symmetric 3×3 tensor by its six independent components -/
structure Sym3 (K : Type) where
  xx : K
  yy : K
  zz : K
  yz : K
  xz : K
  xy : K

/-- what a tube stores at a point: `stress_xx, _yy, _zz, _yz, _xz, _xy` (tensor components) -/
structure Stored6 (K : Type) where
  xx : K
  yy : K
  zz : K
  yz : K
  xz : K
  xy : K

/-- Mandel vector -/
structure Mandel6 (K : Type) where
  v0 : K
  v1 : K
  v2 : K
  v3 : K
  v4 : K
  v5 : K

/-- principal values as `eigvalsh` returns them (ascending) -/
structure P3 (K : Type) where
  p0 : K
  p1 : K
  p2 : K

section defs
variable {K : Type} [Add K] [Sub K] [Mul K] [Div K] [Neg K] [LT K] [LE K]
  [DecidableLT K] [DecidableLE K]
  [Zero K] [OfNat K 1] [OfNat K 2] [OfNat K 3] [OfNat K 4] [Transc K] [Consts K]

/-! ## stored components → Mandel vector → tensor -/

def storedOf (S : Sym3 K) : Stored6 K := ⟨S.xx, S.yy, S.zz, S.yz, S.xz, S.xy⟩

/-- `np.sqrt(2.0)` -/
def sqrt2 : K := Transc.sqrt 2

/-- `tube_log_reliability`: `(xx, yy, zz, √2·yz, √2·xz, √2·xy)` -/
def assemble (s : Stored6 K) : Mandel6 K :=
  ⟨s.xx, s.yy, s.zz, sqrt2 * s.yz, sqrt2 * s.xz, sqrt2 * s.xy⟩

/-- `calculate_principal_stress`: `tensor[a,b] = stress[i] / mults[i]` -/
def toTensor (v : Mandel6 K) : Sym3 K :=
  ⟨v.v0, v.v1, v.v2, v.v3 / sqrt2, v.v4 / sqrt2, v.v5 / sqrt2⟩

/-! ## small list utilities (own definitions, so that nothing depends on library lemmas) -/

def sumL : List K → K
  | [] => 0
  | x :: xs => x + sumL xs

/-- binary step of `np.max`: the larger one; the last branch is reached only for NaN, which
`np.max` propagates (`a + b` is NaN then) -/
def maxNP (a b : K) : K := if a ≤ b then b else if b ≤ a then a else a + b

/-- binary step of `np.min` (NaN propagating) -/
def minNP (a b : K) : K := if a ≤ b then a else if b ≤ a then b else a + b

/-- `np.max` over a (non-empty) axis -/
def maxList : List K → K
  | [] => 0
  | x :: xs => xs.foldl maxNP x

/-- `np.min` over a (non-empty) axis -/
def minList : List K → K
  | [] => 0
  | x :: xs => xs.foldl minNP x

def meanL (l : List K) : K := sumL l / Consts.ofNat l.length

def lastT : List K → K
  | [] => 0
  | [x] => x
  | _ :: xs => lastT xs

/-- `np.mean(np.stack((xx,…,xy)), axis=-1)`: mean over the quadrature points of an element -/
def meanStored (qs : List (Stored6 K)) : Stored6 K :=
  ⟨meanL (qs.map (·.xx)), meanL (qs.map (·.yy)), meanL (qs.map (·.zz)),
   meanL (qs.map (·.yz)), meanL (qs.map (·.xz)), meanL (qs.map (·.xy))⟩

/-! ## principal stresses and the CARES cut-off -/

def absK (x : K) : K := if x < 0 then -x else x
def max3 (p : P3 K) : K := maxNP (maxNP p.p0 p.p1) p.p2
def min3 (p : P3 K) : K := minNP (minNP p.p0 p.p1) p.p2

/-- `remove = np.abs(pmin / (pmax + self.tolerance)) > 3.0` -/
def removeB (tol : K) (p : P3 K) : Bool := decide (3 < absK (min3 p / (max3 p + tol)))

/-- `pstress[remove] = 0.0` -/
def cutoff (tol : K) (p : P3 K) : P3 K := if removeB tol p then ⟨0, 0, 0⟩ else p

def cutoffIf (cares : Bool) (tol : K) (p : P3 K) : P3 K := if cares then cutoff tol p else p

/-- `calculate_principal_stress` on one Mandel vector -/
def principal (eig : Sym3 K → P3 K) (cares : Bool) (tol : K) (v : Mandel6 K) : P3 K :=
  cutoffIf cares tol (eig (toTensor v))

/-! ## time-dependent transformation of one channel -/

/-- `x[x < 0] = 0` -/
def tens (x : K) : K := if x < 0 then 0 else x

/-- `np.all(time == 0)` -/
def allZero (ts : List K) : Bool := ts.all (fun t => decide (t ≤ 0) && decide (0 ≤ t))

/-- `np.trapezoid(y, t)`: `Σ (t[i+1]-t[i]) * (y[i+1]+y[i]) / 2` -/
def trapz : List K → List K → K
  | t0 :: t1 :: ts, y0 :: y1 :: ys => (t1 - t0) * (y1 + y0) / 2 + trapz (t1 :: ts) (y1 :: ys)
  | _, _ => 0

/-- `g = trapz((y/(ymax+tol))**N, time)/time[-1]` -/
def gfac (tolg N : K) (ts ys : List K) (ymax : K) : K :=
  trapz ts (ys.map fun y => Transc.pow (y / (ymax + tolg)) N) / lastT ts

/-- `((smax**N * g * tot)/B + smax**(N-2)) ** (1/(N-2))` -/
def sigma0 (N B tot g smax : K) : K :=
  Transc.pow (Transc.pow smax N * g * tot / B + Transc.pow smax (N - 2)) (1 / (N - 2))

/-- time-dependent parameters of an element: tolerance of the g-factor, service time, N, B -/
structure TD (K : Type) where
  tolg : K
  tot : K
  N : K
  B : K

/-- transformed stress of a channel with history `ys` (already filtered) and maximum `ymax` -/
def chanTD (td : TD K) (ts ys : List K) (ymax : K) : K :=
  sigma0 td.N td.B td.tot (gfac td.tolg td.N ts ys ymax) ymax

/-- Common skeleton of `calculate_element_log_reliability`.
`C` indexes the channels; `valTI c p` is the channel's stress for principal values `p` as used by the
time-independent branch, `valTD` the (filtered) one used by the time-dependent branch, `rawMax` the
one the maximum over time is taken of; `post` maps per-channel stresses to the element
log-reliability.  Result: one entry per time step if all times are zero, else a single entry. -/
def elemGen {C : Type} (td : TD K) (valTI valTD rawMax : C → P3 K → K) (post : (C → K) → K)
    (ts : List K) (ps : List (P3 K)) : List K :=
  if allZero ts then ps.map (fun p => post (fun c => valTI c p))
  else [post (fun c => chanTD td ts (ps.map (valTD c)) (maxList (ps.map (rawMax c))))]

/-! ## PIA -/

inductive Ax where
  | a0 | a1 | a2

def P3.get (p : P3 K) : Ax → K
  | .a0 => p.p0
  | .a1 => p.p1
  | .a2 => p.p2

/-- `-kavg * np.sum(pstress_0 ** mavg, axis=-1) * volumes` -/
def piaPost (m k V : K) (x : Ax → K) : K :=
  -k * (Transc.pow (x .a0) m + Transc.pow (x .a1) m + Transc.pow (x .a2) m) * V

/-- PIA: channels are the three principal directions, `pstress[pstress<0] = 0` -/
def piaElem (m k V : K) (td : TD K) (ts : List K) (ps : List (P3 K)) : List K :=
  let v : Ax → P3 K → K := fun c p => tens (p.get c)
  elemGen td v v v (piaPost m k V) ts ps

/-! ## orientation grids -/

/-- one crack orientation: the polar angle `a` (= `self.A`), the direction cosines
`l = cos A`, `m = sin A cos B`, `n = sin A sin B`, and `s = sin A` -/
structure Node (K : Type) where
  a : K
  l : K
  m : K
  n : K
  s : K

def nodeOf (a b : K) : Node K :=
  ⟨a, Transc.cos a, Transc.sin a * Transc.cos b, Transc.sin a * Transc.sin b, Transc.sin a⟩

/-- `np.meshgrid(alphas, betas, indexing="ij")`, flattened -/
def meshgrid (as bs : List K) : List (Node K) :=
  (as.map fun a => bs.map fun b => nodeOf a b).flatten

/-- `calculate_normal_stress`: `p0 l² + p1 m² + p2 n²` -/
def sigN (p : P3 K) (nd : Node K) : K :=
  p.p0 * (nd.l * nd.l) + p.p1 * (nd.m * nd.m) + p.p2 * (nd.n * nd.n)

/-- `calculate_total_stress`: `sqrt((p0 l)² + (p1 m)² + (p2 n)²)` -/
def sigTot (p : P3 K) (nd : Node K) : K :=
  Transc.sqrt ((p.p0 * nd.l) * (p.p0 * nd.l) + (p.p1 * nd.m) * (p.p1 * nd.m)
    + (p.p2 * nd.n) * (p.p2 * nd.n))

/-- `calculate_shear_stress`: `sqrt(np.maximum(sigma² - sigma_n², 0.0))` (the clip keeps the
orientations where the traction is normal and the difference rounds to a tiny negative number;
before a902588 those became NaN and were dropped by `np.nansum`) -/
def tauOf (p : P3 K) (nd : Node K) : K :=
  Transc.sqrt (maxNP (sigTot p nd * sigTot p nd - sigN p nd * sigN p nd) 0)

/-! ## WNTSA -/

/-- `np.nansum(np.where(flat >= 0.0, flat, np.nan))` keeps the terms `≥ 0` -/
def keepNonneg (x : K) : K := if 0 ≤ x then x else 0

/-- `calculate_avg_normal_stress`: Σ keep( σ^m · sin A · dα · dβ / (4π) ) -/
def wntsaInt (m da db : K) (grid : List (Node K)) (x : Node K → K) : K :=
  sumL (grid.map fun nd => keepNonneg (Transc.pow (x nd) m * nd.s * da * db / (4 * Consts.pi)))

/-- `-kpvals * (avg_nstress**mavg) * volumes` with `avg_nstress = (…)**(1/mavg)`,
`kpvals = (2 mavg + 1) kavg` -/
def wntsaPost (m k V da db : K) (grid : List (Node K)) (x : Node K → K) : K :=
  -((2 * m + 1) * k) * Transc.pow (Transc.pow (wntsaInt m da db grid x) (1 / m)) m * V

def wntsaElem (m k V da db : K) (grid : List (Node K)) (td : TD K) (ts : List K)
    (ps : List (P3 K)) : List K :=
  let v : Node K → P3 K → K := fun nd p => tens (sigN p nd)
  elemGen td v v v (wntsaPost m k V da db grid) ts ps

/-! ## Batdorf family (crack-shape dependent models) -/

inductive BModel where
  | mtsG | mtsP | cseG | cseP | smmG | smmP
deriving DecidableEq, Repr

/-- the term that is squared next to `sigma_n²` in `calculate_eq_stress` -/
def shearTerm (bm : BModel) (nu cbar tau : K) : K :=
  match bm with
  | .mtsG => tau
  | .mtsP => tau / (1 - (1 / 2) * nu)
  | .cseG => tau
  | .cseP => tau / (1 - (1 / 2) * nu)
  | .smmG => 2 * tau / cbar
  | .smmP => 4 * tau / (cbar * (2 - nu))

/-- MTS and SMM: `0.5 (σn + sqrt(σn² + st²))`; CSE: `sqrt(σn² + st²)` -/
def isCSE : BModel → Bool
  | .cseG => true
  | .cseP => true
  | _ => false

/-- `calculate_eq_stress`: σ_e(σ_n, τ) -/
def sigE (bm : BModel) (nu cbar sn tau : K) : K :=
  let st := shearTerm bm nu cbar tau
  let r := Transc.sqrt (sn * sn + st * st)
  if isCSE bm then r else (1 / 2) * (sn + r)

/-- equivalent stress of principal values `p` on orientation `nd` -/
def sigEof (bm : BModel) (nu cbar : K) (nd : Node K) (p : P3 K) : K :=
  sigE bm nu cbar (sigN p nd) (tauOf p nd)

/-- base of the integrand of `calculate_kbar` at polar angle `a` -/
def kbarF (bm : BModel) (nu cbar a : K) : K :=
  let c := Transc.cos a
  let s := Transc.sin a
  let s2 := Transc.sin (2 * a)
  match bm with
  | .mtsG => (1 / 2) * (c * c + Transc.sqrt (Transc.pow c 4 + (s * s) * (c * c)))
  | .mtsP => (1 / 2) * (c * c + Transc.sqrt (Transc.pow c 4 + (s2 * s2) / ((2 - nu) * (2 - nu))))
  | .cseG => c
  | .cseP => Transc.sqrt (Transc.pow c 4 + (s2 * s2) / ((2 - nu) * (2 - nu)))
  | .smmG => (1 / 2) * (c * c + Transc.sqrt (Transc.pow c 4 + (s2 * s2) / (cbar * cbar)))
  | .smmP => (1 / 2) * (c * c + Transc.sqrt (Transc.pow c 4
      + (4 * (s2 * s2)) / ((cbar * cbar) * ((nu - 2) * (nu - 2)))))

/-- `MTSModelPennyShapedFlaw.calculate_kbar` as it was coded at the pinned commit (defect F28,
repaired by 68740bd): `sin²2A / (2 - ν²)` where the model's own equivalent stress implies
`sin²2A / (2 - ν)²`.  Kept as the reference for the witness theorem `pinned_mtsP_defect`. -/
def kbarFPinnedMtsP (nu a : K) : K :=
  let c := Transc.cos a
  let s2 := Transc.sin (2 * a)
  (1 / 2) * (c * c + Transc.sqrt (Transc.pow c 4 + (s2 * s2) / (2 - nu * nu)))

/-- `kbar` with the pinned MTS/penny-shaped integrand -/
def kbarPinnedMtsP (nu m da db : K) (grid : List (Node K)) : K :=
  Consts.pi / sumL (grid.map fun nd => 2 * (Transc.pow (kbarFPinnedMtsP nu nd.a) m * nd.s * da * db))

/-- `kbar = π / Σ 2 (f(A)^m sin A dα dβ)` -/
def kbar (bm : BModel) (nu cbar m da db : K) (grid : List (Node K)) : K :=
  Consts.pi / sumL (grid.map fun nd => 2 * (Transc.pow (kbarF bm nu cbar nd.a) m * nd.s * da * db))

/-- `np.nansum`: NaN terms are dropped (`x ≤ x` fails exactly for NaN) -/
def nanDrop (x : K) : K := if x ≤ x then x else 0

/-- `calculate_flattened_eq_stress`: Σ σ_e₀^m sin A dα dβ -/
def batInt (m da db : K) (grid : List (Node K)) (x : Node K → K) : K :=
  sumL (grid.map fun nd => nanDrop (Transc.pow (x nd) m * nd.s * da * db))

/-- `-(2 kp/π) * (flat**mavg) * volumes`, `flat = (…)**(1/mavg)`, `kp = kbar·kavg` -/
def batPost (kb m k V da db : K) (grid : List (Node K)) (x : Node K → K) : K :=
  -(2 * (kb * k) / Consts.pi) * Transc.pow (Transc.pow (batInt m da db grid x) (1 / m)) m * V

/-- a Batdorf model with the shear-sensitive (numerically normalised) `k̄`.  The
time-independent branch uses σ_e as is, the time-dependent one takes the maximum of σ_e and then
filters `σ_e < 0`. -/
def batElem (bm : BModel) (nu cbar m k V da db : K) (grid : List (Node K)) (td : TD K)
    (ts : List K) (ps : List (P3 K)) : List K :=
  let raw : Node K → P3 K → K := fun nd p => sigEof bm nu cbar nd p
  elemGen td raw (fun nd p => tens (raw nd p)) raw
    (batPost (kbar bm nu cbar m da db grid) m k V da db grid) ts ps

/-! ## all eight models behind one entry point -/

inductive Model where
  | pia
  | wntsa
  | bat (bm : BModel)

/-- temperature-averaged element parameters -/
structure Par (K : Type) where
  m : K
  k : K
  N : K
  B : K
  nu : K
  cbar : K

/-- grid and increments of a model object -/
structure Grid (K : Type) where
  nodes : List (Node K)
  da : K
  db : K

/-- element log-reliabilities from the principal values *before* the cut-off -/
def elemLogP (mdl : Model) (cares : Bool) (tol tolg tot : K) (g : Grid K) (par : Par K) (V : K)
    (ts : List K) (raw : List (P3 K)) : List K :=
  let ps := raw.map (cutoffIf cares tol)
  let td : TD K := ⟨tolg, tot, par.N, par.B⟩
  match mdl with
  | .pia => piaElem par.m par.k V td ts ps
  | .wntsa => wntsaElem par.m par.k V g.da g.db g.nodes td ts ps
  | .bat bm => batElem bm par.nu par.cbar par.m par.k V g.da g.db g.nodes td ts ps

/-- element log-reliabilities from the stored (quadrature-averaged) components over time -/
def elemLog (eig : Sym3 K → P3 K) (mdl : Model) (cares : Bool) (tol tolg tot : K) (g : Grid K)
    (par : Par K) (V : K) (ts : List K) (stored : List (Stored6 K)) : List K :=
  elemLogP mdl cares tol tolg tot g par V ts (stored.map fun s => eig (toTensor (assemble s)))

/-! ## tube, panel, receiver -/

/-- `np.array(list(inc_prob) * ntime).reshape(ntime, -1)` then `np.sum(axis=1)`: `ntime` copies of
everything `calculate_element_log_reliability` returned, each summed.  `elems` holds, per
element, the entries of that element (one per time step in the time-independent branch, one
otherwise). -/
def tubeSeries (ntime : Nat) (elems : List (List K)) : List K :=
  (List.replicate ntime elems).map fun row => sumL (row.map sumL)

/-- `np.min(p_tube, axis=1)` -/
def tubeLog (ntime : Nat) (elems : List (List K)) : K := minList (tubeSeries ntime elems)

/-- `np.sum((tube * tube_multipliers)[s:e])` over the panel's own tubes: pairs (log R, multiplier) -/
def panelLog (tubes : List (K × K)) : K := sumL (tubes.map fun t => t.1 * t.2)

/-- `np.sum(panel)` -/
def overallLog (panels : List (List (K × K))) : K := sumL (panels.map panelLog)

/-- `np.exp` -/
def rel (x : K) : K := Transc.exp x

end defs

/-! ## line protocol (Float) -/
section proto
open Proto

/-- `np.linspace(start, stop, num, endpoint)` -/
def linspace (start stop : Float) (num : Nat) (endpoint : Bool) : List Float :=
  let div := if endpoint then num - 1 else num
  let step := (stop - start) / Float.ofNat div
  (List.range num).map fun i =>
    if endpoint && i + 1 == num && num > 1 then stop else Float.ofNat i * step + start

/-- grid of `CrackShapeIndependent.__init__` (indep = true) / `CrackShapeDependent.__init__` -/
def mkGrid (indep : Bool) (na nb : Nat) : Grid Float :=
  let pi : Float := Consts.pi
  let as := if indep then linspace 0 pi na true else linspace 0 (pi / 2) na true
  let bs := if indep then linspace 0 (2 * pi) nb false else linspace 0 (pi / 2) nb true
  let da := (as.getLast?.getD 0 - as.headD 0) / Float.ofNat (na - 1)
  let db := (bs.getLast?.getD 0 - bs.headD 0) / Float.ofNat (nb - 1)
  ⟨meshgrid as bs, da, db⟩

def parseModel : String → Option Model
  | "PIA" => some .pia
  | "WNTSA" => some .wntsa
  | "MTSG" => some (.bat .mtsG)
  | "MTSP" => some (.bat .mtsP)
  | "CSEG" => some (.bat .cseG)
  | "CSEP" => some (.bat .cseP)
  | "SMMG" => some (.bat .smmG)
  | "SMMP" => some (.bat .smmP)
  | _ => none

def isIndep : Model → Bool
  | .pia => true
  | .wntsa => true
  | _ => false

def isPIA : Model → Bool
  | .pia => true
  | _ => false

structure TubeReq where
  mdl : Model
  cares : Bool
  na : Nat
  nb : Nat
  tot : Float
  ntime : Nat
  nelem : Nat
  nq : Nat
  times : Array Float
  vols : Array Float
  comps : Array (Array Float)   -- 6 arrays, each ntime*nelem*nq  (xx yy zz yz xz xy)
  mats : Array (Array Float)    -- 6 arrays, each ntime*nelem     (s m N B nu cbar)
  eigs : Array Float            -- ntime*nelem*3

/-- the averaged stored components of element `e` at time `t` -/
def TubeReq.stored (r : TubeReq) (t e : Nat) : Stored6 Float :=
  let v (c j : Nat) : Float := (r.comps.getD c #[]).getD ((t * r.nelem + e) * r.nq + j) 0
  meanStored ((List.range r.nq).map fun j =>
    (⟨v 0 j, v 1 j, v 2 j, v 3 j, v 4 j, v 5 j⟩ : Stored6 Float))

def TubeReq.mat (r : TubeReq) (c t e : Nat) : Float := (r.mats.getD c #[]).getD (t * r.nelem + e) 0

/-- temperature averages of element `e`: `np.mean(·, axis=0)` of m, s^(-m), N, B, nu, cbar -/
def TubeReq.par (r : TubeReq) (e : Nat) : Par Float :=
  let ts := List.range r.ntime
  let col (c : Nat) := ts.map fun t => r.mat c t e
  ⟨meanL (col 1), meanL (ts.map fun t => Transc.pow (r.mat 0 t e) (-(r.mat 1 t e))),
   meanL (col 2), meanL (col 3), meanL (col 4), meanL (col 5)⟩

/-- `eigvalsh` results sent along with the request, by (time, element) -/
def TubeReq.eig (r : TubeReq) (t e : Nat) : P3 Float :=
  let i := (t * r.nelem + e) * 3
  ⟨r.eigs.getD i 0, r.eigs.getD (i + 1) 0, r.eigs.getD (i + 2) 0⟩

def tolCut : Float := 1.0e-16
/-- PIA writes `1.0e-14` in its g-factor, the others use `self.tolerance` -/
def tolG (m : Model) : Float := if isPIA m then 1.0e-14 else 1.0e-16

/-- per element: its entries; `eig` is looked up by (time, element): the oracle -/
def TubeReq.elems (r : TubeReq) (g : Grid Float) : List (List Float) :=
  let ts := r.times.toList
  (List.range r.nelem).map fun e =>
    -- one history per element; eig of the t-th stored state is the t-th table entry
    let raw := (List.range r.ntime).map fun t => r.eig t e
    elemLogP r.mdl r.cares tolCut (tolG r.mdl) r.tot g (r.par e) (r.vols.getD e 0) ts raw

def transposeFlat (elems : List (List Float)) : List Float :=
  match elems with
  | [] => []
  | e0 :: _ => ((List.range e0.length).map fun i => elems.map fun e => e.getD i 0).flatten

def showP (xs : List Float) : String := showFs xs

def parseTube (a : List String) : Option TubeReq :=
  match a with
  | [mdl, cares, na, nb, tot, ntime, nelem, nq, times, vols, c0, c1, c2, c3, c4, c5,
     m0, m1, m2, m3, m4, m5, eigs] => do
    let mdl ← parseModel mdl
    let na ← na.toNat?
    let nb ← nb.toNat?
    let tot ← parseF tot
    let ntime ← ntime.toNat?
    let nelem ← nelem.toNat?
    let nq ← nq.toNat?
    let times ← parseFs times
    let vols ← parseFs vols
    let comps ← [c0, c1, c2, c3, c4, c5].mapM parseFs
    let mats ← [m0, m1, m2, m3, m4, m5].mapM parseFs
    let eigs ← parseFs eigs
    if times.length != ntime || vols.length != nelem || eigs.length != ntime * nelem * 3 then none
    else if comps.any (fun c => c.length != ntime * nelem * nq) then none
    else if mats.any (fun c => c.length != ntime * nelem) then none
    else some ⟨mdl, cares == "1", na, nb, tot, ntime, nelem, nq, times.toArray, vols.toArray,
      (comps.map List.toArray).toArray, (mats.map List.toArray).toArray, eigs.toArray⟩
  | _ => none

/-- the tensors `calculate_principal_stress` hands to `eigvalsh`, by (time, element): xx yy zz yz xz xy -/
def TubeReq.tensors (r : TubeReq) : List Float :=
  ((List.range r.ntime).map fun t => ((List.range r.nelem).map fun e =>
    let s := toTensor (assemble (r.stored t e))
    [s.xx, s.yy, s.zz, s.yz, s.xz, s.xy]).flatten).flatten

def splitAt (sizes : List Nat) (xs : List α) : List (List α) :=
  match sizes with
  | [] => []
  | n :: ns => xs.take n :: splitAt ns (xs.drop n)

/-- line protocol
* `c05tube <model> <cares> <na> <nb> <tot> <ntime> <nelem> <nq> <times> <vols> <xx> <yy> <zz> <yz> <xz> <xy>
   <s> <m> <N> <B> <nu> <cbar> <eigs>` →
  `<element entries, time-major> ; <tube series> ; <tube log> ; <tensors>`
* `c05agg <panel sizes> <multipliers> <tube logs>` → `<panel logs> ; <overall> ; <exp tube> ; <exp panel> ; <exp overall>`
* `c05grid <indep 0|1> <na> <nb>` → `<da> ; <db> ; <alphas of the nodes> ; <l> ; <m> ; <n>` -/
def handle : List String → Option String
  | "c05tube" :: rest => do
    let r ← parseTube rest
    let g := mkGrid (isIndep r.mdl) r.na r.nb
    let elems := r.elems g
    let series := tubeSeries r.ntime elems
    some (showP (transposeFlat elems) ++ ";" ++ showP series ++ ";" ++ showF (tubeLog r.ntime elems)
      ++ ";" ++ showP r.tensors)
  | ["c05agg", sizes, mults, logs] => do
    let sizes ← parseNats sizes
    let mults ← parseFs mults
    let logs ← parseFs logs
    if mults.length != logs.length || sizes.foldl (· + ·) 0 != logs.length then none else
    let panels := splitAt sizes (logs.zip mults)
    let pl := panels.map panelLog
    let ov := overallLog panels
    some (showP pl ++ ";" ++ showF ov ++ ";" ++ showP (logs.map rel) ++ ";" ++ showP (pl.map rel)
      ++ ";" ++ showF (rel ov))
  | ["c05grid", indep, na, nb] => do
    let na ← na.toNat?
    let nb ← nb.toNat?
    let g := mkGrid (indep == "1") na nb
    some (showF g.da ++ ";" ++ showF g.db ++ ";" ++ showP (g.nodes.map (·.a)) ++ ";"
      ++ showP (g.nodes.map (·.l)) ++ ";" ++ showP (g.nodes.map (·.m)) ++ ";" ++ showP (g.nodes.map (·.n)))
  | _ => none

end proto

end SrModel.Ceramic
