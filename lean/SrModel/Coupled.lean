import SrModel.Proto
/-!
# Bookkeeping of the coupled thermohydraulic solve
(`ThermohydraulicsThermalSolver` in `srlife/thermal.py` and `FlowPath` in
`srlife/thermohydraulics/flowpath.py`): set-up validation, the chain layout, recovery of per-panel
results, write-back to the tubes, initial condition and cycle reset, and the algebra of the flow
links (inlet, per-tube heat balance, manifold mean, multiplier weighting).
Core Lean only; numeric parts are polymorphic in the scalar.
-/
namespace SrModel.Coupled

/-! ### `_setup`: every panel in exactly one flow path -/

/-- outcome of the validation in `_setup` -/
inductive Setup where
  | ok
  | duplicate      -- "There are panels in more than one flow path!"
  | missing        -- "At least one panel is not in a flow path!"
deriving Repr, DecidableEq

def hasDup : List String → Bool
  | [] => false
  | x :: xs => xs.contains x || hasDup xs

/-- `pset != set(receiver.panels.keys())`: set equality of names -/
def sameSet (a b : List String) : Bool := a.all (b.contains ·) && b.all (a.contains ·)

def setup (paths : List (List String)) (panels : List String) : Setup :=
  let inPath := paths.flatten
  if hasDup inPath then .duplicate
  else if !sameSet inPath panels then .missing
  else .ok

/-! ### chain layout and recovery -/

/-- kinds of links; `FlowPath.__init__` starts with the inlet, `add_panel` appends a panel link and
a manifold link -/
inductive Link where
  | start
  | panel (name : String) (ntubes : Nat)
  | manifold
deriving Repr, DecidableEq

def Link.size : Link → Nat
  | .start => 1
  | .panel _ n => n
  | .manifold => 1

def chainOf (panels : List (String × Nat)) : List Link :=
  .start :: panels.flatMap fun (n, k) => [.panel n k, .manifold]

/-- `_setup`: consecutive dof ranges -/
def dofMap : Nat → List Link → List (List Nat)
  | _, [] => []
  | off, l :: ls => ((List.range l.size).map (· + off)) :: dofMap (off + l.size) ls

/-- `recover_tube_results`: the entries at odd chain positions (`i % 2 == 1`), in order -/
def recover {α} : List α → List α
  | [] => []
  | [_] => []
  | _ :: b :: rest => b :: recover rest

/-- write-back in `solve_fluid`: `zip(path["panels"], flow_rates, tube_temperatures)`, then the
k-th tube of the panel takes entry k -/
def writeBack {α} (panels : List String) (perPanel : List (List α)) : List (String × Nat × α) :=
  (panels.zip perPanel).flatMap fun (p, vals) => vals.zipIdx.map fun (v, k) => (p, k, v)

/-! ### initial condition and cycle reset -/

/-- stored ghost temperatures over the time grid: step 0 is `T0` (`_setup`); each later step is
whatever the Picard solve returns for it, then the resetter overwrites it with `T0` when the
trigger fires at that time -/
def history {α} (T0 : α) (solve : Nat → α → α) (trigger : Nat → Bool) (reset : Bool) : Nat → α
  | 0 => T0
  | n+1 =>
    let prev := history T0 solve trigger reset n
    let s := solve (n+1) prev
    if reset && trigger (n+1) then T0 else s

section links
variable {K : Type} [Add K] [Sub K] [Mul K] [Div K] [OfNat K 0]

def sum (xs : List K) : K := xs.foldl (· + ·) 0

/-- `StartLink.residual` -/
def startRes (Tend Tinlet : K) : K := Tend - Tinlet

/-- `ManifoldLink.residual`: `Σ w_i T_i / Σ w − T_out` -/
def manifoldRes (w T : List K) (Tout : K) : K :=
  sum (List.zipWith (· * ·) w T) / sum w - Tout

/-- per-tube residual of `SimplePanelLink`: `Q_mass − Q_conv`, with the per-tube specific heat `cp`,
film coefficient `h` and the wall-minus-fluid temperature sum `S = Σ_{θ,z}(T_metal − T_fluid(z))`
supplied (they depend on the tube's own temperatures only) -/
def panelRes (w mdot ntube cp dT ri dz dth h S : K) : K :=
  w * mdot / ntube * cp * dT - ri * dz * dth * (w * h * S)

/-- `flow_rates`: `ṁ / (N π ρ r²)` -/
def flowRate (mdot ntube pi rho ri : K) : K := mdot / (ntube * pi * rho * (ri * ri))

/-- `fluid_temperatures`: linear from the panel inlet to the tube outlet -/
def fluidProfile (Tstart Ttube h z : K) : K := (Ttube - Tstart) / h * z + Tstart
end links

/-! ### line protocol -/
open SrModel.Proto

def showSetup : Setup → String
  | .ok => "ok" | .duplicate => "duplicate" | .missing => "missing"

/-- lists of names: `a,b;c` = [[a,b],[c]]; `-` = empty -/
def parseNames (s : String) : List String := if s == "-" then [] else s.splitOn ","
def parsePaths (s : String) : List (List String) :=
  if s == "-" then [] else (s.splitOn ";").map parseNames

def handle : List String → Option String
  | ["c07setup", paths, panels] => some (showSetup (setup (parsePaths paths) (parseNames panels)))
  | ["c07chain", spec] => do
    -- spec: name:ntubes,name:ntubes
    let ps ← (parseNames spec).mapM fun s =>
      match s.splitOn ":" with
      | [n, k] => k.toNat?.map fun k => (n, k)
      | _ => none
    let ch := chainOf ps
    let dm := dofMap 0 ch
    let panelsAt := recover (ch.map fun l => match l with | .panel n _ => n | .start => "start" | .manifold => "manifold")
    some (";".intercalate (dm.map showNats) ++ "|" ++ ",".intercalate panelsAt)
  | ["c07reset", n, reset, trig] => do
    let n ← n.toNat?
    let tr ← parseBits trig
    -- values: 0 = T0, k>0 = "solved at step k"
    let h := history (0 : Nat) (fun k _ => k) (fun k => tr.getD k false) (reset == "1")
    some (showNats ((List.range (n+1)).map h))
  | _ => none

end SrModel.Coupled
