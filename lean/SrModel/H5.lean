import SrModel.Proto
/-!
# Model of saving / reloading a receiver (`srlife/receiver.py`) and of `convert_to_spring`
(`srlife/system.py`) — property C16

* `PyVal`   — the scalar values a receiver holds, with their Python / numpy *type* (`int`, `float`,
              `str`, `bool`, `np.int64`, `np.float64`, `np.bool_`); floats are carried as IEEE bit
              patterns, so "equal" means bit-equal.  `PyVal.h5` is what h5py makes of a scalar written
              to an attribute and read back (`int ↦ np.int64`, `float ↦ np.float64`, `bool ↦ np.bool_`,
              `str ↦ str`, numpy scalars unchanged) — tabulated here, checked by the correspondence.
* `Arr`     — `np.asarray(x)` of an array-valued field: float64 / int64 array (shape + elements in C
              order) or a list of strings (flow-path panel names; h5py returns `bytes`, `load` decodes).
* `Node`    — an HDF5 tree: a group has attributes, children **in creation order**, and the
              `track_order` flag it was created with; `Node.members` is h5py's iteration order:
              creation order with `track_order=True` (the "panels", "tubes", "flowpaths" groups as /repo now
              creates them), name order otherwise ("results", "quadrature_results", "axial_results").
* `save…` / `load…` for `Receiver`, `Panel`, `Tube`, the four thermal BC kinds (with the `type`
  dispatch of `ThermalBC.load`), `PressureBC`, flow paths — statement by statement as coded, including
  the `OrderedDict` assignment semantics (`dictSet`) and the loops that /repo runs twice
  (flow paths, axial results).
* `norm`    — the canonical form a reloaded receiver has: scalar types widened (`PyVal.h5`), result
              dictionaries in name order; everything else (names, order of panels / tubes / flow paths,
              values) untouched.
* `convertToSpring` — the `isinstance` lattice of `system.convert_to_spring` for option values.

Not in the model (see DESIGN C16 "NC"): the re-validation that `load` performs through the
constructors and setters (`_check_rdim`, `set_bc`, BC shape tests, `add_flowpath` panel check) —
these are deterministic functions of fields that `roundtrip` shows unchanged, and the correspondence
runs them on every case; names that are not HDF5 link names (empty, containing `/`, `.`).
Core Lean only.
-/
namespace SrModel.H5

/-! ## values -/

inductive PyVal where
  | pyInt (i : Int)
  | pyFloat (bits : Nat)
  | pyStr (s : String)
  | pyBool (b : Bool)
  | npInt64 (i : Int)
  | npFloat64 (bits : Nat)
  | npBool (b : Bool)
deriving DecidableEq, Repr, Inhabited

/-- a scalar after `attrs[k] = v` … `attrs[k]` -/
def PyVal.h5 : PyVal → PyVal
  | .pyInt i => .npInt64 i
  | .pyFloat b => .npFloat64 b
  | .pyBool b => .npBool b
  | v => v

/-- the value with the Python/numpy distinction erased -/
inductive Val where
  | int (i : Int) | float (bits : Nat) | str (s : String) | bool (b : Bool)
deriving DecidableEq, Repr

def PyVal.val : PyVal → Val
  | .pyInt i => .int i | .npInt64 i => .int i
  | .pyFloat b => .float b | .npFloat64 b => .float b
  | .pyStr s => .str s
  | .pyBool b => .bool b | .npBool b => .bool b

inductive Arr where
  | f64 (shape : List Nat) (bits : List Nat)
  | i64 (shape : List Nat) (vals : List Int)
  | strs (vals : List String)
deriving DecidableEq, Repr, Inhabited

/-! ## HDF5 tree -/

inductive Node where
  | group (track : Bool) (attrs : List (String × PyVal)) (kids : List (String × Node))
  | dataset (a : Arr)

/-- name order of an untracked group (HDF5 name index: byte-wise = code-point order) -/
def byName {α : Type} (l : List (String × α)) : List (String × α) :=
  l.mergeSort (fun a b => decide (a.1 ≤ b.1))

/-- `for name in grp` -/
def Node.members : Node → List (String × Node)
  | .group true _ kids => kids
  | .group false _ kids => byName kids
  | .dataset _ => []

def Node.attr? : Node → String → Option PyVal
  | .group _ attrs _, k => attrs.lookup k
  | .dataset _, _ => none

def Node.kid? : Node → String → Option Node
  | .group _ _ kids, k => kids.lookup k
  | .dataset _, _ => none

def Node.data? : Node → Option Arr
  | .dataset a => some a
  | .group _ _ _ => none

def Node.ds? (n : Node) (k : String) : Option Arr := (n.kid? k).bind Node.data?

/-- `d[k] = v` on an `OrderedDict` / `dict`: an existing key keeps its position -/
def dictSet {α : Type} : List (String × α) → String → α → List (String × α)
  | [], k, v => [(k, v)]
  | (k', v') :: rest, k, v => if k' = k then (k', v) :: rest else (k', v') :: dictSet rest k v

def dictFill {α : Type} (init : List (String × α)) (kvs : List (String × α)) : List (String × α) :=
  kvs.foldl (fun d kv => dictSet d kv.1 kv.2) init

/-! ## the receiver -/

inductive ThermalBC where
  | heatFlux (r h nt nz : PyVal) (times data : Arr)
  | fixedTemp (r h nt nz : PyVal) (times data : Arr)
  | convective (r h nz : PyVal) (times data : Arr)
  | film (r h nz : PyVal) (fluidT filmCoef : Arr)
deriving DecidableEq, Repr

structure PressureBC where
  times : Arr
  data : Arr
deriving DecidableEq, Repr

inductive Abstraction where
  | d3
  | d2 (plane : PyVal)
  | d1 (plane angle : PyVal)
deriving DecidableEq, Repr

structure Tube where
  r : PyVal
  t : PyVal
  h : PyVal
  nr : PyVal
  nt : PyVal
  nz : PyVal
  T0 : PyVal
  multiplier : PyVal
  abstraction : Abstraction
  times : Arr
  results : List (String × Arr)
  quadrature : List (String × Arr)
  axial : List (String × Arr)
  outerBc : Option ThermalBC
  innerBc : Option ThermalBC
  pressureBc : Option PressureBC
deriving DecidableEq, Repr

structure Panel where
  stiffness : PyVal
  tubes : List (String × Tube)
deriving DecidableEq, Repr

structure FlowPath where
  panels : List String
  times : Arr
  massFlow : Arr
  inletTemp : Arr
deriving DecidableEq, Repr

structure Receiver where
  period : PyVal
  days : PyVal
  stiffness : PyVal
  panels : List (String × Panel)
  flowpaths : List (String × FlowPath)
deriving DecidableEq, Repr

/-! ## save -/

/-- which of the four kinds, as the `type` attribute names it -/
def ThermalBC.kind : ThermalBC → String
  | .heatFlux .. => "HeatFlux"
  | .fixedTemp .. => "FixedTemp"
  | .convective .. => "Convective"
  | .film .. => "FilmCoefficientConvective"

def ThermalBC.save : ThermalBC → Node
  | .heatFlux r h nt nz times data =>
    .group false [("type", .pyStr "HeatFlux"), ("r", r.h5), ("h", h.h5), ("nt", nt.h5), ("nz", nz.h5)]
      [("times", .dataset times), ("data", .dataset data)]
  | .fixedTemp r h nt nz times data =>
    .group false [("type", .pyStr "FixedTemp"), ("r", r.h5), ("h", h.h5), ("nt", nt.h5), ("nz", nz.h5)]
      [("times", .dataset times), ("data", .dataset data)]
  | .convective r h nz times data =>
    .group false [("type", .pyStr "Convective"), ("r", r.h5), ("h", h.h5), ("nz", nz.h5)]
      [("times", .dataset times), ("data", .dataset data)]
  | .film r h nz fluidT filmCoef =>
    .group false [("type", .pyStr "FilmCoefficientConvective"), ("r", r.h5), ("h", h.h5), ("nz", nz.h5)]
      [("fluid_T", .dataset fluidT), ("film", .dataset filmCoef)]

def PressureBC.save (p : PressureBC) : Node :=
  .group false [] [("times", .dataset p.times), ("data", .dataset p.data)]

/-- a group holding one dataset per dictionary entry (created without `track_order`) -/
def dsGroup (kvs : List (String × Arr)) : Node :=
  .group false [] (kvs.map fun kv => (kv.1, Node.dataset kv.2))

def optKid (name : String) : Option Node → List (String × Node)
  | none => []
  | some n => [(name, n)]

def Abstraction.name : Abstraction → String
  | .d3 => "3D" | .d2 _ => "2D" | .d1 _ _ => "1D"

def Abstraction.attrs : Abstraction → List (String × PyVal)
  | .d3 => []
  | .d2 p => [("plane", p.h5)]
  | .d1 p a => [("plane", p.h5), ("angle", a.h5)]

def Tube.save (t : Tube) : Node :=
  .group false
    ([("r", t.r.h5), ("t", t.t.h5), ("h", t.h.h5), ("nr", t.nr.h5), ("nt", t.nt.h5), ("nz", t.nz.h5),
      ("multiplier", t.multiplier.h5), ("abstraction", .pyStr t.abstraction.name)]
      ++ t.abstraction.attrs ++ [("T0", t.T0.h5)])
    ([("times", .dataset t.times), ("results", dsGroup t.results),
      ("quadrature_results", dsGroup t.quadrature), ("axial_results", dsGroup t.axial)]
      ++ optKid "outer_bc" (t.outerBc.map ThermalBC.save)
      ++ optKid "inner_bc" (t.innerBc.map ThermalBC.save)
      ++ optKid "pressure_bc" (t.pressureBc.map PressureBC.save))

/-- `track` is how the "tubes" group is created: `true` in /repo now (`track_order=True`) -/
def Panel.saveWith (track : Bool) (p : Panel) : Node :=
  .group false [("stiffness", p.stiffness.h5)]
    [("tubes", .group track [] (p.tubes.map fun kv => (kv.1, kv.2.save)))]

/-- `create_dataset("panels", data=[])` stores an empty *float* array; a non-empty list of `str`
is stored as variable-length strings -/
def FlowPath.save (f : FlowPath) : Node :=
  .group false [] [("panels", .dataset (if f.panels.isEmpty then .f64 [0] [] else .strs f.panels)),
    ("times", .dataset f.times),
    ("mass_flow", .dataset f.massFlow), ("inlet_temp", .dataset f.inletTemp)]

def Receiver.saveWith (track : Bool) (r : Receiver) : Node :=
  .group false [("period", r.period.h5), ("days", r.days.h5), ("stiffness", r.stiffness.h5)]
    [("panels", .group track [] (r.panels.map fun kv => (kv.1, kv.2.saveWith track))),
     ("flowpaths", .group track [] (r.flowpaths.map fun kv => (kv.1, kv.2.save)))]

/-- `Receiver.save` as /repo codes it now -/
def Receiver.save (r : Receiver) : Node := r.saveWith true
def Panel.save (p : Panel) : Node := p.saveWith true

/-! ## load -/

/-- `ThermalBC.load`: dispatch on the `type` attribute, in the order of the `if`/`elif` chain;
`none` = `ValueError("Unknown BC type")` or a missing attribute / dataset (`KeyError`). -/
def loadThermal (n : Node) : Option ThermalBC := do
  let ty ← n.attr? "type"
  if ty = .pyStr "HeatFlux" then
    some (.heatFlux (← n.attr? "r") (← n.attr? "h") (← n.attr? "nt") (← n.attr? "nz")
      (← n.ds? "times") (← n.ds? "data"))
  else if ty = .pyStr "Convective" then
    some (.convective (← n.attr? "r") (← n.attr? "h") (← n.attr? "nz") (← n.ds? "times") (← n.ds? "data"))
  else if ty = .pyStr "FixedTemp" then
    some (.fixedTemp (← n.attr? "r") (← n.attr? "h") (← n.attr? "nt") (← n.attr? "nz")
      (← n.ds? "times") (← n.ds? "data"))
  else if ty = .pyStr "FilmCoefficientConvective" then
    some (.film (← n.attr? "r") (← n.attr? "h") (← n.attr? "nz") (← n.ds? "fluid_T") (← n.ds? "film"))
  else none

def loadPressure (n : Node) : Option PressureBC := do
  some ⟨← n.ds? "times", ← n.ds? "data"⟩

/-- `for name in grp: d[name] = f(grp[name])`, run `passes` times over the same group -/
def loadDict {α : Type} (f : Node → Option α) (g : Node) (twice : Bool := false) :
    Option (List (String × α)) := do
  let kvs ← g.members.mapM (fun kv => (f kv.2).map (fun v => (kv.1, v)))
  let d := dictFill [] kvs
  some (if twice then dictFill d kvs else d)

/-- an optional child (`if "outer_bc" in fobj:`) -/
def loadOpt {α : Type} (f : Node → Option α) (n : Node) (k : String) : Option (Option α) :=
  match n.kid? k with
  | none => some none
  | some c => (f c).map some

def loadAbstraction (n : Node) : Option Abstraction := do
  let a ← n.attr? "abstraction"
  if a = .pyStr "3D" then some .d3
  else if a = .pyStr "2D" then some (.d2 (← n.attr? "plane"))
  else if a = .pyStr "1D" then some (.d1 (← n.attr? "plane") (← n.attr? "angle"))
  else none   -- an unknown abstraction string is outside the model

def loadTube (n : Node) : Option Tube := do
  let mult := (n.attr? "multiplier").getD (.pyInt 1)
  let r ← n.attr? "r"
  let t ← n.attr? "t"
  let h ← n.attr? "h"
  let nr ← n.attr? "nr"
  let nt ← n.attr? "nt"
  let nz ← n.attr? "nz"
  let T0 ← n.attr? "T0"
  let abstraction ← loadAbstraction n
  let times ← n.ds? "times"
  let results ← loadDict Node.data? (← n.kid? "results")
  let quadrature ← loadDict Node.data? (← n.kid? "quadrature_results")
  let axial ← match n.kid? "axial_results" with
    | none => some []
    | some g => loadDict Node.data? g true       -- the loop is there twice
  let outerBc ← loadOpt loadThermal n "outer_bc"
  let innerBc ← loadOpt loadThermal n "inner_bc"
  let pressureBc ← loadOpt loadPressure n "pressure_bc"
  some { r, t, h, nr, nt, nz, T0, multiplier := mult, abstraction, times, results, quadrature, axial,
         outerBc, innerBc, pressureBc }

def loadPanel (n : Node) : Option Panel := do
  let stiffness ← n.attr? "stiffness"
  let tubes ← loadDict loadTube (← n.kid? "tubes")
  some { stiffness, tubes }

def loadFlowPath (n : Node) : Option FlowPath := do
  let panels ← match ← n.ds? "panels" with
    | .strs names => some names           -- each `bytes` decoded as UTF-8
    | .f64 _ [] => some []                 -- `data=[]` is stored as an empty float array
    | _ => none
  some { panels, times := ← n.ds? "times", massFlow := ← n.ds? "mass_flow", inletTemp := ← n.ds? "inlet_temp" }

def loadReceiver (n : Node) : Option Receiver := do
  let period ← n.attr? "period"
  let days ← n.attr? "days"
  let stiffness ← n.attr? "stiffness"
  let panels ← loadDict loadPanel (← n.kid? "panels")
  let flowpaths ← match n.kid? "flowpaths" with
    | none => some []
    | some g => loadDict loadFlowPath g true     -- the block is there twice
  some { period, days, stiffness, panels, flowpaths }

/-! ## canonical form of a reloaded receiver -/

def ThermalBC.norm : ThermalBC → ThermalBC
  | .heatFlux r h nt nz times data => .heatFlux r.h5 h.h5 nt.h5 nz.h5 times data
  | .fixedTemp r h nt nz times data => .fixedTemp r.h5 h.h5 nt.h5 nz.h5 times data
  | .convective r h nz times data => .convective r.h5 h.h5 nz.h5 times data
  | .film r h nz fluidT filmCoef => .film r.h5 h.h5 nz.h5 fluidT filmCoef

def Abstraction.norm : Abstraction → Abstraction
  | .d3 => .d3
  | .d2 p => .d2 p.h5
  | .d1 p a => .d1 p.h5 a.h5

def Tube.norm (t : Tube) : Tube :=
  { r := t.r.h5, t := t.t.h5, h := t.h.h5, nr := t.nr.h5, nt := t.nt.h5, nz := t.nz.h5,
    T0 := t.T0.h5, multiplier := t.multiplier.h5, abstraction := t.abstraction.norm, times := t.times,
    results := byName t.results, quadrature := byName t.quadrature, axial := byName t.axial,
    outerBc := t.outerBc.map ThermalBC.norm, innerBc := t.innerBc.map ThermalBC.norm,
    pressureBc := t.pressureBc }

def Panel.norm (p : Panel) : Panel :=
  { stiffness := p.stiffness.h5, tubes := p.tubes.map fun kv => (kv.1, kv.2.norm) }

def Receiver.norm (r : Receiver) : Receiver :=
  { period := r.period.h5, days := r.days.h5, stiffness := r.stiffness.h5,
    panels := r.panels.map fun kv => (kv.1, kv.2.norm), flowpaths := r.flowpaths }

/-! ## `convert_to_spring` on option values -/

inductive Spring where
  | linear (k : Val)          -- `spring.LinearSpring(thing)`; `k` is the numeric value
  | special (s : String)      -- "disconnect" / "rigid" passed through
  | badString                 -- `ValueError("Special spring types are either …")`
  | cannotConvert             -- `ValueError("Cannot convert object to spring!")`
deriving DecidableEq, Repr

/-- `isinstance(v, numbers.Real)`: `int`, `float`, `bool` (a subclass of `int`), `np.int64`,
`np.float64` are; `str` and `np.bool_` are not. -/
def PyVal.isReal : PyVal → Bool
  | .pyInt _ | .pyFloat _ | .pyBool _ | .npInt64 _ | .npFloat64 _ => true
  | .pyStr _ | .npBool _ => false

/-- `system.convert_to_spring` for a stiffness option (the `receiver.Tube` branch is not an option value) -/
def convertToSpring (v : PyVal) : Spring :=
  if v.isReal then .linear v.val
  else match v with
    | .pyStr s => if s = "disconnect" ∨ s = "rigid" then .special s else .badString
    | _ => .cannotConvert

/-- the pinned commit tested `isinstance(thing, (float, int))`: `float`, `int`, `bool` and
`np.float64` (a subclass of `float`) pass, `np.int64` and `np.bool_` do not -/
def convertToSpringPinned (v : PyVal) : Spring :=
  match v with
  | .pyFloat _ | .npFloat64 _ | .pyInt _ | .pyBool _ => .linear v.val
  | .pyStr s => if s = "disconnect" ∨ s = "rigid" then .special s else .badString
  | _ => .cannotConvert

/-! ## line protocol -/
open SrModel.Proto

abbrev P := StateT (List String) Option

def tok : P String := fun s => match s with
  | [] => none
  | t :: ts => some (t, ts)

def pNat : P Nat := do let t ← tok; (t.toNat? : Option Nat)
def expect (s : String) : P Unit := do let t ← tok; if t = s then pure () else failure

def parseVal (s : String) : Option PyVal :=
  match s.splitOn ":" with
  | ["i", x] => x.toInt?.map .pyInt
  | ["f", x] => x.toNat?.map .pyFloat
  | ["s", x] => some (.pyStr x)
  | ["b", x] => if x = "1" then some (.pyBool true) else if x = "0" then some (.pyBool false) else none
  | ["I", x] => x.toInt?.map .npInt64
  | ["F", x] => x.toNat?.map .npFloat64
  | ["B", x] => if x = "1" then some (.npBool true) else if x = "0" then some (.npBool false) else none
  | _ => none

def showVal : PyVal → String
  | .pyInt i => s!"i:{i}" | .pyFloat b => s!"f:{b}" | .pyStr s => s!"s:{s}"
  | .pyBool b => if b then "b:1" else "b:0"
  | .npInt64 i => s!"I:{i}" | .npFloat64 b => s!"F:{b}"
  | .npBool b => if b then "B:1" else "B:0"

def parseShape (s : String) : Option (List Nat) :=
  if s == "-" then some [] else (s.splitOn "x").mapM String.toNat?
def showShape (s : List Nat) : String := if s.isEmpty then "-" else "x".intercalate (s.map toString)

def parseArr (s : String) : Option Arr :=
  match s.splitOn ":" with
  | ["af", sh, xs] => do some (.f64 (← parseShape sh) (← parseNats xs))
  | ["ai", sh, xs] => do some (.i64 (← parseShape sh) (← parseInts xs))
  | ["as", xs] => some (.strs (if xs == "-" then [] else xs.splitOn ","))
  | _ => none

def showArr : Arr → String
  | .f64 sh xs => s!"af:{showShape sh}:{showNats xs}"
  | .i64 sh xs => s!"ai:{showShape sh}:{showInts xs}"
  | .strs xs => "as:" ++ (if xs.isEmpty then "-" else ",".intercalate xs)

def pVal : P PyVal := do let t ← tok; (parseVal t : Option PyVal)
def pArr : P Arr := do let t ← tok; (parseArr t : Option Arr)

def pMany {α : Type} (p : P α) : Nat → P (List α)
  | 0 => pure []
  | n+1 => do let a ← p; let as ← pMany p n; pure (a :: as)

def pDict {α : Type} (p : P α) : P (List (String × α)) := do
  let n ← pNat
  pMany (do let k ← tok; let v ← p; pure (k, v)) n

def pThermal : P ThermalBC := do
  let k ← tok
  if k = "HeatFlux" then
    pure (.heatFlux (← pVal) (← pVal) (← pVal) (← pVal) (← pArr) (← pArr))
  else if k = "FixedTemp" then
    pure (.fixedTemp (← pVal) (← pVal) (← pVal) (← pVal) (← pArr) (← pArr))
  else if k = "Convective" then
    pure (.convective (← pVal) (← pVal) (← pVal) (← pArr) (← pArr))
  else if k = "FilmCoefficientConvective" then
    pure (.film (← pVal) (← pVal) (← pVal) (← pArr) (← pArr))
  else failure

def pOpt {α : Type} (p : P α) : P (Option α) := do
  let t ← tok
  if t = "none" then pure none else if t = "some" then (do let a ← p; pure (some a)) else failure

def pAbstraction : P Abstraction := do
  let t ← tok
  if t = "3D" then pure .d3
  else if t = "2D" then pure (.d2 (← pVal))
  else if t = "1D" then pure (.d1 (← pVal) (← pVal))
  else failure

def pTube : P Tube := do
  expect "tube"
  let r ← pVal; let t ← pVal; let h ← pVal; let nr ← pVal; let nt ← pVal; let nz ← pVal
  let T0 ← pVal; let multiplier ← pVal
  let abstraction ← pAbstraction
  let times ← pArr
  let results ← pDict pArr; let quadrature ← pDict pArr; let axial ← pDict pArr
  let outerBc ← pOpt pThermal; let innerBc ← pOpt pThermal
  let pressureBc ← pOpt (do pure ⟨← pArr, ← pArr⟩)
  pure { r, t, h, nr, nt, nz, T0, multiplier, abstraction, times, results, quadrature, axial,
         outerBc, innerBc, pressureBc }

def pPanel : P Panel := do
  expect "panel"
  let stiffness ← pVal
  let tubes ← pDict pTube
  pure { stiffness, tubes }

def pFlow : P FlowPath := do
  expect "flow"
  pure { panels := (match ← pArr with | .strs xs => xs | _ => []), times := ← pArr, massFlow := ← pArr, inletTemp := ← pArr }

def pReceiver : P Receiver := do
  expect "receiver"
  let period ← pVal; let days ← pVal; let stiffness ← pVal
  let panels ← pDict pPanel
  let flowpaths ← pDict pFlow
  pure { period, days, stiffness, panels, flowpaths }

def showDict {α : Type} (f : α → List String) (d : List (String × α)) : List String :=
  toString d.length :: d.flatMap (fun kv => kv.1 :: f kv.2)

def showThermal : ThermalBC → List String
  | .heatFlux r h nt nz a b => ["HeatFlux", showVal r, showVal h, showVal nt, showVal nz, showArr a, showArr b]
  | .fixedTemp r h nt nz a b => ["FixedTemp", showVal r, showVal h, showVal nt, showVal nz, showArr a, showArr b]
  | .convective r h nz a b => ["Convective", showVal r, showVal h, showVal nz, showArr a, showArr b]
  | .film r h nz a b => ["FilmCoefficientConvective", showVal r, showVal h, showVal nz, showArr a, showArr b]

def showOpt {α : Type} (f : α → List String) : Option α → List String
  | none => ["none"]
  | some a => "some" :: f a

def showAbstraction : Abstraction → List String
  | .d3 => ["3D"] | .d2 p => ["2D", showVal p] | .d1 p a => ["1D", showVal p, showVal a]

def showTube (t : Tube) : List String :=
  ["tube", showVal t.r, showVal t.t, showVal t.h, showVal t.nr, showVal t.nt, showVal t.nz,
   showVal t.T0, showVal t.multiplier] ++ showAbstraction t.abstraction ++ [showArr t.times]
  ++ showDict (fun a => [showArr a]) t.results ++ showDict (fun a => [showArr a]) t.quadrature
  ++ showDict (fun a => [showArr a]) t.axial
  ++ showOpt showThermal t.outerBc ++ showOpt showThermal t.innerBc
  ++ showOpt (fun p => [showArr p.times, showArr p.data]) t.pressureBc

def showPanel (p : Panel) : List String := ["panel", showVal p.stiffness] ++ showDict showTube p.tubes

def showFlow (f : FlowPath) : List String :=
  ["flow", showArr (.strs f.panels), showArr f.times, showArr f.massFlow, showArr f.inletTemp]

def showReceiver (r : Receiver) : List String :=
  ["receiver", showVal r.period, showVal r.days, showVal r.stiffness]
  ++ showDict showPanel r.panels ++ showDict showFlow r.flowpaths

def showSpring : Spring → String
  | .linear (.int i) => s!"linear:int:{i}"
  | .linear (.float b) => s!"linear:float:{b}"
  | .linear (.bool b) => s!"linear:bool:{if b then 1 else 0}"
  | .linear (.str s) => s!"linear:str:{s}"
  | .special s => s!"special:{s}"
  | .badString => "error:bad-string"
  | .cannotConvert => "error:cannot-convert"

/-- iteration order of the groups of a saved tree, as `path=name,name,…` entries -/
def treeOrder (n : Node) : List String :=
  let names (m : Node) : String := ",".intercalate (m.members.map (·.1))
  match n.kid? "panels", n.kid? "flowpaths" with
  | some ps, some fs =>
    [s!"panels={names ps}", s!"flowpaths={names fs}"] ++
    ps.members.flatMap (fun kv => match kv.2.kid? "tubes" with
      | some ts => s!"panels/{kv.1}/tubes={names ts}" ::
          ts.members.flatMap (fun tv =>
            ["results", "quadrature_results", "axial_results"].filterMap (fun g =>
              (tv.2.kid? g).map (fun gn => s!"panels/{kv.1}/tubes/{tv.1}/{g}={names gn}")))
      | none => [])
  | _, _ => []

/-- requests
* `c16 rt <receiver tokens…>`     → the tokens of `loadReceiver (save r)` (or `load-failed`)
* `c16 rtpinned <receiver tokens…>` → the same for a file written without `track_order`
* `c16 tree <receiver tokens…>`   → iteration order of every group of `save r`
* `c16 spring <val>` / `c16 springpinned <val>` → outcome of `convert_to_spring` -/
def handle : List String → Option String
  | "c16" :: "rt" :: toks =>
    match pReceiver toks with
    | some (r, []) => some (match loadReceiver r.save with
        | some r' => " ".intercalate (showReceiver r')
        | none => "load-failed")
    | _ => none
  | "c16" :: "rtpinned" :: toks =>
    match pReceiver toks with
    | some (r, []) => some (match loadReceiver (r.saveWith false) with
        | some r' => " ".intercalate (showReceiver r')
        | none => "load-failed")
    | _ => none
  | "c16" :: "tree" :: toks =>
    match pReceiver toks with
    | some (r, []) => some (" ".intercalate (treeOrder r.save))
    | _ => none
  | ["c16", "spring", v] => (parseVal v).map (fun v => showSpring (convertToSpring v))
  | ["c16", "springpinned", v] => (parseVal v).map (fun v => showSpring (convertToSpringPinned v))
  | _ => none

end SrModel.H5
