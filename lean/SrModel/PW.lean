import SrModel.Proto
/-!
# C20 — model of the material-property layer of srlife (`srlife/materials.py`, `srlife/library.py`)

Core Lean only (no Mathlib).  Contents

* `pw`, `pwDeriv`        – `materials.make_piecewise`: `scipy.interpolate.interp1d(x, y,
                           fill_value=(ydiff[0], ydiff[-1]))` (linear inside the table; *outside* scipy raises,
                           the fill values are dead code) and `interp1d(x, ydiff, kind="previous",
                           fill_value=(0, 0))`; the ceramic tables (`interp1d(x, y)`) behave the same;
* `timeToRupture`        – `StructuralMaterial.time_to_rupture`:  `10 ** (Σ aᵢ·log10(σ)**nᵢ / T − C)`;
  `cyclesToFail`         – `StructuralMaterial.cycles_to_fail`: curves sorted by temperature, the first curve
                           with `temp ≤ T_curve` is used (raise above the hottest), the strain range is
                           clamped from below at the curve's cut-off, `10 ** Σ aᵢ·log10(ε)**nᵢ`;
  `insideEnv`            – `StructuralMaterial.inside_envelope`;
* `Xml`, `PV`, `saveNode`, `loadNode`, `chain`, `joinSp`, `splitSp`, `findName`
                         – `save_node / load_node` (with the `dict(ChainMap(*children))` ordering and
                           first-duplicate-wins rule), `string_array / destring_array`, `find_name`;
* data structures (`Thermal`, `Fluid`, `ThermalFluid`, `Metallic`, `Ceramic`, `Entry`, `DB`) that the
  translator `gen/gen_data.py` instantiates in `Gen/Data.lean` with exact rationals;
* `dispatch`             – which loader branch `library.load_*` / `materials.*.load` takes for a
                           (directory, root type, type string);
* computable certificate checkers over `Rat` (`bernSign`, `tableOk`, `ruptureOk`, `fatigueOk`, `kneeOk`,
  `ceramicOk`, `loaderOk`, …).  Their soundness is proved in `SrProofs/Data.lean`.
* `handle` / `handleDB`  – line protocol.

Numeric functions are polymorphic in the scalar `K`; the exact rational data enter through an
embedding `ι : Rat → K` (`ratToFloat` for the correspondence runs, the cast `ℚ → ℝ` in the theorems).
-/
namespace SrModel.PW

/-- the two transcendental functions the correlations need -/
class Log10Pow (K : Type) where
  log10 : K → K
  pow10 : K → K

instance : Log10Pow Float := ⟨Float.log10, fun x => Float.pow 10.0 x⟩

/-- exact rational → nearest-ish double (numerator and denominator rounded, then one division) -/
def ratToFloat (q : Rat) : Float := Float.ofInt q.num / Float.ofNat q.den

/-! ### spec constants (recorded in `/verif/spec/ranges.json`; the harness compares) -/
def sigmaLo : Rat := 1
def sigmaHi : Rat := 1000
/-- `log10 sigmaLo`, `log10 sigmaHi` -/
def xLo : Rat := 0
def xHi : Rat := 3
def epsHi : Rat := (5 : Rat) / 100
/-- a rational upper bound of `log10 epsHi` (checked: `10^(-13) ≥ (5/100)^10`) -/
def yHi : Rat := (-13 : Rat) / 10
/-- bisection depth of the Bernstein certificates -/
def bernDepth : Nat := 6

section poly
variable {K : Type} [Zero K] [One K] [Add K] [Sub K] [Mul K] [Div K] [LT K] [DecidableLT K]
  [LE K] [DecidableLE K]

/-! ### piecewise-linear tables -/

def slope (x0 y0 x1 y1 : K) : K := (y1 - y0) / (x1 - x0)

/-- `numpy.interp` on one segment: `slope*(x - x0) + y0` -/
def pwSeg (x0 y0 x1 y1 x : K) : K := y0 + slope x0 y0 x1 y1 * (x - x0)

/-- value inside the table: the segment `j` with `x_j ≤ x < x_{j+1}` (the last one at the last knot) -/
def pwIn : List (K × K) → K → K
  | [], _ => 0
  | [_], _ => 0
  | [(x0, y0), (x1, y1)], x => pwSeg x0 y0 x1 y1 x
  | (x0, y0) :: (x1, y1) :: p2 :: rest, x =>
      if x < x1 then pwSeg x0 y0 x1 y1 x else pwIn ((x1, y1) :: p2 :: rest) x

/-- slope of the segment `j` with `x_j ≤ x < x_{j+1}` (`kind="previous"` on `ydiff`; `ydiff[-1]=ydiff[-2]`) -/
def pwDerivIn : List (K × K) → K → K
  | [], _ => 0
  | [_], _ => 0
  | [(x0, y0), (x1, y1)], _ => slope x0 y0 x1 y1
  | (x0, y0) :: (x1, y1) :: p2 :: rest, x =>
      if x < x1 then slope x0 y0 x1 y1 else pwDerivIn ((x1, y1) :: p2 :: rest) x

def firstX : List (K × K) → K
  | [] => 0
  | p :: _ => p.1

def lastX : List (K × K) → K
  | [] => 0
  | [p] => p.1
  | _ :: q :: r => lastX (q :: r)

/-- `make_piecewise(x, y)[0]` = `interp1d(x, y, fill_value=(ydiff[0], ydiff[-1]))`: linear interpolation
inside the table.  The `fill_value` pair is dead code: with `bounds_error=None` and a fill value other
than `"extrapolate"` scipy sets `bounds_error=True`, so outside the table the call raises `ValueError`
(`none`).  The same holds for the ceramic tables (`interp1d(x, y)`). -/
def pw (tab : List (K × K)) (x : K) : Option K :=
  if x < firstX tab then none
  else if lastX tab < x then none
  else some (pwIn tab x)

/-- `make_piecewise(x, y)[1]` = `interp1d(x, ydiff, kind="previous", fill_value=(0, 0))` (raises outside) -/
def pwDeriv (tab : List (K × K)) (x : K) : Option K :=
  if x < firstX tab then none
  else if lastX tab < x then none
  else some (pwDerivIn tab x)

/-- embed a rational table -/
def castTab (ι : Rat → K) (tab : List (Rat × Rat)) : List (K × K) :=
  tab.map (fun p => (ι p.1, ι p.2))

/-! ### correlations -/

def npow (x : K) : Nat → K
  | 0 => 1
  | n + 1 => npow x n * x

/-- `res = 0.0; for b, m in zip(a, n): res += b * x ** m` -/
def evalTermsFrom (ι : Rat → K) (x : K) : K → List (Rat × Nat) → K
  | acc, [] => acc
  | acc, (a, n) :: ts => evalTermsFrom ι x (acc + ι a * npow x n) ts

def evalTerms (ι : Rat → K) (ts : List (Rat × Nat)) (x : K) : K := evalTermsFrom ι x 0 ts

/-- `numpy.polyval` (highest power first, Horner) -/
def polyval (ι : Rat → K) (p : List Rat) (x : K) : K :=
  p.foldl (fun acc c => acc * x + ι c) 0

end poly

/-- a Larson–Miller-type rupture correlation: `a`, `n` (exponents of `log10 σ`) and `C` -/
structure Rupture where
  C : Rat
  terms : List (Rat × Nat)
deriving Repr

structure FatigueCurve where
  T : Rat
  terms : List (Rat × Nat)
  cutoff : Rat
deriving Repr

section corr
variable {K : Type} [Zero K] [One K] [Add K] [Sub K] [Mul K] [Div K] [LT K] [DecidableLT K]
  [LE K] [DecidableLE K] [Log10Pow K]
open Log10Pow

/-- `time_to_rupture` for a non-zero stress (`stress == 0 ↦ inf` is outside the modelled range) -/
def timeToRupture (ι : Rat → K) (r : Rupture) (temp stress : K) : K :=
  pow10 (evalTerms ι r.terms (log10 stress) / temp - ι r.C)

/-- the curve `cycles_to_fail` uses: after sorting by temperature, the first with `temp ≤ T`;
i.e. the coldest curve that is at least as hot as `temp` (`none`: `temp > max(T)`, the code raises) -/
def selectCurve (ι : Rat → K) (temp : K) : List FatigueCurve → Option FatigueCurve
  | [] => none
  | c :: cs =>
    match selectCurve ι temp cs with
    | none => if temp ≤ ι c.T then some c else none
    | some b => if temp ≤ ι c.T then (if ι c.T < ι b.T then some c else some b) else some b

/-- `if erange <= cutoff: erange = cutoff` -/
def clampBelow (c e : K) : K := if e ≤ c then c else e

def curveCycles (ι : Rat → K) (c : FatigueCurve) (erange : K) : K :=
  pow10 (evalTerms ι c.terms (log10 (clampBelow (ι c.cutoff) erange)))

def cyclesToFail (ι : Rat → K) (curves : List FatigueCurve) (temp erange : K) : Option K :=
  (selectCurve ι temp curves).map (fun c => curveCycles ι c erange)

/-- right-hand side of the envelope test: the creep-damage bound at fatigue damage `df` -/
def envBound (x2 y2 df : K) : K :=
  if df < x2 then (y2 - 1) / (x2 - 0) * (df - 0) + 1
  else (0 - y2) / (1 - x2) * (df - x2) + y2

/-- `inside_envelope`; `none` = `ValueError` (negative damage fraction) -/
def insideEnv (ι : Rat → K) (knee : Rat × Rat) (df dc : K) : Option Bool :=
  if df < 0 then none else if dc < 0 then none
  else some (decide (dc ≤ envBound (ι knee.1) (ι knee.2) df))

end corr

/-! ### data structures filled in by the translator -/

inductive Thermal where
  | piecewise (name : String) (cond diff : List (Rat × Rat))
  | constant (name : String) (k alpha : Rat)
  | unsupported (why : String)
deriving Repr

inductive Fluid where
  | piecewise (tabs : List (String × List (Rat × Rat)))
  | constant (vals : List (String × Rat))
  | unsupported (why : String)
deriving Repr

inductive ThermalFluid where
  | polynomial (cp rho mu k : List Rat) (extra : List (String × Rat))
  | unsupported (why : String)
deriving Repr

/-- a metallic damage variant: every child of the variant node, classified by its shape -/
structure Metallic where
  ruptures : List (String × Rupture)
  fatigues : List (String × List FatigueCurve)
  envelopes : List (String × (Rat × Rat))
  unsupported : List String
deriving Repr

inductive Ceramic where
  | standard (strength modulus nv bv : List (Rat × Rat)) (cbar nu : Rat)
  | unsupported (why : String)
deriving Repr

/-- one (directory, file, variant) of the library with the root `type` attribute and the variant's -/
structure Entry where
  dir : String
  file : String
  variant : String
  rootType : String
  typ : String
deriving Repr, DecidableEq

structure DB where
  entries : List Entry
  thermals : List (String × String × Thermal)
  fluids : List (String × String × Fluid)
  tfluids : List (String × String × ThermalFluid)
  metallics : List (String × String × Metallic)
  ceramics : List (String × String × Ceramic)
  /-- validity windows found in comments: (directory, file, lo, hi) -/
  windows : List (String × String × Rat × Rat)
  /-- files / nodes the translator could not read at all -/
  unsupported : List String

/-! ### loader dispatch (`library.py`, `materials.py`, `thermalfluid.py`) -/

inductive Branch where
  | plThermal | constThermal | plFluid | constFluid | polyThermalFluid
  | structural | stdCeramic | neml
deriving Repr, DecidableEq

/-- top-level NEML model classes `neml.parse.parse_xml` can return (`NEMLModel_sd` family) -/
def nemlTypes : List String :=
  ["SmallStrainElasticity", "SmallStrainPerfectPlasticity", "SmallStrainRateIndependentPlasticity",
   "SmallStrainCreepPlasticity", "GeneralIntegrator", "KMRegimeModel"]

def dispatch (dir rootType typ : String) : Option Branch :=
  if dir == "thermal" then
    (if typ == "PiecewiseLinearThermalMaterial" then some .plThermal
     else if typ == "ConstantThermalMaterial" then some .constThermal else none)
  else if dir == "fluid" then
    (if typ == "PiecewiseLinearFluidMaterial" then some .plFluid
     else if typ == "ConstantFluidMaterial" then some .constFluid else none)
  else if dir == "thermalfluid" then
    (if typ == "PolynomialThermalFluidMaterial" then some .polyThermalFluid else none)
  else if dir == "damage" then
    (if rootType == "metallic" then some .structural
     else if rootType == "ceramic" then (if typ == "StandardModel" then some .stdCeramic else none)
     else none)
  else if dir == "deformation" then
    (if nemlTypes.contains typ then some .neml else none)
  else none

/-- property names `damage.py` asks a metallic model for -/
def requiredRuptures : List String := ["averageRupture", "lowerboundRupture"]
def requiredFatigues : List String := ["nominalFatigue"]
def requiredEnvelopes : List String := ["cfinteraction"]

def find3 {α} (f v : String) : List (String × String × α) → Option α
  | [] => none
  | (f', v', a) :: r => if f' == f && v' == v then some a else find3 f v r

/-- the payload the translator produced for an entry is of the kind its loader branch reads -/
def payloadOk (db : DB) (e : Entry) : Branch → Bool
  | .plThermal => match find3 e.file e.variant db.thermals with
      | some (.piecewise ..) => true | _ => false
  | .constThermal => match find3 e.file e.variant db.thermals with
      | some (.constant ..) => true | _ => false
  | .plFluid => match find3 e.file e.variant db.fluids with
      | some (.piecewise tabs) => tabs.any (·.1 == "default") | _ => false
  | .constFluid => match find3 e.file e.variant db.fluids with
      | some (.constant vals) => vals.any (·.1 == "default") | _ => false
  | .polyThermalFluid => match find3 e.file e.variant db.tfluids with
      | some (.polynomial ..) => true | _ => false
  | .structural => match find3 e.file e.variant db.metallics with
      | some m => m.unsupported.isEmpty
          && requiredRuptures.all (fun n => m.ruptures.any (·.1 == n))
          && requiredFatigues.all (fun n => m.fatigues.any (·.1 == n))
          && requiredEnvelopes.all (fun n => m.envelopes.any (·.1 == n))
      | none => false
  | .stdCeramic => match find3 e.file e.variant db.ceramics with
      | some (.standard ..) => true | _ => false
  | .neml => true

def entryOk (db : DB) (e : Entry) : Bool :=
  match dispatch e.dir e.rootType e.typ with
  | none => false
  | some b => payloadOk db e b

def hasEntry (db : DB) (dir file variant : String) : Bool :=
  db.entries.any (fun e => e.dir == dir && e.file == file && e.variant == variant)

def hasFile (db : DB) (dir file : String) : Bool :=
  db.entries.any (fun e => e.dir == dir && e.file == file)

def isMetallic (db : DB) (file : String) : Bool :=
  db.entries.any (fun e => e.dir == "damage" && e.file == file && e.rootType == "metallic")

/-- solid materials: `load_material(name, …)` needs the file in all three directories; for the
metallic materials (the ones `doc/sphinx/source/materials.rst` tabulates) the documented `"base"`
variant must exist in each of them -/
def solidDirs : List String := ["thermal", "deformation", "damage"]

def crossOk (db : DB) : Bool :=
  db.entries.all (fun e =>
    if solidDirs.contains e.dir then
      solidDirs.all (fun d => hasFile db d e.file &&
        (!isMetallic db e.file || hasEntry db d e.file "base"))
    else true)

/-- names of the thermal materials (the `name` field `FluidMaterial.coefficient` is called with) -/
def thermalNames (db : DB) : List String :=
  db.thermals.filterMap (fun t => match t.2.2 with
    | .piecewise n _ _ => some n | .constant n _ _ => some n | .unsupported _ => none)

/-- every material-specific key of a fluid model names a shipped thermal material -/
def fluidKeysOk (db : DB) : Bool :=
  db.fluids.all (fun f => match f.2.2 with
    | .piecewise tabs => tabs.all (fun t => t.1 == "default" || (thermalNames db).contains t.1)
    | .constant vals => vals.all (fun t => t.1 == "default" || (thermalNames db).contains t.1)
    | .unsupported _ => false)

def loaderOk (db : DB) : Bool :=
  db.unsupported.isEmpty && db.entries.all (entryOk db) && crossOk db && fluidKeysOk db

/-! ### certificate checkers over `Rat` -/

/-- strictly increasing abscissae, at least two knots -/
def sortedX : List (Rat × Rat) → Bool
  | [] => true
  | [_] => true
  | p :: q :: r => decide (p.1 < q.1) && sortedX (q :: r)

def tableOk (tab : List (Rat × Rat)) : Bool := decide (2 ≤ tab.length) && sortedX tab

/-- all ordinates above `c` -/
def tableAbove (c : Rat) (tab : List (Rat × Rat)) : Bool := tab.all (fun p => decide (c < p.2))

def thermalOk : Thermal → Bool
  | .piecewise _ cond diff => tableOk cond && tableAbove 0 cond && tableOk diff && tableAbove 0 diff
  | .constant _ k a => decide (0 < k) && decide (0 < a)
  | .unsupported _ => false

abbrev Poly := List Rat   -- lowest power first

def addTerm : Nat → Rat → Poly → Poly
  | 0, a, [] => [a]
  | 0, a, c :: cs => (c + a) :: cs
  | n + 1, a, [] => 0 :: addTerm n a []
  | n + 1, a, c :: cs => c :: addTerm n a cs

/-- dense coefficient list of `Σ aᵢ xⁿⁱ` -/
def dense : List (Rat × Nat) → Poly
  | [] => []
  | (a, n) :: ts => addTerm n a (dense ts)

def derivAux : Nat → Poly → Poly
  | _, [] => []
  | k, c :: cs => (k : Rat) * c :: derivAux (k + 1) cs

/-- formal derivative -/
def deriv (p : Poly) : Poly := derivAux 1 p.tail

def negP (p : Poly) : Poly := p.map (fun c => -c)

def addL : Poly → Poly → Poly
  | a :: as, b :: bs => (a + b) :: addL as bs
  | _, _ => []

def scaleL (c : Rat) (p : Poly) : Poly := p.map (fun a => c * a)

/-- coefficients (in the basis `tⁱ s^(n-i)`) of `(b·t + a·s) · H` -/
def mulLin (b a : Rat) (l : Poly) : Poly := addL (scaleL b (0 :: l)) (scaleL a (l ++ [0]))

/-- `(t + s)ⁿ`: the binomial row -/
def binomRow : Nat → Poly
  | 0 => [1]
  | n + 1 => mulLin 1 1 (binomRow n)

/-- scaled Bernstein coefficients `C(n,i)·βᵢ` of `p` on `[a,b]`: with `x = b·t + a·s`, `t + s = 1`,
`p(x) = Σ hᵢ tⁱ s^(n-i)` -/
def homog (a b : Rat) : Poly → Poly
  | [] => []
  | c :: cs => addL (scaleL c (binomRow cs.length)) (mulLin b a (homog a b cs))

def allNeg (l : Poly) : Bool := !l.isEmpty && l.all (fun h => decide (h < 0))
def allNonpos (l : Poly) : Bool := l.all (fun h => decide (h ≤ 0))

/-- sign certificate: every Bernstein coefficient of `p` on `[a,b]` is negative (`strict`) /
non-positive, else bisect, to depth `d` -/
def bernSign (strict : Bool) : Nat → Poly → Rat → Rat → Bool
  | 0, p, a, b => if strict then allNeg (homog a b p) else allNonpos (homog a b p)
  | d + 1, p, a, b =>
    (if strict then allNeg (homog a b p) else allNonpos (homog a b p)) ||
      (bernSign strict d p a ((a + b) / 2) && bernSign strict d p ((a + b) / 2) b)

/-- `P' < 0` and `P > 0` on `[xLo, xHi] = log10 [sigmaLo, sigmaHi]` -/
def ruptureOk (r : Rupture) : Bool :=
  bernSign true bernDepth (deriv (dense r.terms)) xLo xHi &&
  bernSign true bernDepth (negP (dense r.terms)) xLo xHi

/-- a rational `k/10 ≤ log10 c` for `10⁻¹⁰ ≤ c`: the largest `k ∈ [-100, 0]` with `10^k ≤ c^10`
(searched downwards from 0; the certificate `logLoOk` re-checks the result) -/
def logLoSearch (c10 : Rat) : Nat → Int → Int
  | 0, k => k
  | f + 1, k => if (10 : Rat) ^ k ≤ c10 then k else logLoSearch c10 f (k - 1)

def logLo10 (c : Rat) : Int := logLoSearch (c ^ 10) 100 0

def logLoOk (c : Rat) : Bool := decide (0 < c) && decide ((10 : Rat) ^ (logLo10 c) ≤ c ^ 10)

/-- `Q' ≤ 0` on a rational interval containing `[log10 cutoff, log10 epsHi]` -/
def curveOk (c : FatigueCurve) : Bool :=
  logLoOk c.cutoff &&
  bernSign false bernDepth (deriv (dense c.terms)) ((logLo10 c.cutoff : Rat) / 10) yHi

def distinctT : List FatigueCurve → Bool
  | [] => true
  | c :: cs => cs.all (fun d => decide (d.T ≠ c.T)) && distinctT cs

def fatigueOk (cs : List FatigueCurve) : Bool := !cs.isEmpty && distinctT cs && cs.all curveOk

def kneeOk (k : Rat × Rat) : Bool :=
  decide (0 < k.1) && decide (k.1 < 1) && decide (0 < k.2) && decide (k.2 < 1)

def metallicOk (m : Metallic) : Bool :=
  m.ruptures.all (fun r => ruptureOk r.2) && m.fatigues.all (fun f => fatigueOk f.2) &&
  m.envelopes.all (fun e => kneeOk e.2)

def ceramicOk : Ceramic → Bool
  | .standard s m nv bv cbar nu =>
      tableOk s && tableAbove 0 s && tableOk m && tableAbove 0 m &&
      tableOk nv && tableAbove 2 nv && tableOk bv && tableAbove 0 bv &&
      decide (0 < cbar) && decide (0 < nu)
  | .unsupported _ => false

/-- every tabulated model of the library (for `pw_at_knot` / `pw_deriv_is_slope`) -/
def allTables (db : DB) : List (String × List (Rat × Rat)) :=
  (db.thermals.flatMap (fun t => match t.2.2 with
      | .piecewise _ c d => [("thermal/" ++ t.1 ++ "/" ++ t.2.1 ++ "/cond", c),
                             ("thermal/" ++ t.1 ++ "/" ++ t.2.1 ++ "/diff", d)]
      | _ => [])) ++
  (db.fluids.flatMap (fun t => match t.2.2 with
      | .piecewise tabs => tabs.map (fun q => ("fluid/" ++ t.1 ++ "/" ++ t.2.1 ++ "/" ++ q.1, q.2))
      | _ => [])) ++
  (db.ceramics.flatMap (fun t => match t.2.2 with
      | .standard s m nv bv _ _ =>
          [("damage/" ++ t.1 ++ "/" ++ t.2.1 ++ "/strength", s),
           ("damage/" ++ t.1 ++ "/" ++ t.2.1 ++ "/modulus", m),
           ("damage/" ++ t.1 ++ "/" ++ t.2.1 ++ "/fatigue_Nv", nv),
           ("damage/" ++ t.1 ++ "/" ++ t.2.1 ++ "/fatigue_Bv", bv)]
      | _ => []))

/-- names of the items whose certificate fails (diagnostics for the harness) -/
def failing (db : DB) : List String :=
  (db.thermals.filterMap (fun t => if thermalOk t.2.2 then none
      else some ("thermal_positive:thermal/" ++ t.1 ++ "/" ++ t.2.1))) ++
  (db.metallics.flatMap (fun t =>
      (t.2.2.ruptures.filterMap (fun r => if ruptureOk r.2 then none
          else some ("rupture_antitone:damage/" ++ t.1 ++ "/" ++ t.2.1 ++ "/" ++ r.1))) ++
      (t.2.2.fatigues.filterMap (fun r => if fatigueOk r.2 then none
          else some ("fatigue_antitone:damage/" ++ t.1 ++ "/" ++ t.2.1 ++ "/" ++ r.1))) ++
      (t.2.2.envelopes.filterMap (fun r => if kneeOk r.2 then none
          else some ("envelope_points:damage/" ++ t.1 ++ "/" ++ t.2.1 ++ "/" ++ r.1))))) ++
  (db.ceramics.filterMap (fun t => if ceramicOk t.2.2 then none
      else some ("ceramic_positive:damage/" ++ t.1 ++ "/" ++ t.2.1))) ++
  ((allTables db).filterMap (fun t => if tableOk t.2 then none else some ("pw_at_knot:" ++ t.1))) ++
  (db.entries.filterMap (fun e => if entryOk db e then none
      else some ("loader_total:" ++ e.dir ++ "/" ++ e.file ++ "/" ++ e.variant ++ "[" ++ e.typ ++ "]"))) ++
  (db.unsupported.map (fun s => "loader_total:unsupported:" ++ s)) ++
  (if crossOk db then [] else ["loader_total:cross-reference(material present, with its base variant, in thermal/deformation/damage)"]) ++
  (if fluidKeysOk db then [] else ["loader_total:cross-reference(fluid key names no thermal material)"])

/-! ### XML tree model of `save_node` / `load_node` / `find_name` -/

/-- an `xml.etree.ElementTree.Element`: tag, attributes, text, children -/
inductive Xml where
  | elem (tag : String) (attrib : List (String × String)) (text : Option String) (children : List Xml)
deriving Repr

/-- the Python value handled by `save_node` / `load_node`: a string (or `None`) or a dict -/
inductive PV where
  | text (s : Option String)
  | dict (kvs : List (String × PV))
deriving Repr

mutual
  /-- `save_node(name, entry, parent, attrib)` – the sub-element it appends -/
  def saveNode (name : String) (attrib : List (String × String)) : PV → Xml
    | .text s => .elem name attrib s []
    | .dict kvs => .elem name attrib none (saveList kvs)
  def saveList : List (String × PV) → List Xml
    | [] => []
    | (k, v) :: r => saveNode k [] v :: saveList r
end

/-- keys in order of first appearance, skipping those in `seen` -/
def dedupFrom : List String → List String → List String
  | _, [] => []
  | seen, k :: ks => if seen.contains k then dedupFrom seen ks else k :: dedupFrom (k :: seen) ks

/-- `dict(ChainMap(*maps))` for singleton maps `{kᵢ: vᵢ}`: keys in order of first appearance in the
*reversed* list, value from the *first* map that has the key -/
def chain (l : List (String × PV)) : List (String × PV) :=
  (dedupFrom [] (l.reverse.map Prod.fst)).filterMap (fun k => (l.lookup k).map (fun v => (k, v)))

mutual
  /-- `load_node(node)` = `{tag: value}`, returned as the pair -/
  def loadNode : Xml → String × PV
    | .elem tag _ text [] => (tag, .text text)
    | .elem tag _ _ (c :: cs) => (tag, .dict (chain (loadNode c :: loadList cs)))
  def loadList : List Xml → List (String × PV)
    | [] => []
    | c :: cs => loadNode c :: loadList cs
end

def Xml.tag : Xml → String
  | .elem t _ _ _ => t
def Xml.attrib : Xml → List (String × String)
  | .elem _ a _ _ => a
def Xml.children : Xml → List Xml
  | .elem _ _ _ c => c

/-- `find_name(file, name)`: first child of the root with that tag and its `type` attribute
(`none`: `AttributeError` / `KeyError`) -/
def findName (root : Xml) (name : String) : Option (Xml × String) :=
  match root.children.find? (fun c => c.tag == name) with
  | none => none
  | some c => (c.attrib.lookup "type").map (fun t => (c, t))

/-- leaf text reached by a key path -/
def getPath : List String → PV → Option (Option String)
  | [], .text s => some s
  | [], .dict _ => none
  | _ :: _, .text _ => none
  | k :: p, .dict kvs => match kvs.lookup k with
      | none => none
      | some v => getPath p v

/-! ### `string_array` / `destring_array` on character lists -/

/-- `" ".join(tokens)` -/
def joinSp : List (List Char) → List Char
  | [] => []
  | [w] => w
  | w :: v :: r => w ++ ' ' :: joinSp (v :: r)

/-- `s.split(" ")` -/
def splitSp : List Char → List (List Char)
  | [] => [[]]
  | c :: cs =>
    if c = ' ' then [] :: splitSp cs
    else match splitSp cs with
      | [] => [[c]]
      | w :: ws => (c :: w) :: ws

/-- `string_array` given the element printer -/
def stringArray {α} (repr : α → List Char) (xs : List α) : List Char := joinSp (xs.map repr)
/-- `destring_array` given the element parser (`none`: `ValueError`) -/
def mapOpt {α β} (f : α → Option β) : List α → Option (List β)
  | [] => some []
  | a :: as => match f a, mapOpt f as with
    | some b, some bs => some (b :: bs)
    | _, _ => none

def destringArray {α} (parse : List Char → Option α) (s : List Char) : Option (List α) :=
  mapOpt parse (splitSp s)

/-! ### line protocol -/
open Proto

def hexDigit (n : Nat) : Char := if n < 10 then Char.ofNat (48 + n) else Char.ofNat (87 + n)
def hexVal (c : Char) : Option Nat :=
  if '0' ≤ c ∧ c ≤ '9' then some (c.toNat - 48)
  else if 'a' ≤ c ∧ c ≤ 'f' then some (c.toNat - 87) else none

/-- strings travel as `s` + hex of the code points (4 hex digits each); `~` is `None` -/
def encStr (s : String) : String :=
  "s" ++ String.ofList (s.toList.flatMap (fun c =>
    let n := c.toNat
    [hexDigit (n / 4096 % 16), hexDigit (n / 256 % 16), hexDigit (n / 16 % 16), hexDigit (n % 16)]))

def decChars : List Char → Option (List Char)
  | [] => some []
  | a :: b :: c :: d :: r =>
    match hexVal a, hexVal b, hexVal c, hexVal d, decChars r with
    | some a, some b, some c, some d, some r => some (Char.ofNat (a * 4096 + b * 256 + c * 16 + d) :: r)
    | _, _, _, _, _ => none
  | _ => none

def decStr (t : String) : Option String :=
  match t.toList with
  | 's' :: r => (decChars r).map String.ofList
  | _ => none

def encOpt : Option String → String
  | none => "~"
  | some s => encStr s

def decOpt (t : String) : Option (Option String) :=
  if t == "~" then some none else (decStr t).map some

mutual
  def encPV : PV → List String
    | .text s => ["T", encOpt s]
    | .dict kvs => ["D", toString kvs.length] ++ encPVList kvs
  def encPVList : List (String × PV) → List String
    | [] => []
    | (k, v) :: r => encStr k :: (encPV v ++ encPVList r)
end

mutual
  def encXml : Xml → List String
    | .elem tag attrib text ch =>
      ["E", encStr tag, toString attrib.length] ++ attrib.flatMap (fun a => [encStr a.1, encStr a.2]) ++
        [encOpt text, toString ch.length] ++ encXmlList ch
  def encXmlList : List Xml → List String
    | [] => []
    | c :: cs => encXml c ++ encXmlList cs
end

/-- token parsers with fuel -/
def decPV : Nat → List String → Option (PV × List String)
  | 0, _ => none
  | _ + 1, "T" :: s :: r => (decOpt s).map (fun s => (.text s, r))
  | f + 1, "D" :: n :: r =>
    match n.toNat? with
    | none => none
    | some n =>
      let rec go : Nat → List String → List (String × PV) → Option (PV × List String)
        | 0, r, acc => some (.dict acc.reverse, r)
        | m + 1, k :: r, acc =>
          match decStr k, decPV f r with
          | some k, some (v, r) => go m r ((k, v) :: acc)
          | _, _ => none
        | _ + 1, [], _ => none
      go n r []
  | _ + 1, _ => none

def decAttrs : Nat → List String → List (String × String) → Option (List (String × String) × List String)
  | 0, r, acc => some (acc.reverse, r)
  | m + 1, k :: v :: r, acc =>
    match decStr k, decStr v with
    | some k, some v => decAttrs m r ((k, v) :: acc)
    | _, _ => none
  | _ + 1, _, _ => none

def decXml : Nat → List String → Option (Xml × List String)
  | 0, _ => none
  | f + 1, "E" :: tag :: na :: r =>
    match decStr tag, na.toNat? with
    | some tag, some na =>
      match decAttrs na r [] with
      | some (attrib, text :: nc :: r) =>
        match decOpt text, nc.toNat? with
        | some text, some nc =>
          let rec go : Nat → List String → List Xml → Option (Xml × List String)
            | 0, r, acc => some (.elem tag attrib text acc.reverse, r)
            | m + 1, r, acc =>
              match decXml f r with
              | some (c, r) => go m r (c :: acc)
              | none => none
          go nc r []
        | _, _ => none
      | _ => none
    | _, _ => none
  | _ + 1, _ => none

def showOptF : Option Float → String
  | none => "raise"
  | some x => showF x

def showOptB : Option Bool → String
  | none => "raise"
  | some true => "T"
  | some false => "F"

/-- data-free requests
* `c20pw val|der <xs> <ys> <x>` – table given explicitly (bit patterns)
* `c20save <name> <PV…>`, `c20load <Xml…>`, `c20find <name> <Xml…>`, `c20split <str>`, `c20join <n> <str>…`
* `c20ranges` -/
def handle : List String → Option String
  | ["c20pw", what, xs, ys, x] =>
    match parseFs xs, parseFs ys, parseF x with
    | some xs, some ys, some x =>
      let tab := xs.zip ys
      if what == "val" then some (showOptF (pw tab x))
      else if what == "der" then some (showOptF (pwDeriv tab x))
      else none
    | _, _, _ => none
  | "c20save" :: name :: r =>
    match decStr name, decPV (r.length + 1) r with
    | some name, some (v, []) => some (" ".intercalate (encXml (saveNode name [] v)))
    | _, _ => none
  | "c20load" :: r =>
    match decXml (r.length + 1) r with
    | some (x, []) =>
      let kv := loadNode x
      some (" ".intercalate (encStr kv.1 :: encPV kv.2))
    | _ => none
  | "c20find" :: name :: r =>
    match decStr name, decXml (r.length + 1) r with
    | some name, some (x, []) =>
      match findName x name with
      | none => some "raise"
      | some (c, t) => some (" ".intercalate (encStr t :: encXml c))
    | _, _ => none
  | ["c20split", s] =>
    match decStr s with
    | some s => some (" ".intercalate ((splitSp s.toList).map (fun w => encStr (String.ofList w))))
    | none => none
  | "c20join" :: ws =>
    match ws.mapM decStr with
    | some ws => some (encStr (String.ofList (joinSp (ws.map String.toList))))
    | none => none
  | ["c20ranges"] =>
    some (" ".intercalate [showQ sigmaLo, showQ sigmaHi, showQ xLo, showQ xHi, showQ epsHi, showQ yHi,
      toString bernDepth])
  | _ => none

def showEntry (e : Entry) : String :=
  " ".intercalate [encStr e.dir, encStr e.file, encStr e.variant, encStr e.rootType, encStr e.typ]

def lookupS {α} (k : String) : List (String × α) → Option α
  | [] => none
  | (k', a) :: r => if k' == k then some a else lookupS k r

/-- requests about the generated data base (file / variant / property names are hex strings)
* `c20d entries`, `c20d failing`, `c20d windows`
* `c20d thermal <file> <variant> cond|diff|dcond|ddiff <T>`
* `c20d fluid <file> <variant> <material> coef|dcoef <T>`
* `c20d tfluid <file> <variant> cp|rho|mu|k <T>`
* `c20d rupture <file> <variant> <pname> <T> <stress>`
* `c20d fatigue <file> <variant> <pname> <T> <erange>`
* `c20d env <file> <variant> <pname> <df> <dc>`
* `c20d ceramic <file> <variant> strength|modulus|nv|bv|cbar|nu <T>` -/
def handleDB (db : DB) : List String → Option String
  | ["c20d", "entries"] => some ("|".intercalate (db.entries.map showEntry))
  | ["c20d", "failing"] => some ("|".intercalate ((failing db).map encStr))
  | ["c20d", "windows"] =>
    some ("|".intercalate (db.windows.map (fun w =>
      " ".intercalate [encStr w.1, encStr w.2.1, showQ w.2.2.1, showQ w.2.2.2])))
  | ["c20d", "thermal", f, v, what, t] =>
    match decStr f, decStr v, parseF t with
    | some f, some v, some t =>
      match find3 f v db.thermals with
      | some (.piecewise _ c d) =>
        if what == "cond" then some (showOptF (pw (castTab ratToFloat c) t))
        else if what == "diff" then some (showOptF (pw (castTab ratToFloat d) t))
        else if what == "dcond" then some (showOptF (pwDeriv (castTab ratToFloat c) t))
        else if what == "ddiff" then some (showOptF (pwDeriv (castTab ratToFloat d) t))
        else none
      | some (.constant _ k a) =>
        if what == "cond" then some (showF (t * 0.0 + ratToFloat k))
        else if what == "diff" then some (showF (t * 0.0 + ratToFloat a))
        else if what == "dcond" || what == "ddiff" then some (showF (t * 0.0))
        else none
      | _ => some "unsupported"
    | _, _, _ => none
  | ["c20d", "fluid", f, v, mat, what, t] =>
    match decStr f, decStr v, decStr mat, parseF t with
    | some f, some v, some mat, some t =>
      match find3 f v db.fluids with
      | some (.piecewise tabs) =>
        let tab := match lookupS mat tabs with
          | some tb => some tb
          | none => lookupS "default" tabs
        match tab with
        | none => some "raise"
        | some tb =>
          if what == "coef" then some (showOptF (pw (castTab ratToFloat tb) t))
          else if what == "dcoef" then some (showOptF (pwDeriv (castTab ratToFloat tb) t))
          else none
      | some (.constant vals) =>
        let val := match lookupS mat vals with
          | some x => some x
          | none => lookupS "default" vals
        match val with
        | none => some "raise"
        | some x =>
          if what == "coef" then some (showF (t * 0.0 + ratToFloat x))
          else if what == "dcoef" then some (showF (t * 0.0))
          else none
      | _ => some "unsupported"
    | _, _, _, _ => none
  | ["c20d", "tfluid", f, v, what, t] =>
    match decStr f, decStr v, parseF t with
    | some f, some v, some t =>
      match find3 f v db.tfluids with
      | some (.polynomial cp rho mu k extra) =>
        let tmax := ((lookupS "T_max" extra).map ratToFloat).getD 2000.0
        let tmin := ((lookupS "T_min" extra).map ratToFloat).getD 0.0
        let teff := if (if t < tmax then t else tmax) < tmin then tmin else (if t < tmax then t else tmax)
        if what == "cp" then some (showF (polyval ratToFloat cp t))
        else if what == "rho" then some (showF (polyval ratToFloat rho teff))
        else if what == "mu" then some (showF (polyval ratToFloat mu t))
        else if what == "k" then some (showF (polyval ratToFloat k t))
        else none
      | _ => some "unsupported"
    | _, _, _ => none
  | ["c20d", "rupture", f, v, pn, t, s] =>
    match decStr f, decStr v, decStr pn, parseF t, parseF s with
    | some f, some v, some pn, some t, some s =>
      match (find3 f v db.metallics).bind (fun m => lookupS pn m.ruptures) with
      | some r => some (showF (timeToRupture ratToFloat r t s))
      | none => some "unsupported"
    | _, _, _, _, _ => none
  | ["c20d", "fatigue", f, v, pn, t, e] =>
    match decStr f, decStr v, decStr pn, parseF t, parseF e with
    | some f, some v, some pn, some t, some e =>
      match (find3 f v db.metallics).bind (fun m => lookupS pn m.fatigues) with
      | some cs => some (showOptF (cyclesToFail ratToFloat cs t e))
      | none => some "unsupported"
    | _, _, _, _, _ => none
  | ["c20d", "env", f, v, pn, df, dc] =>
    match decStr f, decStr v, decStr pn, parseF df, parseF dc with
    | some f, some v, some pn, some df, some dc =>
      match (find3 f v db.metallics).bind (fun m => lookupS pn m.envelopes) with
      | some k => some (showOptB (insideEnv ratToFloat k df dc))
      | none => some "unsupported"
    | _, _, _, _, _ => none
  | ["c20d", "ceramic", f, v, what, t] =>
    match decStr f, decStr v, parseF t with
    | some f, some v, some t =>
      match find3 f v db.ceramics with
      | some (.standard s m nv bv cbar nu) =>
        if what == "strength" then some (showOptF (pw (castTab ratToFloat s) t))
        else if what == "modulus" then some (showOptF (pw (castTab ratToFloat m) t))
        else if what == "nv" then some (showOptF (pw (castTab ratToFloat nv) t))
        else if what == "bv" then some (showOptF (pw (castTab ratToFloat bv) t))
        else if what == "cbar" then some (showF (ratToFloat cbar))
        else if what == "nu" then some (showF (ratToFloat nu))
        else none
      | _ => some "unsupported"
    | _, _, _ => none
  | _ => none

end SrModel.PW
