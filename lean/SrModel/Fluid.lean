import SrModel.Scalar
import SrModel.Proto
/-!
# Model of `srlife/thermohydraulics/thermalfluid.py`
(`ThermalFluidMaterial`, `PolynomialThermalFluidMaterial`)

Every numeric function is written once, polymorphic in the scalar `K`; the correspondence runs
it at `K := Float` against the real code, the theorems (`SrProps/C18.lean`) are about `K := ℝ`.

Which temperature each function sees is part of the model, exactly as coded:

* `cp`, `mu`, `k` evaluate their polynomial at the temperature they are **given** (no clipping);
* `rho` clips its argument (`T_effective`) before evaluating the polynomial;
* `nusselt` hands `T_effective(T)` to `reynolds` and `prandtl`;
* `film_coefficient` multiplies the Nusselt number by `k(T)` at the **raw** `T`.

The polynomials are in numpy order (highest degree first) and are evaluated at `T` in K directly
(the class docstring speaks of °C, the methods do no conversion).

Core Lean only (no Mathlib).
-/
namespace SrModel.Fluid

/-- the five scalars of `ThermalFluidMaterial.__init__` -/
structure Params (K : Type) where
  filmMin : K
  tMax    : K
  tMin    : K
  lamCut  : K
  lamVal  : K
deriving Repr

/-- a `PolynomialThermalFluidMaterial`: coefficient lists in numpy order + the scalars -/
structure Fluid (K : Type) where
  cp  : List K
  rho : List K
  mu  : List K
  k   : List K
  p   : Params K
deriving Repr

def Params.map {K L : Type} (g : K → L) (p : Params K) : Params L :=
  ⟨g p.filmMin, g p.tMax, g p.tMin, g p.lamCut, g p.lamVal⟩

def Fluid.map {K L : Type} (g : K → L) (f : Fluid K) : Fluid L :=
  ⟨f.cp.map g, f.rho.map g, f.mu.map g, f.k.map g, f.p.map g⟩

section
variable {K : Type}

/-- `jnp.polyval(c, x)`: `y = 0; for a in c: y = y * x + a` -/
def polyval [OfNat K 0] [Add K] [Mul K] (c : List K) (x : K) : K :=
  c.foldl (fun acc a => acc * x + a) 0

/-- `T_effective`: `maximum(minimum(T, T_max), T_min)` -/
def tEff [Max K] [Min K] (p : Params K) (T : K) : K := max (min T p.tMax) p.tMin

variable [OfNat K 0] [Add K] [Mul K]

def cp (f : Fluid K) (T : K) : K := polyval f.cp T
def mu (f : Fluid K) (T : K) : K := polyval f.mu T
def k (f : Fluid K) (T : K) : K := polyval f.k T
/-- the only property that clips its own argument -/
def rho [Max K] [Min K] (f : Fluid K) (T : K) : K := polyval f.rho (tEff f.p T)

/-- `rho(T) * u * 2.0 * r / mu(T)` -/
def reynolds [Max K] [Min K] [Div K] [OfScientific K] (f : Fluid K) (T u r : K) : K :=
  rho f T * u * 2.0 * r / mu f T

/-- `cp(T) * mu(T) / k(T)` -/
def prandtl [Div K] (f : Fluid K) (T : K) : K := cp f T * mu f T / k f T

/-- `0.79 * log(re) - 1.64` — the base of the friction factor -/
def frictionBase [Sub K] [OfScientific K] [Transc K] (re : K) : K := 0.79 * Transc.log re - 1.64

/-- `f = (0.79 * log(re) - 1.64) ** -2.0` -/
def friction [Sub K] [Neg K] [OfScientific K] [Transc K] (re : K) : K :=
  Transc.pow (frictionBase re) (-2.0)

/-- denominator of the Gnielinski expression: `1 + 12.7*(f/8)**0.5*(pr**(2/3) - 1)` -/
def gnDen [Sub K] [Neg K] [Div K] [OfScientific K] [Transc K] (re pr : K) : K :=
  1.0 + 12.7 * Transc.pow (friction re / 8.0) 0.5 * (Transc.pow pr (2.0 / 3.0) - 1.0)

/-- the Gnielinski expression as coded:
`((f/8)*(re-1000)*pr) / (1 + 12.7*(f/8)**0.5*(pr**(2/3) - 1))` -/
def gnielinski [Sub K] [Neg K] [Div K] [OfScientific K] [Transc K] (re pr : K) : K :=
  ((friction re / 8.0) * (re - 1000.0) * pr) / gnDen re pr

/-- the laminar switch as coded now: `laminar = re < cutoff`,
`re_t = where(laminar, cutoff, re)`, `where(laminar, laminar_value, gnielinski(re_t, pr))` -/
def nusseltOf [Sub K] [Neg K] [Div K] [OfScientific K] [Transc K] [LT K] [DecidableLT K]
    (p : Params K) (re pr : K) : K :=
  let reT := if re < p.lamCut then p.lamCut else re
  let turbulent := gnielinski reT pr
  if re < p.lamCut then p.lamVal else turbulent

variable [Max K] [Min K] [Sub K] [Neg K] [Div K] [OfScientific K] [Transc K] [LT K] [DecidableLT K]

/-- `nusselt(T, u, r)`: Reynolds and Prandtl numbers at the clipped temperature -/
def nusselt (f : Fluid K) (T u r : K) : K :=
  nusseltOf f.p (reynolds f (tEff f.p T) u r) (prandtl f (tEff f.p T))

/-- `film_coefficient(T, u, r) = maximum(nusselt(T,u,r) * k(T) / (2.0 * r), film_min)` -/
def film (f : Fluid K) (T u r : K) : K :=
  max (nusselt f T u r * k f T / (2.0 * r)) f.p.filmMin

end

/-! ### line protocol -/
open SrModel.Proto

/-- `c18 <film_min> <T_max> <T_min> <cutoff> <laminar_value> <cp> <rho> <mu> <k> <T> <u> <r>`
(floats as bit patterns, lists comma separated) answers
`T_eff reynolds prandtl nusselt film cp rho mu k`; Reynolds and Prandtl are the ones `nusselt`
uses (at the clipped temperature), `cp rho mu k` are the property methods at the raw `T`.
`c18nu <film_min> <T_max> <T_min> <cutoff> <laminar_value> <re> <pr>` answers `nusseltOf`. -/
def handle : List String → Option String
  | ["c18", fm, tmax, tmin, cut, lam, cps, rhos, mus, ks, T, u, r] => do
    let p : Params Float := ⟨← parseF fm, ← parseF tmax, ← parseF tmin, ← parseF cut, ← parseF lam⟩
    let f : Fluid Float := ⟨← parseFs cps, ← parseFs rhos, ← parseFs mus, ← parseFs ks, p⟩
    let T ← parseF T
    let u ← parseF u
    let r ← parseF r
    let te := tEff p T
    some (showFs [te, reynolds f te u r, prandtl f te, nusselt f T u r, film f T u r,
                  cp f T, rho f T, mu f T, k f T])
  | ["c18nu", fm, tmax, tmin, cut, lam, re, pr] => do
    -- the laminar switch alone, at a given Reynolds and Prandtl number
    let p : Params Float := ⟨← parseF fm, ← parseF tmax, ← parseF tmin, ← parseF cut, ← parseF lam⟩
    some (showF (nusseltOf p (← parseF re) (← parseF pr)))
  | _ => none

end SrModel.Fluid
