import SrModel.Proto
/-!
# Model of the adaptive sub-increment loop of `PythonTubeSolver.solve`
(`srlife/structural.py`, the `while cprog < tprog` loop).

Progress is counted in integer units of `1/2^max_divide` of the step, exactly
as the code does (`tprog = 2**max_divide`, `cprog`, `inc`).  The inner
nonlinear solve (`solve_python_1d/2d/3d`) is an oracle: attempt number `n`
(0-based, counting every call) converges iff `oracle n = true`; a call that
does not converge raises `RuntimeError` in the code.

An attempt records
* `frm`  – the progress value the state handed in as `state_last` was solved for
           (what the code passes as `t_last`, `p_last`, `state_last`),
* `to_`  – the progress value the attempt aims at (`cprog + inc`; the code passes
           `t_next`, `p_next`, `dtop * sf` with `sf = to_/tprog`),
* `ok`   – whether the attempt converged.

This file is core Lean only (no Mathlib) so that `Main.lean` can run it.
-/
namespace SrModel.Adaptive

structure Attempt where
  frm : Nat
  to_ : Nat
  ok  : Bool
deriving Repr, DecidableEq

structure St where
  cprog : Nat
  inc   : Nat
  mdiv  : Nat
  last  : Nat            -- progress value `state_last` was solved for
  trace : List Attempt
deriving Repr

inductive Res where
  | ok   (tr : List Attempt)     -- `return state_next`
  | fail (tr : List Attempt)     -- `raise RuntimeError("Adaptive integration failed")`
  | nofuel                       -- never produced by `run` (see `run_ne_nofuel`)
deriving Repr, DecidableEq

/-- The loop as the (repaired) code runs it: a failed attempt halves the
increment, counts a subdivision, raises when the limit is reached and otherwise
**retries from the same `state_last`** (`continue`). -/
def loop (md : Nat) (oracle : Nat → Bool) : Nat → St → Res
  | 0, _ => .nofuel
  | fuel+1, s =>
    if s.cprog < 2^md then
      let okb := oracle s.trace.length
      let a : Attempt := ⟨s.last, s.cprog + s.inc, okb⟩
      if okb then
        loop md oracle fuel
          { s with cprog := s.cprog + s.inc, last := s.cprog + s.inc, trace := s.trace ++ [a] }
      else
        if s.mdiv + 1 ≥ md then .fail (s.trace ++ [a])
        else loop md oracle fuel
          { s with inc := s.inc / 2, mdiv := s.mdiv + 1, trace := s.trace ++ [a] }
    else .ok s.trace

/-- The loop as it was coded at the pinned commit (defect F11): no `continue`,
so after a failed attempt the failed `state_next` becomes `state_last` and
`cprog` advances by the halved increment. Kept as the reference for the
witness theorem and for the failing-input search. -/
def loopPinned (md : Nat) (oracle : Nat → Bool) : Nat → St → Res
  | 0, _ => .nofuel
  | fuel+1, s =>
    if s.cprog < 2^md then
      let okb := oracle s.trace.length
      let a : Attempt := ⟨s.last, s.cprog + s.inc, okb⟩
      if okb then
        loopPinned md oracle fuel
          { s with cprog := s.cprog + s.inc, last := s.cprog + s.inc, trace := s.trace ++ [a] }
      else
        if s.mdiv + 1 ≥ md then .fail (s.trace ++ [a])
        else loopPinned md oracle fuel
          { cprog := s.cprog + s.inc / 2, inc := s.inc / 2, mdiv := s.mdiv + 1,
            last := s.cprog + s.inc, trace := s.trace ++ [a] }
    else .ok s.trace

/-- initial loop state: adaptive mode starts with the whole step, forced mode
with unit increments and no subdivision left. -/
def init (md : Nat) (forced : Bool) : St :=
  if forced then ⟨0, 1, md - 1, 0, []⟩ else ⟨0, 2^md, 0, 0, []⟩

/-- enough fuel for every run: at most `2^md` accepted and `md` failed attempts,
plus the final test. -/
def fuel (md : Nat) : Nat := 2^md + md + 1

def run (md : Nat) (forced : Bool) (o : Nat → Bool) : Res :=
  loop md o (fuel md) (init md forced)

def runPinned (md : Nat) (forced : Bool) (o : Nat → Bool) : Res :=
  loopPinned md o (fuel md) (init md forced)

/-- accepted (converged) attempts of a trace, in order -/
def accepted (tr : List Attempt) : List Attempt := tr.filter (·.ok)

/-- number of failed attempts -/
def failures (tr : List Attempt) : Nat := (tr.filter (fun a => !a.ok)).length

/-- progress value reached by the accepted attempts of `tr`, starting from `p` -/
def endOf (p : Nat) : List Attempt → Nat
  | [] => p
  | a :: as => endOf (if a.ok then a.to_ else p) as

/-- every attempt (accepted or not) starts at the end of the last *accepted*
attempt before it (or at `p`) -/
def startsFrom (p : Nat) : List Attempt → Bool
  | [] => true
  | a :: as => a.frm == p && startsFrom (if a.ok then a.to_ else p) as

/-- oracle from a finite bit list; attempts beyond the list converge -/
def oracleOf (bits : List Bool) (n : Nat) : Bool := bits.getD n true

def showAttempt (a : Attempt) : String :=
  s!"{a.frm}:{a.to_}:{if a.ok then 1 else 0}"

def showRes : Res → String
  | .ok tr => "ok " ++ ",".intercalate (tr.map showAttempt)
  | .fail tr => "raise " ++ ",".intercalate (tr.map showAttempt)
  | .nofuel => "nofuel"

/-- line protocol: `c10 <md> <forced 0|1> <bits>` -/
def handle : List String → Option String
  | ["c10", md, forced, bits] =>
    match md.toNat?, Proto.parseBits bits with
    | some md, some bs =>
      if forced == "1" then some (showRes (run md true (oracleOf bs)))
      else if forced == "0" then some (showRes (run md false (oracleOf bs)))
      else none
    | _, _ => none
  | _ => none

end SrModel.Adaptive
