import SrModel.Proto
/-!
# Model of the paging file names (`srlife/receiver.py`: `Receiver.set_paging`, `Tube.set_paging`,
`Tube._setup_memmap` and its six callers)

With `page=True` every result array of every tube is an `np.memmap` on a file in the current
directory.  Two arrays that open the same file (mode `w+`) silently share their data, so the
results are those of the in-memory run only if different (tube, dictionary, field) triples never
share a file.

* `Receiver.set_paging(page)`: `for i, tube in enumerate(self.tubes): tube.set_paging(page, i)`,
  `Receiver.tubes` = the panels' tubes chained in panel order → `tubeIndex`, `allTubes`.
* `Tube.set_paging(page, i)`: `page_prefix = str(i) + "_"`.
* `Tube._setup_memmap(name, shape)` opens `page_prefix + name + ".dat"`, called with
  `field + "_node"` (`add_results`, `add_blank_results`), `field + "_quad"`
  (`add_quadrature_results`, `add_blank_quadrature_results`), `field + " _axial"` (with a space,
  `add_axial_results`) and `field + "_axial"` (no space, `add_blank_axial_results`) → `suffix`,
  `suffixOf`, `pageFile`, `fileOf`.

The two writers of `axial_results` use *different* suffixes; this is the only place where two
different triples can meet (`SrProofs.PageNames.fileOf_collision`).

`wrongPerPanel`, `wrongPanelTimes` are the two numberings of the seeded regressions (`seeded/C08_a`,
`seeded/X08_e`).  Core Lean only.
-/
namespace SrModel.PageNames

/-- index in `Receiver.tubes` of tube `k` of panel `p`: the sizes of the earlier panels plus `k` -/
def tubeIndex (sizes : List Nat) (p k : Nat) : Nat := (sizes.take p).sum + k

/-- `(panel, position)` of the tubes of panels `p0, p0+1, …` with the given sizes, chained -/
def allTubesFrom (p0 : Nat) : List Nat → List (Nat × Nat)
  | [] => []
  | n :: rest => (List.range n).map (fun k => (p0, k)) ++ allTubesFrom (p0 + 1) rest

/-- `(panel, position)` of every tube in the order of `Receiver.tubes` -/
def allTubes (sizes : List Nat) : List (Nat × Nat) := allTubesFrom 0 sizes

/-- seeded regression `C08_a`: `for panel: for i, tube in enumerate(panel.tubes)` -/
def wrongPerPanel (_sizes : List Nat) (_p k : Nat) : Nat := k

/-- seeded regression `X08_e`: `pi * panel.ntubes + ti` -/
def wrongPanelTimes (sizes : List Nat) (p k : Nat) : Nat := p * sizes.getD p 0 + k

/-- the three result dictionaries of a tube -/
inductive Dict | results | quadrature | axial
  deriving DecidableEq, Repr

/-- `add_*_results(name, data)` or `add_blank_*_results(name, shape)` -/
inductive Writer | data | blank
  deriving DecidableEq, Repr

/-- what the data writers append to the field name (note the space of `" _axial"`) -/
def suffix : Dict → String
  | .results => "_node"
  | .quadrature => "_quad"
  | .axial => " _axial"

/-- what the given writer appends: the blank writer of `axial_results` has no space -/
def suffixOf : Dict → Writer → String
  | .axial, .blank => "_axial"
  | d, _ => suffix d

/-- `page_prefix + (field + suffix) + ".dat"` -/
def pageFile (i : Nat) (d : Dict) (field : String) : String :=
  toString i ++ "_" ++ field ++ suffix d ++ ".dat"

/-- the same for either writer -/
def fileOf (i : Nat) (d : Dict) (w : Writer) (field : String) : String :=
  toString i ++ "_" ++ field ++ suffixOf d w ++ ".dat"

/-- a field of a tube: dictionary, the writer that created the array, name -/
abbrev Key := Dict × Writer × String

/-- the files of tube number `i` holding the fields `keys` -/
def tubeFiles (i : Nat) (keys : List Key) : List String :=
  keys.map fun x => fileOf i x.1 x.2.1 x.2.2

/-- all paging files of a receiver with panel sizes `sizes`; `keys p k` are the fields of tube `k`
of panel `p` -/
def allFiles (sizes : List Nat) (keys : Nat → Nat → List Key) : List String :=
  (allTubes sizes).flatMap fun pk => tubeFiles (tubeIndex sizes pk.1 pk.2) (keys pk.1 pk.2)

/-! ### line protocol -/

def hexDigit (n : Nat) : Char := if n < 10 then Char.ofNat (48 + n) else Char.ofNat (87 + n)

def hexVal (c : Char) : Option Nat :=
  if '0' ≤ c ∧ c ≤ '9' then some (c.toNat - 48)
  else if 'a' ≤ c ∧ c ≤ 'f' then some (c.toNat - 87)
  else none

/-- lower-case hex of the utf-8 bytes; `-` for the empty string -/
def toHex (s : String) : String :=
  if s.isEmpty then "-" else
  String.ofList (s.toUTF8.toList.flatMap fun b => [hexDigit (b.toNat / 16), hexDigit (b.toNat % 16)])

def bytesOfHex : List Char → Option (List UInt8)
  | [] => some []
  | a :: b :: rest => do
    let x ← hexVal a
    let y ← hexVal b
    let r ← bytesOfHex rest
    some (UInt8.ofNat (16 * x + y) :: r)
  | _ => none

def ofHex (s : String) : Option String :=
  if s == "-" then some "" else
  (bytesOfHex s.toList).bind fun bs => String.fromUTF8? (ByteArray.mk bs.toArray)

def parseDict : String → Option (Dict × Writer)
  | "r" => some (.results, .data)
  | "q" => some (.quadrature, .data)
  | "a" => some (.axial, .data)
  | "rb" => some (.results, .blank)
  | "qb" => some (.quadrature, .blank)
  | "ab" => some (.axial, .blank)
  | _ => none

/-- `pg <sizes csv> <p> <k> <r|q|a|rb|qb|ab> <field: hex of utf-8 | ->` → hex of the file name of
that field of tube `k` of panel `p` (`b` = created by the blank writer); an invalid position is
`bad-op` -/
def handle : List String → Option String
  | ["pg", sizes, p, k, d, fld] => do
    let sizes ← Proto.parseNats sizes
    let p ← p.toNat?
    let k ← k.toNat?
    let dw ← parseDict d
    let f ← ofHex fld
    if p < sizes.length ∧ k < sizes.getD p 0 then
      some (toHex (fileOf (tubeIndex sizes p k) dw.1 dw.2 f))
    else none
  | _ => none

end SrModel.PageNames
