import SrModel.Proto
/-!
# Model of the structural meshes of `srlife/structural.py` and of the pressure-facet rule

`mesh2D` / `mesh3D` build regular quadrilateral / hexahedral meshes of a tube from the grid sizes
`nr` (radial nodes), `nt` (circumferential nodes, periodic), `nz` (axial nodes).  Everything the
code decides is a function of integers; this file writes those functions down *as coded*:

* node numbering: 2-D `coords` is reshaped from `(2, nr, nt)`, so node `(i,j)` is `i*nt + j`;
  3-D `coords` lists `for r in rs for t in ts for z in zs`, so node `(i,j,k)` is `i*(nt*nz) + j*nz + k`;
* 2-D connectivity: `for i in range(nr-1): for j in range(nt):` the quadrilateral
  `[i*nt + j, i*nt + (j+1)%nt, (i+1)*nt + (j+1)%nt, (i+1)*nt + j]`;
* 3-D connectivity: `mapper r c h = r*npr + (c % nt)*npt + h` with `npr = nt*nz`, `npt = nz`, and
  `for i … for j … for k in range(nz-1):` the eight `mapper` values in the coded vertex order;
* the facets of an element in scikit-fem's reference numbering (`RefQuad.facets`, `RefHex.facets`);
* the pressure boundary of `State.define_boundary` (as repaired): a facet is loaded iff it is a
  boundary facet (it belongs to exactly one element) and all of its vertices lie on the inner
  radius (radial grid index 0).

Core Lean only.  Theorems: `SrProofs/Mesh.lean`, `SrProps/C03.lean`.
-/
namespace SrModel.Mesh

/-! ### 2-D -/

/-- node index of grid point `(i,j)` in `mesh2D` -/
def node2 (nt i j : Nat) : Nat := i * nt + j

/-- the quadrilateral appended for loop indices `(i,j)`, literally as coded -/
def quad (nt i j : Nat) : List Nat :=
  [i * nt + j, i * nt + ((j + 1) % nt), (i + 1) * nt + ((j + 1) % nt), (i + 1) * nt + j]

/-- `conn` of `mesh2D`: `for i in range(nr-1): for j in range(nt)` -/
def conn2 (nr nt : Nat) : List (List Nat) :=
  (List.range (nr - 1)).flatMap fun i => (List.range nt).map fun j => quad nt i j

def nnodes2 (nr nt : Nat) : Nat := nr * nt
def nelems2 (nr nt : Nat) : Nat := (nr - 1) * nt

/-- node indices in the loop order `for i for j` (what the harness compares with the node that
sits at grid position `(i,j)` in the real mesh) -/
def nodeList2 (nr nt : Nat) : List Nat :=
  (List.range nr).flatMap fun i => (List.range nt).map fun j => node2 nt i j

/-- facets (edges) of a quadrilateral, `RefQuad.facets = [[0,1],[1,2],[2,3],[3,0]]` -/
def quadFacets : List Nat → List (List Nat)
  | [a, b, c, d] => [[a, b], [b, c], [c, d], [d, a]]
  | _ => []

/-! ### 3-D -/

/-- node index of grid point `(i,j,k)` in `mesh3D` -/
def node3 (nt nz i j k : Nat) : Nat := i * (nt * nz) + j * nz + k

/-- `mapper = lambda r, c, h: r * npr + (c % tube.nt) * npt + h` -/
def mapper (nt nz r c h : Nat) : Nat := r * (nt * nz) + (c % nt) * nz + h

/-- the hexahedron appended for loop indices `(i,j,k)`, in the coded vertex order -/
def hex (nt nz i j k : Nat) : List Nat :=
  [mapper nt nz (i + 1) (j + 1) k,
   mapper nt nz i (j + 1) k,
   mapper nt nz (i + 1) (j + 1) (k + 1),
   mapper nt nz (i + 1) j k,
   mapper nt nz i (j + 1) (k + 1),
   mapper nt nz i j k,
   mapper nt nz (i + 1) j (k + 1),
   mapper nt nz i j (k + 1)]

/-- `conn` of `mesh3D`: `for i in range(nr-1): for j in range(nt): for k in range(nz-1)` -/
def conn3 (nr nt nz : Nat) : List (List Nat) :=
  (List.range (nr - 1)).flatMap fun i => (List.range nt).flatMap fun j =>
    (List.range (nz - 1)).map fun k => hex nt nz i j k

def nnodes3 (nr nt nz : Nat) : Nat := nr * nt * nz
def nelems3 (nr nt nz : Nat) : Nat := (nr - 1) * nt * (nz - 1)

def nodeList3 (nr nt nz : Nat) : List Nat :=
  (List.range nr).flatMap fun i => (List.range nt).flatMap fun j =>
    (List.range nz).map fun k => node3 nt nz i j k

/-- facets (faces) of a hexahedron, `RefHex.facets` -/
def hexFacets : List Nat → List (List Nat)
  | [v0, v1, v2, v3, v4, v5, v6, v7] =>
    [[v0, v1, v4, v2], [v0, v2, v6, v3], [v0, v3, v5, v1],
     [v2, v4, v7, v6], [v1, v5, v7, v4], [v3, v6, v7, v5]]
  | _ => []

/-! ### facets as vertex sets, boundary facets, the pressure rule -/

/-- two vertex lists describe the same facet (same vertex set) -/
def sameFacet (f g : List Nat) : Bool := f.all (fun v => g.contains v) && g.all (fun v => f.contains v)

/-- does element `e` have `f` among its facets -/
def hasFacet (elemFacets : List Nat → List (List Nat)) (f e : List Nat) : Bool :=
  (elemFacets e).any (sameFacet f)

/-- number of elements of the mesh that have `f` as a facet -/
def nElemsWith (conn : List (List Nat)) (elemFacets : List Nat → List (List Nat)) (f : List Nat) : Nat :=
  (conn.filter (hasFacet elemFacets f)).length

/-- a boundary facet belongs to exactly one element -/
def isBoundary (conn : List (List Nat)) (elemFacets : List Nat → List (List Nat)) (f : List Nat) : Bool :=
  nElemsWith conn elemFacets f == 1

/-- radial grid index of a node: `n / nt` in 2-D, `n / (nt*nz)` in 3-D (`per` = nodes per ring) -/
def radIdx (per n : Nat) : Nat := n / per

/-- `np.all(inner[facets], axis=0)`: every vertex of the facet is on the inner radius -/
def allInner (per : Nat) (f : List Nat) : Bool := f.all (fun v => radIdx per v == 0)

/-- the rule of `define_boundary`: all vertices on the inner radius, boundary facets only -/
def loaded (conn : List (List Nat)) (elemFacets : List Nat → List (List Nat)) (per : Nat)
    (f : List Nat) : Bool :=
  allInner per f && isBoundary conn elemFacets f

/-- every facet of every element (a facet shared by two elements appears twice) -/
def elemFacetList (conn : List (List Nat)) (elemFacets : List Nat → List (List Nat)) : List (List Nat) :=
  conn.flatMap elemFacets

/-- the facets the rule selects, 2-D (a boundary facet appears exactly once in `elemFacetList`) -/
def pressureFacets2 (nr nt : Nat) : List (List Nat) :=
  (elemFacetList (conn2 nr nt) quadFacets).filter (loaded (conn2 nr nt) quadFacets nt)

def pressureFacets3 (nr nt nz : Nat) : List (List Nat) :=
  (elemFacetList (conn3 nr nt nz) hexFacets).filter (loaded (conn3 nr nt nz) hexFacets (nt * nz))

/-- boundary facets (for the correspondence with `mesh.boundary_facets()`) -/
def boundaryFacets2 (nr nt : Nat) : List (List Nat) :=
  (elemFacetList (conn2 nr nt) quadFacets).filter (isBoundary (conn2 nr nt) quadFacets)

def boundaryFacets3 (nr nt nz : Nat) : List (List Nat) :=
  (elemFacetList (conn3 nr nt nz) hexFacets).filter (isBoundary (conn3 nr nt nz) hexFacets)

/-! ### the inner surface, defined directly on the grid -/

/-- inner-surface edge `j`: grid points `(0,j)` and `(0,(j+1) mod nt)` -/
def innerFacet2 (nt j : Nat) : List Nat := [node2 nt 0 j, node2 nt 0 ((j + 1) % nt)]

def innerFacets2 (nt : Nat) : List (List Nat) := (List.range nt).map (innerFacet2 nt)

/-- inner-surface face `(j,k)`: grid points `(0,j+1,k)`, `(0,j,k)`, `(0,j,k+1)`, `(0,j+1,k+1)` (seam
wrapped), listed going round the face -/
def innerFacet3 (nt nz j k : Nat) : List Nat :=
  [node3 nt nz 0 ((j + 1) % nt) k, node3 nt nz 0 j k,
   node3 nt nz 0 j (k + 1), node3 nt nz 0 ((j + 1) % nt) (k + 1)]

def innerFacets3 (nt nz : Nat) : List (List Nat) :=
  (List.range nt).flatMap fun j => (List.range (nz - 1)).map fun k => innerFacet3 nt nz j k

/-! ### 1-D: `MeshLine` over the `nr` radii; the pressure facet is the inner node -/

def conn1 (nr : Nat) : List (List Nat) := (List.range (nr - 1)).map fun i => [i, i + 1]
def pressureFacets1 (_nr : Nat) : List (List Nat) := [[0]]

/-! ### line protocol -/

def showFacets (fs : List (List Nat)) : String :=
  if fs.isEmpty then "-" else ";".intercalate (fs.map Proto.showNats)

/-- requests:
* `mesh nodes2 nr nt` / `mesh nodes3 nr nt nz` – node indices in grid loop order
* `mesh conn1 nr` / `mesh conn2 nr nt` / `mesh conn3 nr nt nz` – element vertex lists in element order
* `mesh press2 nr nt` / `mesh press3 nr nt nz` – facets selected by the rule
* `mesh inner2 nt` / `mesh inner3 nt nz` – inner-surface facets defined on the grid
* `mesh bnd2 nr nt` / `mesh bnd3 nr nt nz` – boundary facets
* `mesh count2 nr nt` / `mesh count3 nr nt nz` – `nnodes nelems` -/
def handle : List String → Option String
  | ["mesh", op, a] =>
    match a.toNat? with
    | some a =>
      if op == "conn1" then some (showFacets (conn1 a))
      else if op == "press1" then some (showFacets (pressureFacets1 a))
      else none
    | none => none
  | ["mesh", op, a, b] =>
    match a.toNat?, b.toNat? with
    | some a, some b =>
      if op == "nodes2" then some (Proto.showNats (nodeList2 a b))
      else if op == "conn2" then some (showFacets (conn2 a b))
      else if op == "press2" then some (showFacets (pressureFacets2 a b))
      else if op == "inner2" then some (showFacets (innerFacets2 b))
      else if op == "inner3" then some (showFacets (innerFacets3 a b))
      else if op == "bnd2" then some (showFacets (boundaryFacets2 a b))
      else if op == "count2" then some s!"{nnodes2 a b} {nelems2 a b}"
      else none
    | _, _ => none
  | ["mesh", op, a, b, c] =>
    match a.toNat?, b.toNat?, c.toNat? with
    | some a, some b, some c =>
      if op == "nodes3" then some (Proto.showNats (nodeList3 a b c))
      else if op == "conn3" then some (showFacets (conn3 a b c))
      else if op == "press3" then some (showFacets (pressureFacets3 a b c))
      else if op == "bnd3" then some (showFacets (boundaryFacets3 a b c))
      else if op == "count3" then some s!"{nnodes3 a b c} {nelems3 a b c}"
      else none
    | _, _, _ => none
  | _ => none

end SrModel.Mesh
