import SrModel.Proto
/-!
# Model of the strain bookkeeping of the structural tube solver
(`srlife/structural.py`: `PythonSolver.calculate_mechanical_strain`,
`PythonTubeSolver._setup_state`, the state hand-over of the sub-increment loop of
`PythonTubeSolver.solve`, `PythonTubeSolver.dump_state`).

Everything here is **point-wise** (one quadrature point): the code does the same arithmetic
at every `(element, quadrature point)` of arrays shaped `(3,3,ne,nq)`.

* `thermalUpdate`  – `thermal' = thermal + I·((α(T')+α(T))/2·(T'−T))`
* `mech`           – `mechanical = total − thermal'`
* `interpT`        – `T = T_n + (T_np1 − T_n)·sf`, always from the step's START temperature
* `runStep/run`    – the fold of steps over a temperature history; every step carries the list
                     of its *accepted* sub-increments (fraction `sf` of the step and the total
                     strain the finite-element solve produced for it – an input of this model);
                     each accepted sub-increment starts from the last accepted state
* `store/restore`  – the six components written by `dump_state` and the symmetric tensor a
                     reader rebuilds from them

The expansion coefficient `α` is an abstract function (NEML's `alpha(T)` in the code).
The scalar type `K` is a parameter: `Float` for the correspondence with the implementation,
`ℝ` (or any field) for the theorems.  Core Lean only.
-/
namespace SrModel.StrainBook

/-- second-order tensor at a point -/
abbrev Ten (K : Type) := Fin 3 → Fin 3 → K
/-- fourth-order tensor at a point -/
abbrev Ten4 (K : Type) := Fin 3 → Fin 3 → Fin 3 → Fin 3 → K

variable {K : Type} [Add K] [Sub K] [Mul K] [Div K] [OfNat K 0] [OfNat K 1] [OfNat K 2]

/-- `np.eye(3)` -/
def eye : Ten K := fun i j => if i = j then 1 else 0

def zeroT : Ten K := fun _ _ => 0

/-- the scalar thermal strain increment `(cte_new + cte_old) / 2.0 * (T_np1 − T_n)` -/
def dThermal (α : K → K) (T T' : K) : K := (α T' + α T) / 2 * (T' - T)

/-- `state_np1.thermal_strain = state_n.thermal_strain + eye(3)·((cte_new+cte_old)/2·(T'−T))` -/
def thermalUpdate (α : K → K) (th : Ten K) (T T' : K) : Ten K :=
  fun i j => th i j + eye i j * dThermal α T T'

/-- `state_np1.mechanical_strain = state_np1.strain − state_np1.thermal_strain` -/
def mech (tot th : Ten K) : Ten K := fun i j => tot i j - th i j

/-- `_setup_state`: `T = T_n + (T_np1 − T_n) * sf` -/
def interpT (Tn Tnp1 sf : K) : K := Tn + (Tnp1 - Tn) * sf

/-- what a `State` holds at one point, as far as the bookkeeping is concerned -/
structure Rec (K : Type) where
  T    : K
  tot  : Ten K
  th   : Ten K
  mech : Ten K

/-- one accepted sub-increment: its step fraction and the total strain of its converged solve -/
structure SubInc (K : Type) where
  sf  : K
  tot : Ten K

/-- one time step: the temperature at its end and its accepted sub-increments, in order -/
structure Step (K : Type) where
  Tnp1 : K
  subs : List (SubInc K)

/-- the initial `State`: everything zero, temperature `T0` (`init_state(…, i=0)`) -/
def init (T0 : K) : Rec K := ⟨T0, zeroT, zeroT, zeroT⟩

/-- one accepted sub-increment solved from the last accepted state `last`
(`PythonSolver(state_last, state_next)` + `update_state`); `Tn` is the temperature at the START
of the step (what `_setup_state` interpolates from). -/
def subStep (α : K → K) (Tn Tnp1 : K) (last : Rec K) (s : SubInc K) : Rec K :=
  let T' := interpT Tn Tnp1 s.sf
  let th' := thermalUpdate α last.th last.T T'
  ⟨T', s.tot, th', mech s.tot th'⟩

/-- all accepted states of a step, in order (`state_last` after each accepted sub-increment) -/
def subTrace (α : K → K) (Tn Tnp1 : K) : Rec K → List (SubInc K) → List (Rec K)
  | _, [] => []
  | last, s :: ss =>
    let r := subStep α Tn Tnp1 last s
    r :: subTrace α Tn Tnp1 r ss

/-- the state returned by `solve` for a step: the last accepted one -/
def lastOf (r : Rec K) : List (Rec K) → Rec K
  | [] => r
  | x :: xs => lastOf x xs

/-- `solve(tube, i, state_n, d)`: the start temperature is (re)read from the history
(`state_n.temperature = temperature[i-1]`), then the sub-increments are run. -/
def runStep (α : K → K) (Tn : K) (sn : Rec K) (st : Step K) : Rec K :=
  let s0 : Rec K := { sn with T := Tn }
  lastOf s0 (subTrace α Tn st.Tnp1 s0 st.subs)

/-- states stored after each step (`TubeSpring.update_state` → `dump_state`), starting from the
state `sn` whose history temperature is `Tn` -/
def runFrom (α : K → K) : K → Rec K → List (Step K) → List (Rec K)
  | _, _, [] => []
  | Tn, sn, st :: sts =>
    let r := runStep α Tn sn st
    r :: runFrom α st.Tnp1 r sts

/-- a whole history: initial temperature `T0` and the steps -/
def run (α : K → K) (T0 : K) (steps : List (Step K)) : List (Rec K) :=
  runFrom α T0 (init T0) steps

/-- every accepted state of a whole history (all sub-increments of all steps) -/
def traceFrom (α : K → K) : K → Rec K → List (Step K) → List (Rec K)
  | _, _, [] => []
  | Tn, sn, st :: sts =>
    let s0 : Rec K := { sn with T := Tn }
    let tr := subTrace α Tn st.Tnp1 s0 st.subs
    tr ++ traceFrom α st.Tnp1 (lastOf s0 tr) sts

def trace (α : K → K) (T0 : K) (steps : List (Step K)) : List (Rec K) :=
  traceFrom α T0 (init T0) steps

/-! ### `dump_state`: the six stored components -/

/-- the six fields `_xx _yy _zz _yz _xz _xy` -/
structure Six (K : Type) where
  xx : K
  yy : K
  zz : K
  yz : K
  xz : K
  xy : K

/-- `inds = [(0,0),(1,1),(2,2),(1,2),(0,2),(0,1)]` — only the upper triangle is written -/
def store (A : Ten K) : Six K := ⟨A 0 0, A 1 1, A 2 2, A 1 2, A 0 2, A 0 1⟩

/-- the tensor a reader rebuilds from the six fields (e.g. `damage.py`, Mandel vectors) -/
def restore (s : Six K) : Ten K := fun i j =>
  match i.val, j.val with
  | 0, 0 => s.xx
  | 1, 1 => s.yy
  | 2, 2 => s.zz
  | 1, 2 => s.yz
  | 2, 1 => s.yz
  | 0, 2 => s.xz
  | 2, 0 => s.xz
  | 0, 1 => s.xy
  | 1, 0 => s.xy
  | _, _ => 0

def Six.toList (s : Six K) : List K := [s.xx, s.yy, s.zz, s.yz, s.xz, s.xy]

/-! ### linear elastic law at a point (NEML `SmallStrainElasticity` contract: `σ = C : ε_mech`) -/

def sum3 (f : Fin 3 → K) : K := f 0 + f 1 + f 2

/-- double contraction `(C : e)_ij = Σ_kl C_ijkl e_kl` -/
def ddot (C : Ten4 K) (e : Ten K) : Ten K := fun i j => sum3 fun k => sum3 fun l => C i j k l * e k l

/-- `σ = C : (ε − ε_th)` -/
def elasticStress (C : Ten4 K) (tot th : Ten K) : Ten K := ddot C (mech tot th)

end SrModel.StrainBook

/-! ## line protocol (Float instance)

* `sb_mech <a_old> <a_new> <T_old> <T_new> <th_old:9> <tot:9>` → `th_new:9|mech:9`
  (`α` is the two-point table `T_old ↦ a_old`, `T_new ↦ a_new`, the values NEML returned)
* `sb_interp <Tn> <Tnp1> <sf>` → `T`
* `sb_store <A:9>` → six floats, and the restored tensor `|9`
* `sb_run <tabT> <tabA> <T0> <Tnp1 per step> <nsub per step> <sf flat> <tot flat, 9 per sub>`
  → `trace|stored`: trace = per accepted sub-increment `T, th:9, mech:9`;
  stored = per step `store th, store mech, store tot` (18 floats); `α` is the table
  `tabT[k] ↦ tabA[k]` (first match).
-/
namespace SrModel.StrainBook
open SrModel.Proto

def tenOf (xs : List Float) : Ten Float := fun i j => xs.getD (3 * i.val + j.val) 0.0
def tenList (A : Ten Float) : List Float :=
  [A 0 0, A 0 1, A 0 2, A 1 0, A 1 1, A 1 2, A 2 0, A 2 1, A 2 2]

/-- table look-up standing for NEML's `alpha(T)` on exactly the temperatures the code asked for -/
def alphaTab (ts as : List Float) (T : Float) : Float :=
  match (ts.zip as).find? (fun p => p.1 == T) with
  | some p => p.2
  | none => 0.0

def splitSubs : List Nat → List Float → List Float → List (List (SubInc Float))
  | [], _, _ => []
  | n :: ns, sfs, tots =>
    let mine := (List.range n).map fun k =>
      (⟨sfs.getD k 0.0, tenOf ((tots.drop (9 * k)).take 9)⟩ : SubInc Float)
    mine :: splitSubs ns (sfs.drop n) (tots.drop (9 * n))

def handle : List String → Option String
  | ["sb_mech", ao, an, to, tn, th, tot] => do
    let ao ← parseF ao
    let an ← parseF an
    let to ← parseF to
    let tn ← parseF tn
    let th ← parseFs th
    let tot ← parseFs tot
    let α : Float → Float := alphaTab [to, tn] [ao, an]
    let th' := thermalUpdate α (tenOf th) to tn
    some (showFs (tenList th') ++ "|" ++ showFs (tenList (mech (tenOf tot) th')))
  | ["sb_interp", a, b, sf] => do
    let a ← parseF a
    let b ← parseF b
    let sf ← parseF sf
    some (showF (interpT a b sf))
  | ["sb_store", a] => do
    let a ← parseFs a
    let s := store (tenOf a)
    some (showFs s.toList ++ "|" ++ showFs (tenList (restore s)))
  | ["sb_run", tabT, tabA, t0, tnp1s, nsubs, sfs, tots] => do
    let tabT ← parseFs tabT
    let tabA ← parseFs tabA
    let t0 ← parseF t0
    let tnp1s ← parseFs tnp1s
    let nsubs ← parseNats nsubs
    let sfs ← parseFs sfs
    let tots ← parseFs tots
    let subs := splitSubs nsubs sfs tots
    let steps : List (Step Float) := (tnp1s.zip subs).map fun p => ⟨p.1, p.2⟩
    let α := alphaTab tabT tabA
    let tr := trace α t0 steps
    let st := run α t0 steps
    let trs := tr.flatMap fun r => r.T :: (tenList r.th ++ tenList r.mech)
    let sts := st.flatMap fun r => (store r.th).toList ++ (store r.mech).toList ++ (store r.tot).toList
    some (showFs trs ++ "|" ++ showFs sts)
  | _ => none

end SrModel.StrainBook
