/-!
# Scalars with transcendental functions

The numeric model functions are written once, polymorphic in the scalar `K`, using the
notation classes of core Lean (`Add K`, `Mul K`, `OfScientific K`, ...) plus this class where
a transcendental function appears.  The `Float` instance is what the correspondence executes;
the theorems instantiate the same definitions at `ℝ` (instance in the `SrProofs` file that
needs it: `Real.sqrt`, `Real.exp`, `Real.log`, `Real.rpow`, `Real.sin`, `Real.cos`).

Core Lean only.
-/
namespace SrModel

class Transc (K : Type) where
  sqrt : K → K
  exp  : K → K
  log  : K → K
  /-- real power `x ^ y` (numpy/jax `power` with a float exponent) -/
  pow  : K → K → K
  sin  : K → K
  cos  : K → K

instance : Transc Float where
  sqrt := Float.sqrt
  exp  := Float.exp
  log  := Float.log
  pow  := Float.pow
  sin  := Float.sin
  cos  := Float.cos

end SrModel
