import SrModel.Proto
import SrModel.Scalar
/-!
# Closed-form thick cylinder (Lamé) in generalised plane strain, and the nodal pressure loads

The oracle of the numerical comparison of C03: a linear-elastic tube `r_i ≤ r ≤ r_o` with internal
pressure `p` (outer surface free), uniform axial strain `ε_z` and uniform temperature change `ΔT`:

    σ_r = A − B/r²,  σ_θ = A + B/r²,  A = p r_i²/(r_o² − r_i²),  B = p r_i² r_o²/(r_o² − r_i²)
    σ_z = E(ε_z − αΔT) + ν(σ_r + σ_θ)
    ε_θ = (σ_θ − ν(σ_r + σ_z))/E + αΔT,   ε_r = (σ_r − ν(σ_θ + σ_z))/E + αΔT,   u = r ε_θ
    F = π(r_o² − r_i²)·σ̄_z,  σ̄_z = E(ε_z − αΔT) + 2νA        (axial force; σ_z is uniform)

and the consistent nodal loads of a uniform pressure on the discretised inner surface:

* 1-D: the `external` form of `PythonSolver` integrates `−p·n·v` over the point facet `r = r_i`
  where `n = −1`, so the load vector is `p` at the inner node and `0` elsewhere;
* 2-D/3-D: each flat facet (chord of length `2 r_i sin(π/nt)`, height `dz` in 3-D) with unit normal
  `n` pointing out of the solid carries `−p·n·area/verts` at each of its vertices.

Written once, polymorphic in the scalar `K`: executed on `Float` for the comparison with the
real code, proved on `ℝ` (`SrProofs/Lame.lean`, `SrProps/C03.lean`).  Core Lean only.
-/
namespace SrModel.Lame

/-- the data of the closed form -/
structure Prm (K : Type) where
  ri : K
  ro : K
  p  : K
  E  : K
  nu : K
  al : K      -- thermal expansion coefficient α
  dT : K      -- uniform temperature change
  ez : K      -- axial strain d/h

variable {K : Type} [Add K] [Sub K] [Mul K] [Div K] [Neg K] [OfNat K 0] [OfNat K 2]

def Prm.cA (P : Prm K) : K := P.p * (P.ri * P.ri) / (P.ro * P.ro - P.ri * P.ri)
def Prm.cB (P : Prm K) : K := P.p * (P.ri * P.ri) * (P.ro * P.ro) / (P.ro * P.ro - P.ri * P.ri)

/-- radial stress -/
def Prm.sr (P : Prm K) (r : K) : K := P.cA - P.cB / (r * r)
/-- hoop stress -/
def Prm.st (P : Prm K) (r : K) : K := P.cA + P.cB / (r * r)
/-- axial stress -/
def Prm.sz (P : Prm K) (r : K) : K := P.E * (P.ez - P.al * P.dT) + P.nu * (P.sr r + P.st r)
/-- `dσ_r/dr` written out (proved to be the derivative in `SrProofs/Lame.lean`) -/
def Prm.dsr (P : Prm K) (r : K) : K := 2 * P.cB / (r * r * r)

/-- strains by Hooke's law with thermal strain -/
def Prm.er (P : Prm K) (r : K) : K := (P.sr r - P.nu * (P.st r + P.sz r)) / P.E + P.al * P.dT
def Prm.et (P : Prm K) (r : K) : K := (P.st r - P.nu * (P.sr r + P.sz r)) / P.E + P.al * P.dT
/-- radial displacement `u = r ε_θ` -/
def Prm.u (P : Prm K) (r : K) : K := r * P.et r

/-- the (uniform) axial stress in closed form -/
def Prm.szbar (P : Prm K) : K := P.E * (P.ez - P.al * P.dT) + 2 * P.nu * P.cA
/-- cross-section area, `pi` supplied by the caller -/
def Prm.area (P : Prm K) (pi : K) : K := pi * (P.ro * P.ro - P.ri * P.ri)
/-- axial force `∫ σ_z 2πr dr` -/
def Prm.force (P : Prm K) (pi : K) : K := P.area pi * P.szbar
/-- axial stiffness `dF/dd` for `ε_z = d/h` -/
def Prm.stiffness (P : Prm K) (pi h : K) : K := P.area pi * P.E / h

/-! ### nodal pressure loads -/

/-- 1-D load vector over `nr` nodes: `p` at the inner node only -/
def load1 (nr : Nat) (p : K) : List K := (List.range nr).map fun i => if i = 0 then p else 0

/-- load of one vertex of a flat facet with unit outward normal `(nx,ny,nz)`, area `a`, `m` vertices -/
def facetLoad (p nx ny nz a m : K) : K × K × K :=
  (-(p * nx * a / m), -(p * ny * a / m), -(p * nz * a / m))

section ring
variable [Transc K]

/-- chord of the inscribed polygon, `δ = π/nt` -/
def chord (ri δ : K) : K := 2 * ri * Transc.sin δ

/-- outward (from the solid, i.e. towards the axis) unit normal of the inner-surface facet whose
mid-angle is `a` -/
def innerNormal (a : K) : K × K × K := (-(Transc.cos a), -(Transc.sin a), 0)

/-- load at an inner-surface node at angle `θ` from its two adjacent edges (2-D; per unit of
`w` = 1) or from its adjacent faces (3-D; `w` = sum of the adjacent axial element heights / 2, i.e.
`dz` inside and `dz/2` on the two end rings): each edge contributes `facetLoad … (chord·w) 2` -/
def nodeLoad (p ri δ θ w : K) : K × K × K :=
  let f1 := facetLoad p (innerNormal (θ - δ)).1 (innerNormal (θ - δ)).2.1 (innerNormal (θ - δ)).2.2 (chord ri δ * w) 2
  let f2 := facetLoad p (innerNormal (θ + δ)).1 (innerNormal (θ + δ)).2.1 (innerNormal (θ + δ)).2.2 (chord ri δ * w) 2
  (f1.1 + f2.1, f1.2.1 + f2.2.1, f1.2.2 + f2.2.2)

/-- the same load in closed form: `p·chord·w·cos δ` along `e_r(θ)` -/
def nodeLoadClosed (p ri δ θ w : K) : K × K × K :=
  (p * (chord ri δ * w) * Transc.cos δ * Transc.cos θ, p * (chord ri δ * w) * Transc.cos δ * Transc.sin θ, 0)

end ring

/-! ### line protocol -/

open Proto in
/-- requests (floats as bit patterns):
* `lame stress ri ro p E nu al dT ez r`  → `σ_r σ_θ σ_z u`
* `lame force ri ro p E nu al dT ez pi h` → `F stiffness area`
* `lame load1 nr p` → the 1-D load vector
* `lame node p ri δ θ w` → `Fx Fy Fz` of `nodeLoad` followed by `Fx Fy Fz` of `nodeLoadClosed` -/
def handle : List String → Option String
  | ["lame", "stress", ri, ro, p, e, nu, al, dT, ez, r] =>
    match parseF ri, parseF ro, parseF p, parseF e, parseF nu, parseF al, parseF dT, parseF ez, parseF r with
    | some ri, some ro, some p, some e, some nu, some al, some dT, some ez, some r =>
      let P : Prm Float := ⟨ri, ro, p, e, nu, al, dT, ez⟩
      some (showFs [P.sr r, P.st r, P.sz r, P.u r])
    | _, _, _, _, _, _, _, _, _ => none
  | ["lame", "force", ri, ro, p, e, nu, al, dT, ez, pi, h] =>
    match parseF ri, parseF ro, parseF p, parseF e, parseF nu, parseF al, parseF dT, parseF ez, parseF pi, parseF h with
    | some ri, some ro, some p, some e, some nu, some al, some dT, some ez, some pi, some h =>
      let P : Prm Float := ⟨ri, ro, p, e, nu, al, dT, ez⟩
      some (showFs [P.force pi, P.stiffness pi h, P.area pi])
    | _, _, _, _, _, _, _, _, _, _ => none
  | ["lame", "load1", nr, p] =>
    match nr.toNat?, parseF p with
    | some nr, some p => some (showFs (load1 nr p))
    | _, _ => none
  | ["lame", "node", p, ri, d, th, w] =>
    match parseF p, parseF ri, parseF d, parseF th, parseF w with
    | some p, some ri, some d, some th, some w =>
      let a := nodeLoad p ri d th w
      let b := nodeLoadClosed p ri d th w
      some (showFs [a.1, a.2.1, a.2.2, b.1, b.2.1, b.2.2])
    | _, _, _, _, _ => none
  | _ => none

end SrModel.Lame
