import SrModel.Proto
/-!
# Model of the receiver spring network (`srlife/system.py`, `srlife/spring.py`)

* `layout` / `buildNetwork` — `SpringSystemSolver.make_network`: node 0, then per panel a
  panel node, then per tube a top node followed by a bottom node (which carries the
  displacement BC); edges `0 – panel` (receiver option), `panel – top` (panel option),
  `top – bottom` (the tube).
* `removeRigid` — `SpringNetwork.remove_rigid`: every rigid edge is removed and the
  larger-numbered endpoint is contracted into the smaller one, with the three error cases
  of the code.  The code restarts its scan of `self.edges` after every contraction; the model
  processes the rigid edges in list order, carrying a *representative map* `lab : Node → Node`
  (current name of every original node) instead of mutating the graph.  The current multigraph
  of the code is `edges` (minus the processed rigid edges) with both endpoints mapped by `lab`.
* `splitDisconnect` — `SpringNetwork.split_disconnect`: delete the disconnect edges, connected
  components (the same quick-find merging, over all remaining edges), drop components without
  an edge and floating components with neither a tube nor a BC node.
* `validateSolve`, `dofMaps`, `fj`, `assemble` (`RJ` before the restriction to the free dofs).

The order in which networkx reports edges (hence the order of contractions and the order of the
returned components) is not modelled; the correspondence compares canonical forms.

Core Lean only (no Mathlib).
-/
namespace SrModel.Spring

/-- a documented connection option -/
inductive Opt where
  | disconnect
  | rigid
  | stiff (q : Rat)
deriving DecidableEq, Repr

/-- what an edge of the network carries: a connection option or a tube (global tube index) -/
inductive Kind where
  | conn (o : Opt)
  | tube (id : Nat)
deriving DecidableEq, Repr

structure Edge where
  i : Nat
  j : Nat
  kind : Kind
deriving DecidableEq, Repr

/-- a multigraph with displacement-BC nodes -/
structure Net where
  nodes : List Nat
  edges : List Edge
  bcs : List Nat
deriving DecidableEq, Repr

def Edge.isRigid (e : Edge) : Bool :=
  match e.kind with
  | .conn .rigid => true
  | _ => false

def Edge.isDisc (e : Edge) : Bool :=
  match e.kind with
  | .conn .disconnect => true
  | _ => false

def Edge.isTube (e : Edge) : Bool :=
  match e.kind with
  | .tube _ => true
  | _ => false

/-- a `Spring` object in the code: a linear spring or a tube -/
def Edge.isSpring (e : Edge) : Bool :=
  match e.kind with
  | .conn (.stiff _) => true
  | .tube _ => true
  | _ => false

/-! ## `make_network` -/

structure TubeRec where
  top : Nat
  bot : Nat
  id : Nat
deriving DecidableEq, Repr

structure PanelRec where
  node : Nat
  opt : Opt
  tubes : List TubeRec
deriving DecidableEq, Repr

/-- `n` tubes numbered from node `cn`, tube index from `tid`: top `cn`, bottom `cn+1`, … -/
def tubesFrom (cn tid : Nat) : Nat → List TubeRec
  | 0 => []
  | n+1 => ⟨cn, cn+1, tid⟩ :: tubesFrom (cn+2) (tid+1) n

/-- panels `(option, number of tubes)` numbered from node `cn` -/
def layoutFrom (cn tid : Nat) : List (Opt × Nat) → List PanelRec
  | [] => []
  | (o, n) :: ps => ⟨cn, o, tubesFrom (cn+1) tid n⟩ :: layoutFrom (cn+1+2*n) (tid+n) ps

/-- node numbering of `make_network`: node 0 is the receiver node, numbering continues at 1 -/
def layout (ps : List (Opt × Nat)) : List PanelRec := layoutFrom 1 0 ps

def nodeCount : List (Opt × Nat) → Nat
  | [] => 1
  | (_, n) :: ps => 1 + 2*n + nodeCount ps

def tubeEdges (pr : PanelRec) : List Edge :=
  pr.tubes.flatMap (fun t => [⟨pr.node, t.top, .conn pr.opt⟩, ⟨t.top, t.bot, .tube t.id⟩])

/-- edges added for one panel, in the order `make_network` adds them -/
def blockEdges (r : Opt) (pr : PanelRec) : List Edge :=
  ⟨0, pr.node, .conn r⟩ :: tubeEdges pr

def layoutEdges (r : Opt) (lay : List PanelRec) : List Edge := lay.flatMap (blockEdges r)

def layoutBCs (lay : List PanelRec) : List Nat := lay.flatMap (fun pr => pr.tubes.map (·.bot))

def buildNetwork (r : Opt) (ps : List (Opt × Nat)) : Net :=
  ⟨List.range (nodeCount ps), layoutEdges r (layout ps), layoutBCs (layout ps)⟩

/-! ## quick-find merging (node contraction) -/

/-- a representative map (current name of every node).  Wrapped in a structure so that the
compiled code evaluates the merged labels once, when the merge is made. -/
structure Lab where
  get : Nat → Nat

def Lab.id : Lab := ⟨fun n => n⟩

/-- contract the class named `max a b` into the class named `min a b` -/
def merge (lab : Lab) (a b : Nat) : Lab :=
  ⟨fun n => let x := lab.get n; if x = max a b then min a b else x⟩

/-- merge along every edge selected by `p`, in list order -/
def mergeAlong (p : Edge → Bool) : Lab → List Edge → Lab
  | lab, [] => lab
  | lab, e :: es => mergeAlong p (if p e then merge lab (lab.get e.i) (lab.get e.j) else lab) es

def relabel (lab : Lab) (e : Edge) : Edge := ⟨lab.get e.i, lab.get e.j, e.kind⟩

/-! ## `remove_rigid` -/

inductive Err where
  | rigidAcrossSpring   -- "Cannot have a rigid link across a spring!"
  | twoBCs              -- "Cannot merge two nodes with BCs!"
  | deletingBC          -- "Internal error: deleting BC"
  | notSprings          -- "All edges must be springs at solve!"
  | noFixedBC           -- "Spring network requires at least one fixed BC!"
  | notConnected        -- "Spring network must be fully connected at solve!"
deriving DecidableEq, Repr

def sameEnds (a b x y : Nat) : Bool := (x == a && y == b) || (x == b && y == a)

/-- number of edges of the *current* multigraph between current nodes `a` and `b`
(`number_of_edges(i, j)`); processed rigid edges have both ends in one class and never count
when `a ≠ b` -/
def parallel (all : List Edge) (lab : Lab) (a b : Nat) : Nat :=
  all.countP (fun e => sameEnds a b (lab.get e.i) (lab.get e.j))

/-- process the rigid edges of `rest` in order; `all` is the complete edge list -/
def rrGo (all : List Edge) (bcs : List Nat) : Lab → List Edge → Except Err Lab
  | lab, [] => .ok lab
  | lab, e :: rest =>
    if e.isRigid then
      let a := lab.get e.i
      let b := lab.get e.j
      if parallel all lab a b != 1 then .error .rigidAcrossSpring
      else if bcs.contains a && bcs.contains b then .error .twoBCs
      else if bcs.contains (max a b) then .error .deletingBC
      else rrGo all bcs (merge lab a b) rest
    else rrGo all bcs lab rest

/-- the contracted network for a given representative map -/
def contractBy (lab : Lab) (net : Net) : Net :=
  ⟨net.nodes.filter (fun n => lab.get n == n),
   (net.edges.filter (fun e => !e.isRigid)).map (relabel lab),
   net.bcs⟩

def removeRigid (net : Net) : Except Err Net :=
  match rrGo net.edges net.bcs Lab.id net.edges with
  | .ok lab => .ok (contractBy lab net)
  | .error e => .error e

/-- representative (surviving node) of every node after `remove_rigid`, when no error is raised -/
def rigidRep (net : Net) : Nat → Nat := (mergeAlong Edge.isRigid Lab.id net.edges).get

/-! ## `split_disconnect` -/

/-- connected-component label (smallest node of the component) -/
def compLab (es : List Edge) : Lab := mergeAlong (fun _ => true) Lab.id es

def component (net : Net) (es : List Edge) (lab : Lab) (r : Nat) : Net :=
  ⟨net.nodes.filter (fun n => lab.get n == r), es.filter (fun e => lab.get e.i == r),
   net.bcs.filter (fun n => lab.get n == r)⟩

/-- kept by the final filter of `split_disconnect`: has an edge, and a tube or a BC node -/
def keep (c : Net) : Bool := !c.edges.isEmpty && (c.edges.any Edge.isTube || !c.bcs.isEmpty)

def splitDisconnect (net : Net) : List Net :=
  let es := net.edges.filter (fun e => !e.isDisc)
  let lab := compLab es
  let roots := net.nodes.filter (fun n => lab.get n == n)
  (roots.map (component net es lab)).filter keep

/-- `split_disconnect` as it was coded at the pinned commit (defect F16): only edgeless components
are dropped, so a floating group of connection springs is returned (and cannot be solved). Kept as
the reference for the witness theorem. -/
def splitDisconnectPinned (net : Net) : List Net :=
  let es := net.edges.filter (fun e => !e.isDisc)
  let lab := compLab es
  let roots := net.nodes.filter (fun n => lab.get n == n)
  (roots.map (component net es lab)).filter (fun c => !c.edges.isEmpty)

def reduce (net : Net) : Except Err (List Net) :=
  match removeRigid net with
  | .ok n => .ok (splitDisconnect n)
  | .error e => .error e

/-! ## `validate_solve` -/

def connected (c : Net) : Bool :=
  match c.nodes with
  | [] => false          -- `nx.is_connected` raises on the null graph
  | n :: ns => let lab := compLab c.edges; let r := lab.get n; ns.all (fun m => lab.get m == r)

def validateSolve (c : Net) : Except Err Unit :=
  if !c.edges.all Edge.isSpring then .error .notSprings
  else if c.bcs.isEmpty then .error .noFixedBC
  else if !connected c then .error .notConnected
  else .ok ()

/-! ## `dof_maps`, `fj`, `RJ` -/

/-- position of `n` in the (sorted) node list: `dmap[n]` -/
def dmap (nodes : List Nat) (n : Nat) : Nat := nodes.idxOf n

/-- `(dmap, free, fixed)` of `dof_maps` for displacement BCs only -/
def dofMaps (c : Net) : (Nat → Nat) × List Nat × List Nat :=
  (dmap c.nodes, c.nodes.filter (fun n => !c.bcs.contains n), c.nodes.filter (fun n => c.bcs.contains n))

/-- `np.sign(ii - jj)` -/
def sgn {K} [Neg K] [OfNat K 0] [OfNat K 1] (ii jj : Nat) : K :=
  if jj < ii then 1 else if ii < jj then -1 else 0

/-- a spring law: displacement ↦ (force, stiffness) -/
abbrev Law (K : Type) := K → K × K

def linearLaw {K} [Mul K] (k : K) : Law K := fun d => (k * d, k)

/-- the stub tube of the harness: a linear thermal bar -/
def thermalLaw {K} [Mul K] [Sub K] (k dth : K) : Law K := fun d => (k * (d - dth), k)

/-- the displacement handed to the spring object by `fj` -/
def fjDisp {K} [Neg K] [OfNat K 0] [OfNat K 1] [Sub K] [Mul K] (dall : Nat → K) (ii jj : Nat) : K :=
  (dall jj - dall ii) * sgn ii jj

/-- row `r` of the internal-force contribution of one edge (`Fint * ss` of `fj`) -/
def fjF {K} [Neg K] [OfNat K 0] [OfNat K 1] [Add K] [Sub K] [Mul K]
    (law : Law K) (dall : Nat → K) (ii jj : Nat) (r : Nat) : K :=
  let f := (law (fjDisp dall ii jj)).1
  ((if r = ii then -f else 0) + (if r = jj then f else 0)) * sgn ii jj

/-- entry `(r, c)` of the Jacobian contribution of one edge -/
def fjJ {K} [Neg K] [OfNat K 0] [OfNat K 1] [Add K] [Sub K] [Mul K]
    (law : Law K) (dall : Nat → K) (ii jj : Nat) (r c : Nat) : K :=
  let k := (law (fjDisp dall ii jj)).2
  (if r = ii ∧ c = ii then k else 0) + (if r = ii ∧ c = jj then -k else 0)
    + (if r = jj ∧ c = ii then -k else 0) + (if r = jj ∧ c = jj then k else 0)

/-- an edge in dof numbering with its spring law -/
structure DEdge (K : Type) where
  ii : Nat
  jj : Nat
  law : Law K

/-- `Fint = sum(r[0] for r in res)` -/
def assembleF {K} [Neg K] [OfNat K 0] [OfNat K 1] [Add K] [Sub K] [Mul K]
    (es : List (DEdge K)) (dall : Nat → K) (r : Nat) : K :=
  es.foldr (fun e acc => fjF e.law dall e.ii e.jj r + acc) 0

/-- `J = sum(r[1] for r in res)` -/
def assembleJ {K} [Neg K] [OfNat K 0] [OfNat K 1] [Add K] [Sub K] [Mul K]
    (es : List (DEdge K)) (dall : Nat → K) (r c : Nat) : K :=
  es.foldr (fun e acc => fjJ e.law dall e.ii e.jj r c + acc) 0

/-! ## line protocol -/

def showOpt : Opt → String
  | .disconnect => "d"
  | .rigid => "r"
  | .stiff q => "s" ++ Proto.showQ q

def parseOpt (s : String) : Option Opt :=
  if s == "d" then some .disconnect
  else if s == "r" then some .rigid
  else match s.toList with
    | 's' :: cs => (Proto.parseQ (String.ofList cs)).map .stiff
    | _ => none

def showKind : Kind → String
  | .conn o => showOpt o
  | .tube id => s!"t{id}"

def parseKind (s : String) : Option Kind :=
  match s.toList with
  | 't' :: cs => (String.ofList cs).toNat?.map .tube
  | _ => (parseOpt s).map .conn

def showEdge (e : Edge) : String := s!"{e.i}-{e.j}-{showKind e.kind}"

def parseEdge (s : String) : Option Edge :=
  match s.splitOn "-" with
  | [a, b, k] => match a.toNat?, b.toNat?, parseKind k with
    | some i, some j, some kd => some ⟨i, j, kd⟩
    | _, _, _ => none
  | _ => none

def showErr : Err → String
  | .rigidAcrossSpring => "rigidAcrossSpring"
  | .twoBCs => "twoBCs"
  | .deletingBC => "deletingBC"
  | .notSprings => "notSprings"
  | .noFixedBC => "noFixedBC"
  | .notConnected => "notConnected"

def showList (xs : List String) : String := if xs.isEmpty then "-" else ",".intercalate xs

def showValid (c : Net) : String :=
  match validateSolve c with
  | .ok _ => "ok"
  | .error e => showErr e

/-- `nodes;edges;bcs;validate_solve;free;fixed` -/
def showNet (c : Net) : String :=
  let (_, free, fixed) := dofMaps c
  ";".intercalate [Proto.showNats c.nodes, showList (c.edges.map showEdge), Proto.showNats c.bcs,
    showValid c, Proto.showNats free, Proto.showNats fixed]

def showReduce (net : Net) : String :=
  match reduce net with
  | .error e => "err " ++ showErr e
  | .ok cs => "ok " ++ (if cs.isEmpty then "-" else "|".intercalate (cs.map showNet))
      ++ " rep=" ++ Proto.showNats (net.nodes.map (rigidRep net))

def parsePanel (s : String) : Option (Opt × Nat) :=
  match s.splitOn ":" with
  | [o, n] => match parseOpt o, n.toNat? with
    | some o, some n => some (o, n)
    | _, _ => none
  | _ => none

def parseDEdge (s : String) : Option (DEdge Float) :=
  match s.splitOn ":" with
  | [a, b, k, dth] => match a.toNat?, b.toNat?, Proto.parseF k, Proto.parseF dth with
    | some i, some j, some k, some dth => some ⟨i, j, thermalLaw k dth⟩
    | _, _, _, _ => none
  | _ => none

/-- line protocol:
* `c04 <recvOpt> <panelOpt:ntubes,...>` — `make_network` then `reduce_graph`; also echoes the built
  network: answer `ok comp|comp|… rep=… net=nodes;edges;bcs` or `err <kind>`
* `c04net <nodes> <edges> <bcs>` — `reduce_graph` of an arbitrary network
* `c04rj <n> <ii:jj:k:dth,...> <dall>` — `Fint` (n values) and `J` (n·n values, row major) of
  `RJ` before the restriction to the free dofs, stub tubes/linear springs as thermal bars -/
def handle : List String → Option String
  | ["c04", r, ps] =>
    match parseOpt r, Proto.parseList parsePanel ps with
    | some r, some ps =>
      let net := buildNetwork r ps
      some (showReduce net ++ " net=" ++ ";".intercalate
        [Proto.showNats net.nodes, showList (net.edges.map showEdge), Proto.showNats net.bcs])
    | _, _ => none
  | ["c04net", ns, es, bs] =>
    match Proto.parseNats ns, Proto.parseList parseEdge es, Proto.parseNats bs with
    | some ns, some es, some bs => some (showReduce ⟨ns, es, bs⟩)
    | _, _, _ => none
  | ["c04rj", n, es, ds] =>
    match n.toNat?, Proto.parseList parseDEdge es, Proto.parseFs ds with
    | some n, some es, some ds =>
      let dall : Nat → Float := fun i => ds.getD i 0.0
      let rows := List.range n
      let F := rows.map (assembleF es dall)
      let J := rows.flatMap (fun r => rows.map (assembleJ es dall r))
      some (Proto.showFs F ++ " " ++ Proto.showFs J)
    | _, _, _ => none
  | _ => none

end SrModel.Spring
