import SrModel.Proto
/-!
# Iteration-loop skeletons of srlife (C17) and the semantics of parameter plumbing

Part 1 (`SrModel.Loops`): the control flow of the five hand-coded iteration loops

* `newton`     – `srlife/solvers.py: newton` (also what `SpringNetwork.solve` runs),
* `fd`         – `FiniteDifferenceImplicitThermalProblem.solve_step` (`srlife/thermal.py`),
* `flowpath`   – `FlowPath.solve` (`srlife/thermohydraulics/flowpath.py`),
* `picard`     – `ThermohydraulicsThermalSolver.solve_step` (`srlife/thermal.py`),
* `fe`         – `PythonSolver.solve` (`srlife/structural.py`),

each driven by an **oracle** `o : Nat → Norm` that gives the residual norm of the
`n`-th residual evaluation the loop makes (0-based, counting every evaluation, line-search
trials included).  What the update does to the iterate is irrelevant to C17: the property is
about which evaluation is tested and what happens when the budget runs out.

`Norm` is what IEEE arithmetic shows for the norm of a vector: NaN, +∞ or a finite value;
finite values are rationals (the harness sends the exact rational value of the binary64 number
and only uses values for which the floating quotient decides the comparison as the exact
quotient does – it checks that for every case).  Norms are non-negative in every use; a negative
`fin` is not excluded by the type but `x/0` is only modelled for `x ≥ 0`.

Python semantics relied on: `for … in range(m): … break … else: raise` raises exactly when the
body ran `m` times without `break` (so `m = 0` raises at once); comparisons with NaN are false;
numpy float64 division by zero yields `inf`/`nan` (a warning, no exception).

Part 2 (`SrModel.Plumbing`): what a "parameter plumbing" function computes, as data
(`Src`, `Fn`) produced by the translator `/verif/gen/gen_plumbing.py` into `Gen/Plumbing.lean`.

Core Lean only.
-/
namespace SrModel.Loops

/-- a residual norm as the code sees it -/
inductive Norm where
  | nan
  | inf
  | fin (q : Rat)
deriving Repr, DecidableEq

namespace Norm

/-- Python `x < tol` with `tol` finite: false for NaN and for +∞ -/
def lt (x : Norm) (tol : Rat) : Bool :=
  match x with
  | fin q => decide (q < tol)
  | _ => false

/-- Python `x < y` for two norms (line search `nR < nR_last`) -/
def ltN (x y : Norm) : Bool :=
  match x, y with
  | fin a, fin b => decide (a < b)
  | fin _, inf => true
  | _, _ => false

/-- IEEE quotient `x / y` of non-negative values: `0/0 = ∞/∞ = NaN`, `x/0 = ∞` (`x>0`),
`x/∞ = 0`, NaN propagates -/
def div (x y : Norm) : Norm :=
  match x, y with
  | nan, _ => nan
  | _, nan => nan
  | inf, inf => nan
  | inf, fin _ => inf
  | fin _, inf => fin 0
  | fin a, fin b => if b = 0 then (if a = 0 then nan else inf) else fin (a / b)

def isNan : Norm → Bool
  | nan => true
  | _ => false

end Norm

/-- the documented test `nR < abs_tol or nR / nR0 < rel_tol` -/
def conv (atol rtol : Rat) (nR nR0 : Norm) : Bool :=
  nR.lt atol || (nR.div nR0).lt rtol

inductive Kind where
  | noConv      -- the `for … else: raise RuntimeError(... did not converge / too many iterations)`
  | nan         -- `raise RuntimeError("NaN detected!")` (FlowPath only)
deriving Repr, DecidableEq

/-- outcome of a loop.
`ok iters cur evals`: returned normally after `iters` completed updates; `cur` is the index of
the residual evaluation made **at the returned iterate**; `evals` evaluations were made in all.
`raised k evals`: raised after `evals` evaluations. -/
inductive Res where
  | ok (iters cur evals : Nat)
  | raised (k : Kind) (evals : Nat)
deriving Repr, DecidableEq

/-- Backtracking line search of `newton` / `PythonSolver.solve`:
```
for _ in range(max_search):
    x = x_last - alpha*dx ; R = residual(x) ; nR = norm(R)
    if nR < nR_last: break
    alpha /= 2
```
`cur` = index of the evaluation at the current iterate, `n` = evaluations made so far.
Every trial moves the iterate to the trial point, so afterwards the current iterate is the last
trial evaluated (or the old one when `max_search = 0`).  There is no `else`: an exhausted search
just keeps the last trial. -/
def lineSearch (o : Nat → Norm) (nLast : Norm) : Nat → Nat → Nat → Nat × Nat
  | 0, cur, n => (cur, n)
  | k+1, _, n => if (o n).ltN nLast then (n, n+1) else lineSearch o nLast k n (n+1)

structure NewtonCfg where
  atol : Rat
  rtol : Rat
  miter : Nat
  linesearch : Bool
  maxSearch : Nat
deriving Repr

/-- one update of `newton`: with line search, or the plain step (one evaluation) -/
def newtonStep (c : NewtonCfg) (o : Nat → Norm) (cur n : Nat) : Nat × Nat :=
  if c.linesearch then lineSearch o (o cur) c.maxSearch cur n else (n, n+1)

/-- `solvers.newton`, the `for i in range(miters)` loop; `fuel` = iterations left.
```
for i in range(miters):
    if nR < abs_tol or nR / nR0 < rel_tol: break
    dx = solve(J, R) ; (line search | x -= dx; evaluate)
else: raise RuntimeError
return x
``` -/
def newtonLoop (c : NewtonCfg) (o : Nat → Norm) : Nat → Nat → Nat → Nat → Res
  | 0, _, _, n => .raised .noConv n
  | fuel+1, i, cur, n =>
    if conv c.atol c.rtol (o cur) (o 0) then .ok i cur n
    else
      let s := newtonStep c o cur n
      newtonLoop c o fuel (i+1) s.1 s.2

/-- `R, J = RJ(x0); nR0 = nR = norm(R)` is evaluation 0 -/
def newton (c : NewtonCfg) (o : Nat → Norm) : Res := newtonLoop c o c.miter 0 0 1

/-- FD thermal step: the residual is evaluated at the top of every pass (evaluation `i` in
pass `i`), `nr0` is the first one, the test carries the guard `i > 0`, `break` comes before the
update.
```
for i in range(miter):
    res = M.T - Ri ; nr = norm(res)
    if i == 0: nr0 = nr
    if (nr < atol or nr/nr0 < rtol) and i > 0: break
    T -= spsolve(M - J, res)
else: raise RuntimeError
``` -/
def fdLoop (atol rtol : Rat) (o : Nat → Norm) : Nat → Nat → Res
  | 0, i => .raised .noConv i
  | fuel+1, i =>
    if conv atol rtol (o i) (o 0) && decide (0 < i) then .ok i i (i+1)
    else fdLoop atol rtol o fuel (i+1)

def fd (atol rtol : Rat) (miter : Nat) (o : Nat → Norm) : Res := fdLoop atol rtol o miter 0

/-- `FlowPath.solve`: evaluation 0 gives `nr0` (never tested); every pass updates first, then
evaluates, raises on NaN, then tests.
```
R, J = RJ(T); nr0 = norm(R)
for i in range(miter):
    T -= spsolve(J, R); R, J = RJ(T); nr = norm(R)
    if isnan(nr): raise RuntimeError("NaN detected!")
    if nr < atol or nr/nr0 < rtol: break
else: raise RuntimeError
``` -/
def fpLoop (atol rtol : Rat) (o : Nat → Norm) : Nat → Nat → Res
  | 0, i => .raised .noConv (i+1)
  | fuel+1, i =>
    if (o (i+1)).isNan then .raised .nan (i+2)
    else if conv atol rtol (o (i+1)) (o 0) then .ok (i+1) (i+1) (i+2)
    else fpLoop atol rtol o fuel (i+1)

def flowpath (atol rtol : Rat) (miter : Nat) (o : Nat → Norm) : Res := fpLoop atol rtol o miter 0

/-- the four change measures of one Picard pass -/
structure Norm4 where
  ta : Norm   -- temp_max_diff
  tr : Norm   -- temp_max_rel_diff
  fa : Norm   -- fluid_max_diff
  fr : Norm   -- fluid_max_rel_diff
deriving Repr, DecidableEq

/-- `(fluid_max_diff < atol and temp_max_diff < atol) or (fluid_max_rel_diff < rtol and temp_max_rel_diff < rtol)` -/
def picardConv (atol rtol : Rat) (m : Norm4) : Bool :=
  (m.fa.lt atol && m.ta.lt atol) || (m.fr.lt rtol && m.tr.lt rtol)

/-- Picard loop of `ThermohydraulicsThermalSolver.solve_step`: pass `j` solves metal and fluid,
measures the changes (evaluation `j`) and tests them. -/
def picardLoop (atol rtol : Rat) (o : Nat → Norm4) : Nat → Nat → Res
  | 0, j => .raised .noConv j
  | fuel+1, j =>
    if picardConv atol rtol (o j) then .ok (j+1) j (j+1)
    else picardLoop atol rtol o fuel (j+1)

def picard (atol rtol : Rat) (miter : Nat) (o : Nat → Norm4) : Res := picardLoop atol rtol o miter 0

structure FeCfg where
  atol : Rat
  rtol : Rat
  miter : Nat
  maxSearch : Nat
deriving Repr

/-- `PythonSolver.solve`:
```
R = residual(p); nR0 = norm(R[kdofs]); nR = nR0
for i in range(miter):
    if nR0 < atol: break
    J = jacobian(); dx = linear_solve(J, R)
    (line search, max_linesearch trials, no else)
    if nR < atol or nR/nR0 < rtol: break
else: raise RuntimeError
``` -/
def feLoop (c : FeCfg) (o : Nat → Norm) : Nat → Nat → Nat → Nat → Res
  | 0, _, _, n => .raised .noConv n
  | fuel+1, i, cur, n =>
    if (o 0).lt c.atol then .ok i cur n
    else
      let s := lineSearch o (o cur) c.maxSearch cur n
      if conv c.atol c.rtol (o s.1) (o 0) then .ok (i+1) s.1 s.2
      else feLoop c o fuel (i+1) s.1 s.2

def fe (c : FeCfg) (o : Nat → Norm) : Res := feLoop c o c.miter 0 0 1

/-! ### line protocol -/

/-- scripted oracle: evaluations beyond the script see NaN (the harness never lets that happen:
it sends as many values as the real run consumed, plus padding, and compares the counts) -/
def oracleOf (xs : List Norm) (n : Nat) : Norm := xs.getD n .nan

def oracle4Of (xs : List Norm4) (n : Nat) : Norm4 := xs.getD n ⟨.nan, .nan, .nan, .nan⟩

def parseNorm (s : String) : Option Norm :=
  if s == "nan" then some .nan
  else if s == "inf" then some .inf
  else (Proto.parseQ s).map .fin

def parseNorm4 (s : String) : Option Norm4 :=
  match (s.splitOn ":").mapM parseNorm with
  | some [a, b, c, d] => some ⟨a, b, c, d⟩
  | _ => none

def showRes : Res → String
  | .ok i cur n => s!"ok {i} {cur} {n}"
  | .raised .noConv n => s!"raise noconv {n}"
  | .raised .nan n => s!"raise nan {n}"

/-- requests (all numbers exact rationals `num/den`):
* `c17 newton <atol> <rtol> <miter> <linesearch 0|1> <max_search> <norms>`
* `c17 fd <atol> <rtol> <miter> <norms>`
* `c17 flowpath <atol> <rtol> <miter> <norms>`
* `c17 picard <atol> <rtol> <miter> <ta:tr:fa:fr,…>`
* `c17 fe <atol> <rtol> <miter> <max_linesearch> <norms>`
answer: `ok <iters> <cur> <evals>` | `raise noconv <evals>` | `raise nan <evals>` -/
def handle : List String → Option String
  | ["c17", "newton", atol, rtol, miter, ls, ms, norms] =>
    match Proto.parseQ atol, Proto.parseQ rtol, miter.toNat?, ms.toNat?, Proto.parseList parseNorm norms with
    | some a, some r, some m, some k, some xs =>
      if ls == "1" then some (showRes (newton ⟨a, r, m, true, k⟩ (oracleOf xs)))
      else if ls == "0" then some (showRes (newton ⟨a, r, m, false, k⟩ (oracleOf xs)))
      else none
    | _, _, _, _, _ => none
  | ["c17", "fd", atol, rtol, miter, norms] =>
    match Proto.parseQ atol, Proto.parseQ rtol, miter.toNat?, Proto.parseList parseNorm norms with
    | some a, some r, some m, some xs => some (showRes (fd a r m (oracleOf xs)))
    | _, _, _, _ => none
  | ["c17", "flowpath", atol, rtol, miter, norms] =>
    match Proto.parseQ atol, Proto.parseQ rtol, miter.toNat?, Proto.parseList parseNorm norms with
    | some a, some r, some m, some xs => some (showRes (flowpath a r m (oracleOf xs)))
    | _, _, _, _ => none
  | ["c17", "picard", atol, rtol, miter, norms] =>
    match Proto.parseQ atol, Proto.parseQ rtol, miter.toNat?, Proto.parseList parseNorm4 norms with
    | some a, some r, some m, some xs => some (showRes (picard a r m (oracle4Of xs)))
    | _, _, _, _ => none
  | ["c17", "fe", atol, rtol, miter, ms, norms] =>
    match Proto.parseQ atol, Proto.parseQ rtol, miter.toNat?, ms.toNat?, Proto.parseList parseNorm norms with
    | some a, some r, some m, some k, some xs => some (showRes (fe ⟨a, r, m, k⟩ (oracleOf xs)))
    | _, _, _, _, _ => none
  | _ => none

end SrModel.Loops

/-! # Part 2 — parameter plumbing

What the translator `/verif/gen/gen_plumbing.py` extracts from a function that only moves solver
parameters around, and what such a term means.  Values are `Lit`s (a number, a bool, `None`, or an
opaque object); an environment says which parameter-set keys, explicit arguments and attributes
of `self` are present and with what value. -/
namespace SrModel.Plumbing

/-- a value: exact rational `n/d` (lowest terms, as the translator prints it), bool, `None`, or an
opaque object identified by a string -/
inductive Lit where
  | num (n : Int) (d : Nat)
  | bool (b : Bool)
  | none
  | other (s : String)
deriving Repr, DecidableEq

def Lit.isNone : Lit → Bool
  | .none => true
  | _ => false

/-- what a value can be read from -/
inductive Key where
  | pset (k : String)     -- key of the parameter set handed to the function
  | arg (n : String)      -- explicitly passed (keyword or positional) argument
  | self (n : String)     -- attribute of `self` set before the function runs
deriving Repr, DecidableEq

/-- right-hand sides the translator understands (see its docstring for the Python forms) -/
inductive Src where
  | param (n : String)                       -- formal parameter: the argument if passed, else its default
  | lit (l : Lit)
  | self (n : String)                        -- `self.n`
  | getDefault (key : String) (d : Src)      -- `pset.get_default(key, d)`
  | popDefault (key : String) (d : Src)      -- `kwargs.pop(key, d)`
  | ifNone (n : String) (d : Src)            -- `d if n is None else n`, `n` a parameter with default `None`
  | other (what : String)                    -- any other expression: an opaque value
  | unsupported (why : String)               -- outside the grammar: no value at all
deriving Repr, DecidableEq

structure Fn where
  name : String
  params : List (String × Option Lit)
  out : List (String × Src)
deriving Repr

def Fn.dflt (f : Fn) (n : String) : Option Lit := (f.params.lookup n).bind id

abbrev Env := Key → Option Lit

/-- result of evaluating a source: a value, nothing (falls through to the next alternative), or an
error (Python would raise / the translator could not read the code) -/
inductive Out where
  | val (v : Lit)
  | absent
  | error
deriving Repr, DecidableEq

def Out.toOpt : Out → Option Lit
  | .val v => some v
  | _ => none

/-- direct semantics of a `Src` inside function `f` -/
def evalSrc (f : Fn) (env : Env) : Src → Out
  | .param n => match env (.arg n) with
    | some v => .val v
    | none => match f.dflt n with
      | some l => .val l
      | none => .error
  | .lit l => .val l
  | .self n => match env (.self n) with
    | some v => .val v
    | none => .error
  | .getDefault k d => match env (.pset k) with
    | some v => .val v
    | none => evalSrc f env d
  | .popDefault k d => match env (.arg k) with
    | some v => .val v
    | none => evalSrc f env d
  | .ifNone n d => match env (.arg n) with
    | some v => if v.isNone then evalSrc f env d else .val v
    | none => evalSrc f env d
  | .other s => .val (.other s)
  | .unsupported _ => .error

/-- the same meaning as a priority list: the first alternative that is present wins -/
inductive Atom where
  | take (k : Key)       -- the value under `k`, if present
  | takeNN (k : Key)     -- the value under `k`, if present and not `None`
  | lit (l : Lit)        -- terminal: this value
  | fail                 -- terminal: error
deriving Repr, DecidableEq

def chain (f : Fn) : Src → List Atom
  | .param n => [.take (.arg n), match f.dflt n with | some l => .lit l | none => .fail]
  | .lit l => [.lit l]
  | .self n => [.take (.self n), .fail]
  | .getDefault k d => .take (.pset k) :: chain f d
  | .popDefault k d => .take (.arg k) :: chain f d
  | .ifNone n d => .takeNN (.arg n) :: chain f d
  | .other s => [.lit (.other s)]
  | .unsupported _ => [.fail]

def first (env : Env) : List Atom → Out
  | [] => .absent
  | .take k :: r => match env k with
    | some v => .val v
    | none => first env r
  | .takeNN k :: r => match env k with
    | some v => if v.isNone then first env r else .val v
    | none => first env r
  | .lit l :: _ => .val l
  | .fail :: _ => .error

/-- replace reads of keys by priority lists over an outer environment (`σ k = none`: keep) -/
def subst (σ : Key → Option (List Atom)) : List Atom → List Atom
  | [] => []
  | .take k :: r => match σ k with
    | some c => c ++ subst σ r
    | none => .take k :: subst σ r
  | .takeNN k :: r => match σ k with
    | some _ => [.fail]
    | none => .takeNN k :: subst σ r
  | .lit l :: _ => [.lit l]
  | .fail :: _ => [.fail]

/-- how a stage of a pipeline gets its inputs -/
inductive Link where
  | user                       -- directly from the user: parameter set and constructor arguments
  | userRenamed (pre : String) -- the same, the user's argument `n` being filed under `pre ++ n`
  | self                       -- a later method of the same object: `self.n` is what the previous stage wrote
  | args                       -- called by the previous stage: its arguments are exactly what that stage passes
deriving Repr, DecidableEq

def Link.sigma : Link → (String → List Atom) → Key → Option (List Atom)
  | .user, _, _ => none
  | .userRenamed pre, _, .arg n => some [.take (.arg (pre ++ n))]
  | .userRenamed _, _, _ => none
  | .self, prev, .self n => some (prev n)
  | .self, _, _ => none
  | .args, prev, .arg n => some (prev n)
  | .args, _, _ => none

def Link.env : Link → (String → Option Lit) → Env → Env
  | .user, _, U => U
  | .userRenamed pre, _, U => fun k => match k with
    | .arg n => U (.arg (pre ++ n))
    | k => U k
  | .self, prev, U => fun k => match k with
    | .self n => prev n
    | k => U k
  | .args, prev, U => fun k => match k with
    | .arg n => prev n
    | k => U k

/-- a pipeline, **last stage first** -/
abbrev Pipe := List (Link × Fn)

/-- concrete run of a pipeline in the user's environment `U`: output `n` of the last stage -/
def pipeC : Pipe → Env → String → Out
  | [], _, _ => .absent
  | (l, g) :: earlier, U, n =>
    match g.out.lookup n with
    | some s => evalSrc g (l.env (fun m => (pipeC earlier U m).toOpt) U) s
    | none => .absent

/-- the same, symbolically: a priority list over the user's keys -/
def pipeS : Pipe → String → List Atom
  | [], _ => []
  | (l, g) :: earlier, n =>
    match g.out.lookup n with
    | some s => subst (l.sigma (pipeS earlier)) (chain g s)
    | none => []

/-- a function seen as a stage that hands its parameters on unchanged (`newton`: the loop
compares its parameters themselves) -/
def passParams (f : Fn) : Fn := { f with out := f.params.map (fun p => (p.1, .param p.1)) }

/-- the translated functions -/
structure Fns where
  newton : Fn
  sss_init : Fn
  sss_make_network : Fn
  sn_init : Fn
  sn_copy : Fn
  sn_solve : Fn
  tts_init : Fn
  deparam_fd : Fn
  fds_init : Fn
  fds_solve : Fn
  fdp_init : Fn
  deparam_fp : Fn
  fp_init : Fn
  pts_init : Fn

/-! ### the components (pipelines, last stage first)

User-level keys: `pset k` = key of the parameter set the user hands to the component (for
`fdPicard` that is `pset["solid"]`, for `flowPicard` `pset["fluid"]` of the thermohydraulics solver's
parameter set — `tts_init` shows that these sub-sets are what is stored), `arg n` = keyword argument
of the constructor / function the user calls; for `fdSolver` the constructor's arguments are filed
as `arg "init.n"` and those of `.solve(...)` as `arg n`. -/

/-- `SpringSystemSolver(pset, …)` → `make_network` → `SpringNetwork(...)` → `split_disconnect`
(`__copy`) → `SpringNetwork.solve` → `newton(...)` -/
def system (F : Fns) : Pipe :=
  [(.args, passParams F.newton), (.self, F.sn_solve), (.self, F.sn_copy), (.args, F.sn_init),
   (.self, F.sss_make_network), (.user, F.sss_init)]

/-- a `SpringNetwork` built directly by the user and solved without splitting -/
def network (F : Fns) : Pipe :=
  [(.args, passParams F.newton), (.self, F.sn_solve), (.user, F.sn_init)]

/-- `FiniteDifferenceImplicitThermalSolver(pset, …).solve(tube, …, rtol=…)` →
`FiniteDifferenceImplicitThermalProblem(...)` attributes -/
def fdSolver (F : Fns) : Pipe :=
  [(.args, F.fdp_init), (.self, F.fds_solve), (.userRenamed "init.", F.fds_init)]

/-- `FiniteDifferenceImplicitThermalProblem(tube, …, **deparametrize_finite_difference(pset))`
(what `ThermohydraulicsThermalSolver.solve_metal` does with `self.solid_params`) -/
def fdPicard (F : Fns) : Pipe := [(.args, F.fdp_init), (.user, F.deparam_fd)]

/-- `FlowPath(times, …, **deparameterize_flow_path(pset))` (what `solve_fluid` does with
`self.thermo_params`) -/
def flowPicard (F : Fns) : Pipe := [(.args, F.fp_init), (.user, F.deparam_fp)]

/-- `FlowPath(times, mass_flow, inlet_temperature, rtol=…, …)` -/
def flowDirect (F : Fns) : Pipe := [(.user, F.fp_init)]

/-- `ThermohydraulicsThermalSolver(pset)` attributes (Picard loop) -/
def picard (F : Fns) : Pipe := [(.user, F.tts_init)]

/-- `PythonTubeSolver(pset, …)` attributes; `solver_options.k` is entry `k` of the dict handed to
`PythonSolver` -/
def structural (F : Fns) : Pipe := [(.user, F.pts_init)]

def components (F : Fns) : List (String × Pipe) :=
  [("system", system F), ("network", network F), ("fdSolver", fdSolver F), ("fdPicard", fdPicard F),
   ("flowPicard", flowPicard F), ("flowDirect", flowDirect F), ("picard", picard F),
   ("structural", structural F)]

/-! ### line protocol of the translator self-check -/

def parseLit (s : String) : Option Lit :=
  if s == "none" then some .none
  else if s == "b1" then some (.bool true)
  else if s == "b0" then some (.bool false)
  else match s.splitOn "/" with
    | [n, d] => match n.toInt?, d.toNat? with
      | some n, some d => some (.num n d)
      | _, _ => Option.none
    | _ => Option.none

def showLit : Lit → String
  | .num n d => s!"{n}/{d}"
  | .bool b => if b then "b1" else "b0"
  | .none => "none"
  | .other _ => "other"

/-- `p:key=value` / `a:name=value` / `s:name=value` -/
def parseBinding (s : String) : Option (Key × Lit) :=
  match s.splitOn "=" with
  | [k, v] => match parseLit v with
    | some l =>
      if k.startsWith "p:" then some (.pset (k.drop 2).toString, l)
      else if k.startsWith "a:" then some (.arg (k.drop 2).toString, l)
      else if k.startsWith "s:" then some (.self (k.drop 2).toString, l)
      else Option.none
    | Option.none => Option.none
  | _ => Option.none

def envOf (bs : List (Key × Lit)) : Env := fun k => bs.lookup k

def showOut : Out → String
  | .val v => "val " ++ showLit v
  | .absent => "absent"
  | .error => "error"

/-- `c17p <component> <field> <bindings | ->`  →  `val <lit>` | `absent` | `error` -/
def handleWith (F : Fns) : List String → Option String
  | ["c17p", comp, field, bs] =>
    match (components F).lookup comp, Proto.parseList parseBinding bs with
    | some p, some bs => some (showOut (pipeC p (envOf bs) field))
    | _, _ => Option.none
  | _ => Option.none

end SrModel.Plumbing
