import SrModel.Fluid
/-!
# Model of `srlife/thermohydraulics/flowpath.py`
(`StartLink`, `SimplePanelLink`, `ManifoldLink`, `FlowPath._setup/RJ/recover_tube_results`)

A flow path is the chain `start, panel₀, manifold₀, panel₁, manifold₁, …`.  The unknown vector `T`
holds one temperature for the start node, one per explicitly represented tube of every panel
(the tube outlet) and one per manifold.  What is interpolated in time by the code
(`T_inlet(t)`, `mass_flow_rate(t)`, `metal_temperature(t)`) enters the model as its value at the
query time; the fluid model enters through the three functions the code calls
(`cp`, `rho`, `film_coefficient`), evaluated at the same arguments.

Every numeric function is polymorphic in the scalar: run at `Float` for the correspondence,
proved over an ordered field in `SrProps/C14.lean`.  Core Lean only.
-/
namespace SrModel.Flowpath

/-- scalars into which the grid counts embed (`h / nz`, `2π / nt`, `i * step` of `linspace`) -/
class NatEmb (K : Type) where
  ofNat : Nat → K

instance : NatEmb Float := ⟨Nat.toFloat⟩

/-- the three fluid functions the links call -/
structure FluidFns (K : Type) where
  cp   : K → K
  rho  : K → K
  film : K → K → K → K      -- film_coefficient(T, u, r)

/-- a `SimplePanelLink` at the query time -/
structure Panel (K : Type) where
  weights : List K                  -- tube multipliers, one per explicitly represented tube
  ri      : K
  h       : K
  nt      : Nat                     -- metal_temp.shape[2]
  nz      : Nat                     -- metal_temp.shape[3]
  mdot    : K                       -- mass_flow_rate(t)
  metal   : List (List (List K))    -- metal_temperature(t)[tube][θ][z]

inductive Link (K : Type) where
  | start (Tin : K)                 -- T_inlet(t)
  | panel (p : Panel K)
  | manifold (weights : List K)

def Link.size {K : Type} : Link K → Nat
  | .start _ => 1
  | .panel p => p.weights.length
  | .manifold _ => 1

/-- `FlowPath.__init__` + repeated `add_panel`: start, then (panel, manifold) per panel -/
def mkChain {K : Type} (Tin : K) (ps : List (Panel K)) : List (Link K) :=
  .start Tin :: ps.flatMap (fun p => [.panel p, .manifold p.weights])

/-! ### dof map (`_setup`) -/

def dofMapFrom (off : Nat) : List Nat → List (List Nat)
  | [] => []
  | s :: ss => List.range' off s :: dofMapFrom (off + s) ss

/-- `dof_map`: consecutive ranges, in chain order -/
def dofMap (sizes : List Nat) : List (List Nat) := dofMapFrom 0 sizes

def nvals (sizes : List Nat) : Nat := sizes.foldl (· + ·) 0

/-- `T[dofs]`; `none` for an index out of range (never a default) -/
def gather {K : Type} (T : List K) (dofs : List Nat) : Option (List K) := dofs.mapM (T[·]?)

section
variable {K : Type} [OfNat K 0] [Add K] [Sub K] [Mul K] [Div K] [OfScientific K] [NatEmb K]

/-- left-to-right sum -/
def lsum (xs : List K) : K := xs.foldl (fun a x => a + x) 0

/-- `np.linspace(0, h, nz)`: `i * (h / (nz-1))`, last entry exactly `h`; `[0*h]` for `nz = 1` -/
def zs (h : K) (nz : Nat) : List K :=
  (List.range nz).map fun i =>
    if 1 < nz then (if i + 1 = nz then h else NatEmb.ofNat i * (h / NatEmb.ofNat (nz - 1)))
    else NatEmb.ofNat i * h

/-- `dz = h / nz` -/
def dz (p : Panel K) : K := p.h / NatEmb.ofNat p.nz
/-- `dtheta = 2.0 * pi / nt` -/
def dtheta (pi : K) (p : Panel K) : K := 2.0 * pi / NatEmb.ofNat p.nt
/-- `ntube = sum(weights)`: the number of *actual* tubes -/
def ntube (p : Panel K) : K := lsum p.weights

/-- `mean_temperature`: `(T_tube + T_start) / 2.0` -/
def tMean (Ts Tt : K) : K := (Tt + Ts) / 2.0

/-- one entry of `Q_mass`: `weights * mdot / ntube * cp(T_mean) * (T_tube - T_start)` -/
def qMassTube (fl : FluidFns K) (p : Panel K) (w Ts Tt : K) : K :=
  w * p.mdot / ntube p * fl.cp (tMean Ts Tt) * (Tt - Ts)

/-- one entry of `flow_rates`: `mdot / (ntube * pi * rho(T_mean) * ri**2.0)` -/
def flowRate (fl : FluidFns K) (pi : K) (p : Panel K) (Ts Tt : K) : K :=
  p.mdot / (ntube p * pi * fl.rho (tMean Ts Tt) * (p.ri * p.ri))

/-- the reported fluid temperature of a tube at height `z`:
`(T_tube - T_start) / h * z + T_start` -/
def fluidTemp (p : Panel K) (Ts Tt z : K) : K := (Tt - Ts) / p.h * z + Ts

/-- one row of `fluid_temperatures`: the profile on `zs` -/
def fluidProfile (p : Panel K) (Ts Tt : K) : List K := (zs p.h p.nz).map (fluidTemp p Ts Tt)

/-- the film coefficient of a tube: `film_coefficient(T_mean, u, ri)` -/
def filmTube (fl : FluidFns K) (pi : K) (p : Panel K) (Ts Tt : K) : K :=
  fl.film (tMean Ts Tt) (flowRate fl pi p Ts Tt) p.ri

/-- one entry of `Q_conv`:
`ri * dz * dtheta * Σ_θ Σ_z weights * h_film * (T_metal[θ,z] - T_fluid[z])` -/
def qConvTube (fl : FluidFns K) (pi : K) (p : Panel K) (w Ts Tt : K) (metal : List (List K)) : K :=
  p.ri * dz p * dtheta pi p *
    lsum (metal.map fun row =>
      lsum (List.zipWith (fun tm tf => w * filmTube fl pi p Ts Tt * (tm - tf)) row
        (fluidProfile p Ts Tt)))

/-- `SimplePanelLink.residual`: `Q_mass - Q_conv`, one entry per explicitly represented tube -/
def panelResidual (fl : FluidFns K) (pi : K) (p : Panel K) (Ts : K) (Tt : List K) : List K :=
  List.zipWith (fun w (Tm : K × List (List K)) =>
      qMassTube fl p w Ts Tm.1 - qConvTube fl pi p w Ts Tm.1 Tm.2) p.weights (Tt.zip p.metal)

/-- `ManifoldLink.residual`: `sum(weights * T_in) / ntube - T_out` -/
def manifoldResidual (ws : List K) (Tin : List K) (Tout : K) : K :=
  lsum (List.zipWith (fun w T => w * T) ws Tin) / lsum ws - Tout

/-- `StartLink.residual`: `T_end - T_inlet(t)` -/
def startResidual (Tinlet Tend : K) : K := Tend - Tinlet

/-- residual of one link given `T[dofs_prev]`, `T[dofs]`; `none` when the shapes are not the ones
a chain built by `add_panel` produces -/
def linkResidual (fl : FluidFns K) (pi : K) : Link K → List K → List K → Option (List K)
  | .start Tin, _, [T] => some [startResidual Tin T]
  | .panel p, [Ts], Tt =>
    if Tt.length = p.weights.length ∧ p.metal.length = p.weights.length then
      some (panelResidual fl pi p Ts Tt) else none
  | .manifold ws, Tin, [To] => if Tin.length = ws.length then some [manifoldResidual ws Tin To] else none
  | _, _, _ => none

/-- the loop of `RJ`: residual of every link, written at its dofs (the dofs tile `[0, nvals)` in
order, so the residual vector is the concatenation) -/
def residualGo (fl : FluidFns K) (pi : K) (T : List K) :
    List Nat → List (Link K × List Nat) → Option (List (List K))
  | _, [] => some []
  | prev, (obj, dofs) :: rest => do
    let Tp ← gather T prev
    let Tc ← gather T dofs
    let r ← linkResidual fl pi obj Tp Tc
    let rs ← residualGo fl pi T dofs rest
    some (r :: rs)

/-- per-link residual vectors of a chain -/
def chainResidual (fl : FluidFns K) (pi : K) (chain : List (Link K)) (T : List K) :
    Option (List (List K)) :=
  residualGo fl pi T [] (chain.zip (dofMap (chain.map Link.size)))

/-- what `recover_tube_results` reports for one panel -/
structure Rec (K : Type) where
  flow  : List K            -- `flow_rates`: one velocity per tube
  temps : List (List K)     -- `fluid_temperatures`: one profile per tube

def recoverPanel (fl : FluidFns K) (pi : K) (p : Panel K) (Ts : K) (Tt : List K) : Rec K :=
  ⟨Tt.map (flowRate fl pi p Ts), Tt.map (fluidProfile p Ts)⟩

/-- the loop of `recover_tube_results`: `i % 2 == 1` selects the panels -/
def recoverGo (fl : FluidFns K) (pi : K) (T : List K) :
    Nat → List Nat → List (Link K × List Nat) → Option (List (Rec K))
  | _, _, [] => some []
  | i, prev, (obj, dofs) :: rest => do
    let rs ← recoverGo fl pi T (i + 1) dofs rest
    if i % 2 = 1 then
      match obj, ← gather T prev, ← gather T dofs with
      | .panel p, [Ts], Tt => some (recoverPanel fl pi p Ts Tt :: rs)
      | _, _, _ => none
    else some rs

def recover (fl : FluidFns K) (pi : K) (chain : List (Link K)) (T : List K) : Option (List (Rec K)) :=
  recoverGo fl pi T 0 [] (chain.zip (dofMap (chain.map Link.size)))

end

/-! ### line protocol -/
open SrModel.Proto SrModel.Fluid

def fluidFns (f : Fluid Float) : FluidFns Float := ⟨Fluid.cp f, Fluid.rho f, Fluid.film f⟩

def chunks {α : Type} (n : Nat) (xs : List α) : List (List α) :=
  if n = 0 then [] else
    let rec go (fuel : Nat) (xs : List α) : List (List α) :=
      match fuel with
      | 0 => []
      | fuel + 1 => if xs.isEmpty then [] else xs.take n :: go fuel (xs.drop n)
    go xs.length xs

/-- panels: groups of 7 words `weights ri h nt nz mdot metal(flat [tube][θ][z])` -/
def parsePanels : List String → Option (List (Panel Float))
  | [] => some []
  | ws :: ri :: h :: nt :: nz :: mdot :: metal :: rest => do
    let ws ← parseFs ws
    let nt ← nt.toNat?
    let nz ← nz.toNat?
    let flat ← parseFs metal
    if flat.length ≠ ws.length * nt * nz ∨ nt = 0 ∨ nz = 0 then none
    let metal := (chunks (nt * nz) flat).map (chunks nz)
    let p : Panel Float := ⟨ws, ← parseF ri, ← parseF h, nt, nz, ← parseF mdot, metal⟩
    let ps ← parsePanels rest
    some (p :: ps)
  | _ => none

def showLL (xss : List (List Float)) : String := "|".intercalate (xss.map showFs)

/-- `c14dof <sizes>` answers the dof map `0|1,2|3`.
`c14 <film_min> <T_max> <T_min> <cutoff> <laminar_value> <cp> <rho> <mu> <k> <pi> <T_inlet>
 <T vector> {<weights> <ri> <h> <nt> <nz> <mdot> <metal>}*` answers
`<per-link residuals a|b,c|d> <dof map> <flow rates per panel a,b|c> <profiles: panels '|', tubes ';'>` -/
def handle : List String → Option String
  | ["c14dof", sizes] => do
    let ss ← parseNats sizes
    some ("|".intercalate ((dofMap ss).map showNats))
  | "c14" :: fm :: tmax :: tmin :: cut :: lam :: cps :: rhos :: mus :: ks :: pi :: tin :: T :: rest => do
    let p : Params Float := ⟨← parseF fm, ← parseF tmax, ← parseF tmin, ← parseF cut, ← parseF lam⟩
    let f : Fluid Float := ⟨← parseFs cps, ← parseFs rhos, ← parseFs mus, ← parseFs ks, p⟩
    let pi ← parseF pi
    let T ← parseFs T
    let ps ← parsePanels rest
    let chain := mkChain (← parseF tin) ps
    let dm := dofMap (chain.map Link.size)
    if T.length ≠ nvals (chain.map Link.size) then none
    let R ← chainResidual (fluidFns f) pi chain T
    let rec_ ← recover (fluidFns f) pi chain T
    some (" ".intercalate [showLL R, "|".intercalate (dm.map showNats),
      showLL (rec_.map (·.flow)),
      "|".intercalate (rec_.map fun r => ";".intercalate (r.temps.map showFs))])
  | _ => none

end SrModel.Flowpath
