/-!
# The imposed displacement through the sub-increments of `PythonTubeSolver.solve`

`PythonTubeSolver.solve` hands every accepted sub-increment the imposed top displacement
`dtop * sf` (`sf` = end fraction of that sub-increment) and the state left by the previous
sub-increment, and returns the state of the **last** sub-increment, whose `stiffness` is the
derivative of that sub-increment's force with respect to *its own* imposed displacement, the
incoming state held fixed.

To say what that number is relative to `dF/d(dtop)` of the step, the material is taken to be the
simplest one with memory: a Maxwell bar (modulus `E`, viscosity `η`) integrated by backward Euler,
exactly the scheme of the real constitutive update for a linear-viscous creep law:

    σ_k = E (ε f_k − v_k),   v_k = v_{k−1} + c_k σ_k,   c_k = Δt_k / η

so `σ_k = E β_k (ε f_k − v_{k−1})` with `β_k = 1/(1 + E c_k)`.  `c_k = 0` is an elastic material.
Scalar-polymorphic, core Lean only.
-/
namespace SrModel.Substep

/-- an accepted sub-increment: its end fraction `sf` and `Δt/η` -/
structure Inc (K : Type) where
  f : K
  c : K

variable {K : Type} [Add K] [Sub K] [Mul K] [Div K] [OfNat K 0] [OfNat K 1]

def beta (E : K) (i : Inc K) : K := 1 / (1 + E * i.c)

/-- state carried along the loop: last stress, viscous strain, last reported tangent -/
structure St (K : Type) where
  sig : K
  v : K
  tan : K

/-- one sub-increment with imposed strain `eps * i.f` -/
def incr (E eps : K) (s : St K) (i : Inc K) : St K :=
  let σ := E * beta E i * (eps * i.f - s.v)
  { sig := σ, v := s.v + i.c * σ, tan := E * beta E i }

/-- the loop over the accepted sub-increments -/
def run (E eps : K) (s0 : St K) (incs : List (Inc K)) : St K := incs.foldl (incr E eps) s0

/-- sensitivity of the viscous strain to the imposed strain of the step, `∂v/∂ε` -/
def sensStep (E : K) (w : K) (i : Inc K) : K :=
  let γ := i.c * (E * beta E i)
  (1 - γ) * w + γ * i.f

def sens (E : K) (incs : List (Inc K)) : K := incs.foldl (sensStep E) 0

end SrModel.Substep
