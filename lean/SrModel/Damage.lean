import SrModel.Proto
/-!
# Model of the metallic creep-fatigue life estimate
(`srlife/damage.py`, `DamageCalculator` / `TimeFractionInteractionDamage`, and the three look-ups of
`srlife/materials.py` `StructuralMaterial`).

Every numeric function is written once, polymorphic in the scalar `K`; it is *executed* on `Float`
(correspondence with /repo, `handle` below) and *proved about* on an arbitrary linearly ordered field
(`SrProofs/Damage.lean`, `SrProps/C01.lean`, `SrProps/C09.lean`).  The transcendental functions
(`sqrt`, `log10`, `10^x`) enter through the small class `Transc`; the theorems hold for every
interpretation of them (they never look inside), the executable model uses libm.

Choices that follow the code rather than the prose of the property (recorded here once):
* `creepCycle`: the rupture time is taken at the **end** of each time interval (`tR[1:]`);
* `cycleFatigue`: the window of cycle `i` is the half-open index range `[inds[i], inds[i+1])` — the
  last time point of a day belongs to the next day, the very last time point to no day;
* the creep sum of cycle `i` runs over the *intervals* `inds[i] … inds[i+1]-1`, i.e. over the time
  points `inds[i] … inds[i+1]` inclusive;
* `extrapLast`: `int(N)` truncation, `N < len(D) - 1` switch, `sum(D[:-1]) + D[-1]*N` beyond it;
* `insideEnv`: closed envelope (`<=`), first segment iff `f < x₂`;
* `brentq` on `[1, 10⁶]` is replaced by the closed-form crossing `Ncross` (lumped mode; the
  extrapolated damage is a ray through the origin) and by an integer bisection (last-cycle mode;
  the extrapolated damage only depends on `⌊N⌋`).
* negative damage fractions make `inside_envelope` raise; they cannot arise from `dt > 0`,
  `tR > 0`, `Nf > 0` and are outside the model (the theorems carry `0 ≤ f`, `0 ≤ c`).
* the `poly` extrapolation mode is not modelled (not in the property's quantifier).

Core Lean only (no Mathlib) so that the line-protocol driver can run it.
-/
namespace SrModel.Damage

/-- the transcendental functions the damage model needs -/
class Transc (K : Type) where
  sqrt : K → K
  log10 : K → K
  /-- `10 ** x` -/
  pow10 : K → K

instance : Transc Float := ⟨Float.sqrt, Float.log10, fun x => Float.pow 10.0 x⟩
instance : NatCast Float := ⟨Float.ofNat⟩

/-- the six stored components of a symmetric tensor, in the order srlife stores them
(`_xx, _yy, _zz, _yz, _xz, _xy`; shear entries are *tensor* components) -/
structure Sym6 (K : Type) where
  xx : K
  yy : K
  zz : K
  yz : K
  xz : K
  xy : K
deriving Repr

/-- one time point of one material point: stress, mechanical strain, temperature -/
structure Sample (K : Type) where
  stress : Sym6 K
  strain : Sym6 K
  temp : K

/-- one curve of `nominalFatigue`: valid up to temperature `T`, polynomial in `log10 Δε` with
coefficients `a` and (integer) exponents `n`, strain-range cut-off -/
structure Curve (K : Type) where
  T : K
  a : List K
  n : List Nat
  cutoff : K

/-- result of `calculate_max_cycles`: `0`, a root in `[1, 10⁶]`, or `np.inf` -/
inductive Life (K : Type) where
  | zero
  | finite (n : K)
  | unbounded
deriving Repr

variable {K : Type} [Add K] [Sub K] [Mul K] [Div K] [LT K] [LE K] [DecidableLT K] [DecidableLE K]
  [Max K] [Min K] [BEq K] [NatCast K] [OfNat K 0] [OfNat K 1] [OfNat K 2] [OfNat K 3] [OfNat K 6]
  [OfNat K 1000000] [Transc K]

def sq (x : K) : K := x * x

/-- `x ** m` for a natural exponent -/
def npow (x : K) : Nat → K
  | 0 => 1
  | m + 1 => npow x m * x

def sumL : List K → K
  | [] => 0
  | x :: xs => x + sumL xs

/-! ### effective stress and creep damage -/

/-- the argument of the square root in `creep_damage` -/
def vonMisesSq (s : Sym6 K) : K :=
  (sq (s.xx - s.yy) + sq (s.yy - s.zz) + sq (s.zz - s.xx)
    + 6 * (sq s.xy + sq s.yz + sq s.xz)) / 2

/-- von Mises effective stress exactly as `creep_damage` computes it -/
def vonMises (s : Sym6 K) : K := Transc.sqrt (vonMisesSq s)

/-- `Σ b * l ** m` (the Larson-Miller / fatigue polynomials), accumulated in the code's order -/
def polyLog (a : List K) (n : List Nat) (l : K) : K :=
  (a.zip n).foldl (fun acc bm => acc + bm.1 * npow l bm.2) 0

/-- `StructuralMaterial.time_to_rupture`.  Zero stress gives `np.inf` in the code; `1/0` is `+∞` on
`Float` (`dt/∞ = 0`) and `0` in a field (`dt/0 = 0`): either way the step adds no creep damage. -/
def ruptureTime (C : K) (a : List K) (n : List Nat) (T s : K) : K :=
  if s == 0 then 1 / 0 else Transc.pow10 (polyLog a n (Transc.log10 s) / T - C)

/-- time-fraction sum of one cycle.  The list holds the samples `(t, σ, T)` at the time points of
the cycle, first to last inclusive; interval `k` contributes `(t_{k+1} - t_k) / tR(T_{k+1}, σ_{k+1})`
— the rupture time at the **end** of the interval (`dts / tR[1:]`), so the first sample only
supplies its time. -/
def creepCycle (tR : K → K → K) : List (K × Sym6 K × K) → K
  | [] => 0
  | x :: rest =>
    match rest with
    | [] => 0
    | y :: _ => (y.1 - x.1) / tR y.2.2 (vonMises y.2.1) + creepCycle tR rest

/-! ### cycle windows (`id_cycles`) -/

/-- indices of the entries satisfying `p` (`np.where(tm == 0)[0]`) -/
def indicesWhere {α} (p : α → Bool) : List α → Nat → List Nat
  | [], _ => []
  | x :: xs, i => if p x then i :: indicesWhere p xs (i + 1) else indicesWhere p xs (i + 1)

/-- consecutive pairs `(inds[i], inds[i+1])` -/
def pairUp : List Nat → List (Nat × Nat)
  | [] => []
  | a :: rest =>
    match rest with
    | [] => []
    | b :: _ => (a, b) :: pairUp rest

/-- `id_cycles`: `none` is the `ValueError` (number of period multiples ≠ days + 1) -/
def cycleWindows {α} (isMultiple : α → Bool) (times : List α) (days : Nat) : Option (List (Nat × Nat)) :=
  let inds := indicesWhere isMultiple times 0
  if inds.length == days + 1 then some (pairUp inds) else none

/-- `np.mod(t, period) == 0` on the exact rational values of the floats (`fmod` is exact) -/
def isMultipleQ (period t : Rat) : Bool :=
  if period == 0 then false else (t / period).den == 1

/-! ### strain range and fatigue damage -/

/-- multiply the stored shear components by the engineering factor 2
(`strain_factors = [1, 1, 1, 2, 2, 2]`) -/
def engineering (e : Sym6 K) : Sym6 K :=
  ⟨1 * e.xx, 1 * e.yy, 1 * e.zz, 2 * e.yz, 2 * e.xz, 2 * e.xy⟩

def Sym6.sub (a b : Sym6 K) : Sym6 K :=
  ⟨a.xx - b.xx, a.yy - b.yy, a.zz - b.zz, a.yz - b.yz, a.xz - b.xz, a.xy - b.xy⟩

def Sym6.add (a b : Sym6 K) : Sym6 K :=
  ⟨a.xx + b.xx, a.yy + b.yy, a.zz + b.zz, a.yz + b.yz, a.xz + b.xz, a.xy + b.xy⟩

/-- the argument of the inner square root of `cycle_fatigue`, `d` being a difference of
*engineering* strains -/
def eqRangeSq (d : Sym6 K) : K :=
  sq (d.xx - d.yy) + sq (d.yy - d.zz) + sq (d.zz - d.xx)
    + 3 / 2 * (sq d.yz + sq d.xz + sq d.xy)

/-- equivalent strain range between two time points (stored tensor strains `ei`, `ej`), exactly as
`cycle_fatigue` with `nu = 0.5`: `sqrt 2 / (2 (1 + ν)) * sqrt(…)` -/
def eqRange (ei ej : Sym6 K) : K :=
  Transc.sqrt (2 : K) / (2 * (1 + 1 / 2))
    * Transc.sqrt (eqRangeSq (Sym6.sub (engineering ej) (engineering ei)))

/-- `pt_eranges`: running maximum, starting from 0, over all ordered pairs of time points -/
def maxRange (es : List (Sym6 K)) : K :=
  es.foldl (fun acc ei => es.foldl (fun acc' ej => max acc' (eqRange ei ej)) acc) 0

/-- `np.max(temperatures, axis=0)` -/
def maxTemp : List K → K
  | [] => 0
  | x :: xs => xs.foldl max x

/-- fatigue damage of one cycle: `1 / Nf(max T, max Δε_eq)`; `win` = the samples (strain, temperature)
of the half-open window -/
def cycleFatigue (Nf : K → K → K) (win : List (Sym6 K × K)) : K :=
  1 / Nf (maxTemp (win.map (·.2))) (maxRange (win.map (·.1)))

/-- the curve `cycles_to_fail` uses at temperature `T`: after sorting by `T`, the first with
`temp ≤ T[i]`, i.e. the one with the least `T` among those with `temp ≤ T`.  `none`: the
`ValueError` "temperature is out of range". -/
def selectCurve (curves : List (Curve K)) (temp : K) : Option (Curve K) :=
  curves.foldl (fun best c =>
    if temp ≤ c.T then
      match best with
      | none => some c
      | some b => if c.T < b.T then some c else some b
    else best) none

/-- `StructuralMaterial.cycles_to_fail` -/
def cyclesToFail? (curves : List (Curve K)) (temp erange : K) : Option K :=
  match selectCurve curves temp with
  | none => none
  | some c =>
    let e := if erange ≤ c.cutoff then c.cutoff else erange
    some (Transc.pow10 (polyLog c.a c.n (Transc.log10 e)))

/-- total version for the composition (the handler tests the range first) -/
def cyclesToFail (curves : List (Curve K)) (temp erange : K) : K :=
  (cyclesToFail? curves temp erange).getD 0

/-! ### extrapolation to `N` cycles (`make_extrapolate`) -/

/-- "lump": `N * np.sum(D) / len(D)` -/
def extrapLump (D : List K) (N : K) : K := N * sumL D / (D.length : K)

/-- "last", after `N = int(N)`: `sum(D[:N])` if `N < len(D) - 1`, else `sum(D[:-1]) + D[-1] * N` -/
def extrapLast (D : List K) (n : Nat) : K :=
  if n < D.length - 1 then sumL (D.take n) else sumL D.dropLast + D.getLastD 0 * (n : K)

/-! ### interaction envelope and life of one point -/

/-- `StructuralMaterial.inside_envelope` with knee `(x₂, y₂)`, written with the code's
`x₁ = 0, y₁ = 1, x₃ = 1, y₃ = 0` -/
def insideEnv (x2 y2 f c : K) : Bool :=
  if f < x2 then decide (c ≤ (y2 - 1) / (x2 - 0) * (f - 0) + 1)
  else decide (c ≤ (0 - y2) / (1 - x2) * (f - x2) + y2)

/-- closed form of the largest `N` with `N·(f, c)` inside the envelope: the ray meets the first
segment when it passes above the knee (`y₂ f < x₂ c`), the second otherwise -/
def Ncross (x2 y2 f c : K) : K :=
  if y2 * f < x2 * c then x2 / (x2 * c + (1 - y2) * f) else y2 / ((1 - x2) * c + y2 * f)

def repMin : K := 1
def repMax : K := 1000000

/-- `calculate_max_cycles`, lumped extrapolation; the root of `brentq` is the closed-form crossing
for the per-cycle damages `(Df(1), Dc(1))` -/
def maxCyclesLump (x2 y2 : K) (Df Dc : List K) : Life K :=
  if !insideEnv x2 y2 (extrapLump Df repMin) (extrapLump Dc repMin) then .zero
  else if insideEnv x2 y2 (extrapLump Df repMax) (extrapLump Dc repMax) then .unbounded
  else .finite (Ncross x2 y2 (extrapLump Df 1) (extrapLump Dc 1))

/-- integer bisection: `g lo = true`, `g hi = false`; returns the end of the last bracket -/
def bisect (g : Nat → Bool) : Nat → Nat → Nat → Nat
  | 0, _, hi => hi
  | fuel + 1, lo, hi =>
    if hi ≤ lo + 1 then hi
    else
      let mid := (lo + hi) / 2
      if g mid then bisect g fuel mid hi else bisect g fuel lo mid

/-- `calculate_max_cycles`, last-cycle extrapolation: the extrapolated damage depends on `⌊N⌋`
only, so membership is a step function of `N`; the root `brentq` converges to is the first integer
that is outside (20 halvings cover `[1, 10⁶]`). -/
def maxCyclesLast (x2 y2 : K) (Df Dc : List K) : Life K :=
  let g := fun n : Nat => insideEnv x2 y2 (extrapLast Df n) (extrapLast Dc n)
  if !g 1 then .zero
  else if g 1000000 then .unbounded
  else .finite ((bisect g 20 1 1000000 : Nat) : K)

inductive Mode where
  | lump
  | last
deriving Repr, DecidableEq

def maxCycles (m : Mode) (x2 y2 : K) (Df Dc : List K) : Life K :=
  match m with
  | .lump => maxCyclesLump x2 y2 Df Dc
  | .last => maxCyclesLast x2 y2 Df Dc

/-- Python's `min` on `0 | float | inf` -/
def Life.min : Life K → Life K → Life K
  | .zero, _ => .zero
  | _, .zero => .zero
  | .unbounded, b => b
  | a, .unbounded => a
  | .finite a, .finite b => .finite (Min.min a b)

def lifeMin (l : List (Life K)) : Life K := l.foldr Life.min .unbounded

/-! ### composition: point, tube, receiver -/

def slice {α} (l : List α) (a n : Nat) : List α := (l.drop a).take n

/-- samples `(t, σ, T)` of the time points `w.1 … w.2` inclusive -/
def creepWindow (times : List K) (hist : List (Sample K)) (w : Nat × Nat) : List (K × Sym6 K × K) :=
  slice (times.zip (hist.map fun s => (s.stress, s.temp))) w.1 (w.2 - w.1 + 1)

/-- samples `(ε, T)` of the time points `w.1 … w.2 - 1` -/
def fatigueWindow (hist : List (Sample K)) (w : Nat × Nat) : List (Sym6 K × K) :=
  slice (hist.map fun s => (s.strain, s.temp)) w.1 (w.2 - w.1)

/-- per-cycle creep damages of one point (`creep_damage[:, e, q]`) -/
def pointCreep (tR : K → K → K) (times : List K) (wins : List (Nat × Nat)) (hist : List (Sample K)) :
    List K :=
  wins.map fun w => creepCycle tR (creepWindow times hist w)

/-- per-cycle fatigue damages of one point (`fatigue_damage[:, e, q]`) -/
def pointFatigue (Nf : K → K → K) (wins : List (Nat × Nat)) (hist : List (Sample K)) : List K :=
  wins.map fun w => cycleFatigue Nf (fatigueWindow hist w)

def pointLife (m : Mode) (x2 y2 : K) (tR Nf : K → K → K) (times : List K) (wins : List (Nat × Nat))
    (hist : List (Sample K)) : Life K :=
  maxCycles m x2 y2 (pointFatigue Nf wins hist) (pointCreep tR times wins hist)

/-- a tube: its time points, its cycle windows and the histories of its material points
(element-major, quadrature point minor — the order of `reshape(nc, -1)`) -/
structure Tube (K : Type) where
  times : List K
  wins : List (Nat × Nat)
  points : List (List (Sample K))

/-- `single_cycles`: minimum over the material points of a tube -/
def tubeLife (m : Mode) (x2 y2 : K) (tR Nf : K → K → K) (t : Tube K) : Life K :=
  lifeMin (t.points.map (pointLife m x2 y2 tR Nf t.times t.wins))

/-- `determine_life`: minimum over the tubes -/
def receiverLife (m : Mode) (x2 y2 : K) (tR Nf : K → K → K) (tubes : List (Tube K)) : Life K :=
  lifeMin (tubes.map (tubeLife m x2 y2 tR Nf))

/-! ### line protocol (Float) -/
section proto
open SrModel.Proto

/-- exact rational value of a finite float -/
def floatToRat (x : Float) : Option Rat :=
  let b : Nat := x.toBits.toNat
  let sign : Int := if b / 2 ^ 63 == 1 then -1 else 1
  let e : Nat := (b / 2 ^ 52) % 2048
  let m : Nat := b % 2 ^ 52
  if e == 2047 then none
  else if e == 0 then some (((sign * Int.ofNat m : Int) : Rat) / ((2 : Rat) ^ 1074))
  else
    let mant : Int := sign * Int.ofNat (m + 2 ^ 52)
    if e ≥ 1075 then some ((mant * (2 : Int) ^ (e - 1075) : Int) : Rat)
    else some ((mant : Rat) / ((2 : Rat) ^ (1075 - e)))

def showLife : Life Float → String
  | .zero => "zero"
  | .unbounded => "inf"
  | .finite x => "f" ++ showF x

def parseMode : String → Option Mode
  | "lump" => some .lump
  | "last" => some .last
  | _ => none

/-- `T:cutoff:a1,a2,…:n1,n2,…` -/
def parseCurve (s : String) : Option (Curve Float) :=
  match s.splitOn ":" with
  | [T, cut, a, n] =>
    match parseF T, parseF cut, parseFs a, parseNats n with
    | some T, some cut, some a, some n => some ⟨T, a, n, cut⟩
    | _, _, _, _ => none
  | _ => none

def parseCurves (s : String) : Option (List (Curve Float)) :=
  (s.splitOn ";").mapM parseCurve

/-- split a flat list into chunks of `k` -/
def chunks {α} (k : Nat) : Nat → List α → List (List α)
  | 0, _ => []
  | fuel + 1, l => if l.isEmpty then [] else l.take k :: chunks k fuel (l.drop k)

def mkSample : List Float → Option (Sample Float)
  | [sxx, syy, szz, syz, sxz, sxy, exx, eyy, ezz, eyz, exz, exy, T] =>
    some ⟨⟨sxx, syy, szz, syz, sxz, sxy⟩, ⟨exx, eyy, ezz, eyz, exz, exy⟩, T⟩
  | _ => none

structure Material where
  C : Float
  ra : List Float
  rn : List Nat
  curves : List (Curve Float)
  x2 : Float
  y2 : Float

/-- tube data: `times` (bit patterns) and a flat array `[point][time][13]` -/
def parseTube (period : Rat) (days : Nat) (times data : String) :
    Option (Option (Tube Float)) := do
  let ts ← parseFs times
  let qs ← ts.mapM floatToRat
  let flat ← parseFs data
  let nt := ts.length
  if nt == 0 then none
  let samples ← (chunks 13 flat.length flat).mapM mkSample
  let pts := chunks nt samples.length samples
  if pts.any (fun p => p.length != nt) then none
  match cycleWindows (isMultipleQ period) qs days with
  | none => pure none
  | some wins => pure (some ⟨ts, wins, pts⟩)

/-- every fatigue look-up of the tube has a curve (else the code raises) -/
def tempsInRange (mat : Material) (t : Tube Float) : Bool :=
  t.points.all fun hist => t.wins.all fun w =>
    (selectCurve mat.curves (maxTemp ((fatigueWindow hist w).map (·.2)))).isSome

def showWins (w : List (Nat × Nat)) : String :=
  match w with
  | [] => "-"
  | (a, _) :: _ => showNats (a :: w.map (·.2))

def tubeAnswer (m : Mode) (mat : Material) (t : Tube Float) : String :=
  let tR := ruptureTime mat.C mat.ra mat.rn
  let Nf := cyclesToFail mat.curves
  let dc := t.points.map (pointCreep tR t.times t.wins)
  let df := t.points.map (pointFatigue Nf t.wins)
  let lives := t.points.map (pointLife m mat.x2 mat.y2 tR Nf t.times t.wins)
  s!"{showWins t.wins}|{showFs dc.flatten}|{showFs df.flatten}|" ++
    ",".intercalate (lives.map showLife) ++ "|" ++ showLife (tubeLife m mat.x2 mat.y2 tR Nf t)

def parseTubes (period : Rat) (days : Nat) : List String → Option (List (Option (Tube Float)))
  | [] => some []
  | times :: data :: rest => do
    let t ← parseTube period days times data
    let ts ← parseTubes period days rest
    pure (t :: ts)
  | _ => none

def allSome {α} : List (Option α) → Option (List α)
  | [] => some []
  | none :: _ => none
  | some x :: xs => (allSome xs).map (x :: ·)

/-- line protocol
* `dmg.recv <mode> <period> <days> <C> <a> <n> <curves> <x2> <y2> (<times> <data>)*` →
  `ok <receiver life> ; <tube answer> ; …` | `raise cycles` | `raise temp`
  (tube answer = `inds|Dc[point][day]|Df[point][day]|point lives|tube life`)
* `dmg.max <mode> <x2> <y2> <Df> <Dc>` → life of one point from its per-cycle damages
* `dmg.inside <x2> <y2> <f> <c>` → `1`/`0`
* `dmg.ncross <x2> <y2> <f> <c>` → float
* `dmg.vm <6 floats>` / `dmg.eq <6 floats ei> <6 floats ej>` → float
* `dmg.min <life>,…` → life -/
def handle : List String → Option String
  | "dmg.recv" :: mode :: period :: days :: C :: a :: n :: curves :: x2 :: y2 :: rest => do
    let m ← parseMode mode
    let p ← (parseF period).bind floatToRat
    let d ← days.toNat?
    let mat : Material := ⟨← parseF C, ← parseFs a, ← parseNats n, ← parseCurves curves,
      ← parseF x2, ← parseF y2⟩
    let ots ← parseTubes p d rest
    match allSome ots with
    | none => pure "raise cycles"
    | some ts =>
      if !ts.all (tempsInRange mat) then pure "raise temp"
      else
        let tR := ruptureTime mat.C mat.ra mat.rn
        let Nf := cyclesToFail mat.curves
        pure ("ok " ++ showLife (receiverLife m mat.x2 mat.y2 tR Nf ts) ++
          String.join (ts.map fun t => ";" ++ tubeAnswer m mat t))
  | ["dmg.max", mode, x2, y2, df, dc] => do
    let m ← parseMode mode
    pure (showLife (maxCycles m (← parseF x2) (← parseF y2) (← parseFs df) (← parseFs dc)))
  | ["dmg.inside", x2, y2, f, c] => do
    pure (if insideEnv (← parseF x2) (← parseF y2) (← parseF f) (← parseF c) then "1" else "0")
  | ["dmg.ncross", x2, y2, f, c] => do
    pure (showF (Ncross (← parseF x2) (← parseF y2) (← parseF f) (← parseF c)))
  | ["dmg.vm", s] => do
    match ← parseFs s with
    | [a, b, c, d, e, f] => pure (showF (vonMises (⟨a, b, c, d, e, f⟩ : Sym6 Float)))
    | _ => none
  | ["dmg.eq", s1, s2] => do
    match ← parseFs s1, ← parseFs s2 with
    | [a, b, c, d, e, f], [a', b', c', d', e', f'] =>
      pure (showF (eqRange (⟨a, b, c, d, e, f⟩ : Sym6 Float) ⟨a', b', c', d', e', f'⟩))
    | _, _ => none
  | _ => none

end proto

end SrModel.Damage
