import SrModel.Proto
/-!
# Model of the worker-pool bookkeeping of srlife (property C08)

What is modelled (the *bookkeeping* around `multiprocess.Pool`, nothing of the runtime):

* **a pool** (`gather`): the submitted task list is cut into consecutive chunks of `c` tasks
  (`Pool.map` picks `c = ceil(n / (4·workers))`, `Pool.imap` uses `c = 1`); a worker turns a chunk
  into the list of its results; chunks *complete in an arbitrary order* `order` (a permutation of
  the chunk indices — this is the only thing the scheduler, the number of workers and the
  assignment of chunks to workers can influence); the parent stores every arriving chunk under its
  submission index and hands the results out by increasing index (`MapResult._set`,
  `IMapIterator.next`).  Which worker ran a chunk does not appear: the task function is a *pure*
  function of the pickled task — that is an assumption about fork/pickle, not a theorem.
* **the dispatch rule** of `SpringSystemSolver.solve` (`system.py`): `nprobs < max_sub` → solve the
  sub-problems one after the other in the parent, each with edge-parallel residuals
  (`solve_all(nthreads)`); otherwise ship the sub-problems to a pool (`p.imap(sfn, subproblems)`,
  `sfn = solve_all(1)`).  `max()` of an empty list is Python's `ValueError` (`none`).
* **the edge-parallel residual** of `SpringNetwork.RJ` (`spring.py`): per-edge results
  `(contribution, state)` come from `map` (one thread) or `p.map` (pool); the contributions are
  summed left to right over the *ordered* result list (`sum(r[0] for r in res)`), and the state
  returned for position `k` is installed on edge `k`.
* **copy-back** (`system.py` L118-124, `Tube.copy_results`): for every `(new, orig)` pair, for every
  edge key of `new`, if `orig`'s object at that key is a tube spring, its tube takes the three result
  dictionaries `results`, `quadrature_results`, `axial_results` of the solved copy.
  In the sequential branch `solve_all` returns `self`, so `orig` *is* the solved object.

NOT modelled (lives in the runtime; covered only by the differential executions of
`harness/c08.py`): process creation (`fork`), `dill` pickling of tasks and results, `np.memmap`
semantics (a paged array and an in-memory array are the same abstract dictionary value `D` here —
exactly the place where finding F24 lives), BLAS/OpenMP threading inside a worker, floating point
(no arithmetic happens in this file), and the operating-system scheduler (it is *quantified over*
as `order`, not described).

Core Lean only.
-/
namespace SrModel.Pool

/-! ## 1. A pool: chunking, arbitrary completion order, gather by submission index -/

/-- consecutive chunks of `c` tasks; `fuel` bounds the number of chunks -/
def chunksAux {α} (c : Nat) : Nat → List α → List (List α)
  | 0, _ => []
  | _ + 1, [] => []
  | fuel + 1, x :: xs => (x :: xs).take c :: chunksAux c fuel ((x :: xs).drop c)

/-- `Pool._get_tasks`: the task list cut into chunks of size `c` (the last may be shorter) -/
def chunks {α} (c : Nat) (xs : List α) : List (List α) := chunksAux c xs.length xs

/-- `Pool._map_async`'s default chunk size for `n` tasks and `w` workers -/
def mapChunk (n w : Nat) : Nat :=
  if n % (w * 4) = 0 then n / (w * 4) else n / (w * 4) + 1

/-- first entry stored under index `j` -/
def find? {γ} (j : Nat) : List (Nat × γ) → Option γ
  | [] => none
  | (k, v) :: r => if k = j then some v else find? j r

/-- what arrives at the parent, in completion order: `(chunk index, results of that chunk)` -/
def arrivals {α β} (f : α → β) (c : Nat) (xs : List α) (order : List Nat) : List (Nat × List β) :=
  order.filterMap (fun j => ((chunks c xs)[j]?).map (fun ch => (j, ch.map f)))

/-- results handed out by increasing submission index -/
def place {γ} (n : Nat) (arr : List (Nat × γ)) : List γ :=
  (List.range n).filterMap (fun j => find? j arr)

/-- what `p.map(f, xs)` / `list(p.imap(f, xs))` return when the chunks complete in `order` -/
def gather {α β} (f : α → β) (c : Nat) (xs : List α) (order : List Nat) : List β :=
  (place (chunks c xs).length (arrivals f c xs order)).flatten

/-- a schedule is any permutation of the chunk indices -/
def ValidOrder {α} (c : Nat) (xs : List α) (order : List Nat) : Prop :=
  order.Perm (List.range (chunks c xs).length)

/-! ## 2. The dispatch heuristic of `SpringSystemSolver.solve` -/

inductive Branch where
  | sequential   -- sub-problems one by one in the parent, edges in parallel
  | parallel     -- sub-problems in a pool, each with `solve_all(1)`
deriving DecidableEq, Repr

/-- `if nprobs < max_sub:` -/
def dispatch (nprobs maxSub : Nat) : Branch :=
  if nprobs < maxSub then .sequential else .parallel

/-- Python `max(...)`: `none` is the `ValueError` of an empty sequence -/
def maxOf : List Nat → Option Nat
  | [] => none
  | x :: xs => some (xs.foldl max x)

/-- dispatch decision from the tube counts of the sub-problems -/
def dispatchOf (counts : List Nat) : Option Branch :=
  (maxOf counts).map (dispatch counts.length)

/-! ## 3. The residual of `SpringNetwork.RJ` -/

/-- `sum(r[0] for r in res)`: left fold over the ordered result list -/
def sumC {C} (add : C → C → C) (zero : C) (cs : List C) : C := cs.foldl add zero

/-- `for k, edge in enumerate(edges): edge.state_np1 = res[k][2]` -/
def install {E C S} (setState : E → S → E) (es : List E) (res : List (C × S)) : List E :=
  List.zipWith (fun e r => setState e r.2) es res

/-- residual/Jacobian sums and the edges with their new states, from a per-edge result list -/
def rjFrom {E C S} (add : C → C → C) (zero : C) (setState : E → S → E)
    (es : List E) (res : List (C × S)) : C × List E :=
  (sumC add zero (res.map (·.1)), install setState es res)

/-- `nthreads = 1`: `res = list(map(fj, edges))` -/
def rjSeq {E C S} (add : C → C → C) (zero : C) (setState : E → S → E) (fj : E → C × S)
    (es : List E) : C × List E :=
  rjFrom add zero setState es (es.map fj)

/-- `nthreads > 1`: `res = list(p.map(fj, edges))` with chunk size `c`, chunks completing in `order` -/
def rjPar {E C S} (add : C → C → C) (zero : C) (setState : E → S → E) (fj : E → C × S)
    (c : Nat) (order : List Nat) (es : List E) : C × List E :=
  rjFrom add zero setState es (gather fj c es order)

/-- a residual evaluator; the first argument counts the calls (every call makes its own pool and
meets its own schedule) -/
abbrev Eval (E C : Type) := Nat → List E → C × List E

def evalSeq {E C S} (add : C → C → C) (zero : C) (setState : E → S → E) (fj : E → C × S) : Eval E C :=
  fun _ es => rjSeq add zero setState fj es

/-- the evaluator `RJ(·, nthreads)`; `sch k es` is the completion order met by call `k` -/
def evalN {E C S} (add : C → C → C) (zero : C) (setState : E → S → E) (fj : E → C × S)
    (nthreads : Nat) (sch : Nat → List E → List Nat) : Eval E C :=
  fun k es =>
    if 1 < nthreads then rjPar add zero setState fj (mapChunk es.length nthreads) (sch k es) es
    else rjSeq add zero setState fj es

/-! ## 4. Networks, tubes and copy-back -/

/-- the part of a `Tube` that matters here: three result dictionaries and everything else -/
structure Tube (D O : Type) where
  results : D
  quadrature : D
  axial : D
  other : O

/-- `Tube.copy_results` -/
def copyResults {D O} (self other : Tube D O) : Tube D O :=
  { self with results := other.results, quadrature := other.quadrature, axial := other.axial }

inductive Obj (D O Sp : Type) where
  | tube (t : Tube D O)      -- `TubeSpring`
  | spring (s : Sp)          -- `LinearSpring`

def Obj.isTube {D O Sp} : Obj D O Sp → Bool
  | .tube _ => true
  | .spring _ => false

/-- MultiGraph edge key `(i, j, k)` -/
abbrev Key := Nat × Nat × Nat

/-- a (sub-)network as far as copy-back sees it: its keyed edge objects, in edge order -/
abbrev Net (D O Sp : Type) := List (Key × Obj D O Sp)

def findKey? {γ} (k : Key) : List (Key × γ) → Option γ
  | [] => none
  | (k', v) :: r => if k' = k then some v else findKey? k r

/-- body of the copy loop for one key: only a tube spring of `orig` is touched -/
def merge {D O Sp} (o : Obj D O Sp) (o' : Obj D O Sp) : Obj D O Sp :=
  match o, o' with
  | .tube t, .tube t' => .tube (copyResults t t')
  | o, _ => o

def updateAt {D O Sp} (k : Key) (f : Obj D O Sp → Obj D O Sp) (net : Net D O Sp) : Net D O Sp :=
  net.map (fun e => if e.1 = k then (e.1, f e.2) else e)

/-- `for i, j, k in new.edges(keys=True): if isinstance(orig[i][j][k], TubeSpring): ...copy_results(...)` -/
def copyNet {D O Sp} (new orig : Net D O Sp) : Net D O Sp :=
  new.foldl (fun acc e => updateAt e.1 (fun o => merge o e.2) acc) orig

/-- `for new, orig in zip(results, subproblems): ...` -/
def copyBack {D O Sp} (results subs : List (Net D O Sp)) : List (Net D O Sp) :=
  List.zipWith copyNet results subs

/-- the observable: key and three dictionaries of every tube edge -/
def tubeData {D O Sp} (net : Net D O Sp) : List (Key × D × D × D) :=
  net.filterMap (fun e => match e.2 with
    | .tube t => some (e.1, t.results, t.quadrature, t.axial)
    | .spring _ => none)

/-- everything copy-back must leave alone: keys, kinds, springs, the non-result part of tubes -/
def rest {D O Sp} (net : Net D O Sp) : List (Key × (O ⊕ Sp)) :=
  net.map (fun e => (e.1, match e.2 with
    | .tube t => Sum.inl t.other
    | .spring s => Sum.inr s))

/-- keys and kinds of a network -/
def shape {D O Sp} (net : Net D O Sp) : List (Key × Bool) := net.map (fun e => (e.1, e.2.isTube))

def tubeCount {D O Sp} (net : Net D O Sp) : Nat := (net.filter (fun e => e.2.isTube)).length

/-! ## 5. `SpringSystemSolver.solve` -/

/-- the list `results` of `SpringSystemSolver.solve`.
`S ev sub` is `sub.solve_all(...)` run with residual evaluator `ev`;
`evN` is the evaluator with `nthreads` workers, `ev1` the single-thread one;
`order` is the completion order met by `p.imap(sfn, subproblems)` (chunk size 1). -/
def solveResults {N E C} (S : Eval E C → N → N) (evN ev1 : Eval E C) (order : List Nat)
    (count : N → Nat) (subs : List N) : Option (Branch × List N) :=
  (dispatchOf (subs.map count)).map fun
    | .sequential => (.sequential, subs.map (S evN))
    | .parallel => (.parallel, gather (S ev1) 1 subs order)

/-- the sub-problems as the receiver sees them after `solve`.  In the sequential branch
`solve_all` returned `self`, so the originals are the solved objects; in the parallel branch the
originals are untouched until copy-back. -/
def solve {D O Sp E C} (S : Eval E C → Net D O Sp → Net D O Sp) (evN ev1 : Eval E C)
    (order : List Nat) (subs : List (Net D O Sp)) : Option (List (Net D O Sp)) :=
  (solveResults S evN ev1 order tubeCount subs).map fun
    | (.sequential, rs) => copyBack rs rs
    | (.parallel, rs) => copyBack rs subs

/-! ## 6. Line protocol -/

def showBranch : Option Branch → String
  | some .sequential => "sequential"
  | some .parallel => "parallel"
  | none => "error"

/-- * `c08g <n> <chunk> <order csv>`: gather of the tasks `0..n-1` under `f i = 100 + i`;
      answer: the gathered list, or `badorder` when `order` is not a permutation of the chunk indices
  * `c08m <n> <workers>`: default chunk size of `Pool.map`
  * `c08d <tube counts csv | ->`: dispatch decision `sequential | parallel | error`
  * `c08c r q a o r' q' a' o'`: `copy_results` on tagged tubes; answer `r q a o` of the target -/
def handle : List String → Option String
  | ["c08g", n, c, order] =>
    match n.toNat?, c.toNat?, Proto.parseNats order with
    | some n, some c, some order =>
      let xs := List.range n
      if c = 0 then some "badchunk"
      else if order.isPerm (List.range (chunks c xs).length) then
        some (Proto.showNats (gather (fun i => 100 + i) c xs order))
      else some "badorder"
    | _, _, _ => none
  | ["c08m", n, w] =>
    match n.toNat?, w.toNat? with
    | some n, some w => some (toString (mapChunk n w))
    | _, _ => none
  | ["c08d", counts] =>
    (Proto.parseNats counts).map (fun cs => showBranch (dispatchOf cs))
  | ["c08c", r, q, a, o, r', q', a', o'] =>
    match [r, q, a, o, r', q', a', o'].mapM String.toNat? with
    | some [r, q, a, o, r', q', a', o'] =>
      let t := copyResults (⟨r, q, a, o⟩ : Tube Nat Nat) ⟨r', q', a', o'⟩
      some s!"{t.results} {t.quadrature} {t.axial} {t.other}"
    | _ => none
  | _ => none

end SrModel.Pool
