import SrModel.Proto
/-!
# Model of the finite-difference heat-conduction step of `srlife/thermal.py`
(`FiniteDifferenceImplicitThermalProblem.solve_step`).

One implicit step solves, by Newton iteration on a problem that is *linear* in the unknown
temperatures, the system `M·T = R + BC_R(T)`.  Writing `BC_R(T) = J·T + g` (only the convective
walls depend on `T`, linearly), the solver's fixed point is the solution of the *effective*
linear system `(M − J)·T = R + g`.  This file defines that system row by row, exactly as the
code assembles it, on the **ghosted** grid:

* radial index `i = 0 … N+1` (`N = tube.nr` real nodes, ghosts `0` and `N+1`),
* circumferential index `j = 0 … Nt+1` in 2-D/3-D (`j = 0` only in 1-D),
* axial index `k = 0 … Nz+1` in 3-D (`k = 0` only in 1-D/2-D).

The scalar type `K` is a parameter: `Float` for the correspondence with the implementation,
`ℝ` (or any field) for the theorems.  Core Lean only.
-/
namespace SrModel.Thermal

/-- wall condition kinds with their data on the wall nodes `(j,k)` -/
inductive Wall (K : Type) where
  | ins                                        -- `None`: zero flux
  | fix  (v : Nat → Nat → K)                   -- `FixedTempBC`
  | flux (q : Nat → Nat → K)                   -- `HeatFluxBC`
  | conv (tf h : Nat → Nat → K)                -- `ConvectiveBC` / `FilmCoefficientConvectiveBC`

/-- everything `solve_step` uses, after the material has been evaluated on `T_n` -/
structure Prob (K : Type) where
  ndim   : Nat                 -- 1, 2 or 3
  N      : Nat                 -- real radial nodes (tube.nr)
  Nt     : Nat                 -- real circumferential nodes (tube.nt), used when ndim ≥ 2
  Nz     : Nat                 -- real axial nodes (tube.nz), used when ndim = 3
  steady : Bool
  dt     : K
  dr     : K
  dth    : K
  dz     : K
  rr     : Nat → K             -- radius of ghosted radial index
  c      : Nat → Nat → Nat → K -- `self.c`  (diffusivity, or conductivity in steady mode)
  kk     : Nat → Nat → Nat → K -- `self.k`  (conductivity)
  qc     : Nat → Nat → Nat → K -- `self.qc` (a/k, or 1 in steady mode)
  src    : Nat → Nat → Nat → K -- source term at the nodes (0 when there is none)
  Tn     : Nat → Nat → Nat → K -- previous temperatures (ghosted)
  inner  : Wall K
  outer  : Wall K

variable {K : Type} [Add K] [Sub K] [Mul K] [Div K] [Neg K] [OfNat K 0] [OfNat K 1] [OfNat K 2]

/-- ghosted grid sizes `(nr, nt, nz)` as the code holds them in `fdim` -/
def Prob.gnr (P : Prob K) : Nat := P.N + 2
def Prob.gnt (P : Prob K) : Nat := if P.ndim ≥ 2 then P.Nt + 2 else 1
def Prob.gnz (P : Prob K) : Nat := if P.ndim ≥ 3 then P.Nz + 2 else 1
def Prob.ndof (P : Prob K) : Nat := P.gnr * P.gnt * P.gnz

/-- `dof(i,j,k) = i·nt·nz + j·nz + k` -/
def Prob.dof (P : Prob K) (i j k : Nat) : Nat := i * P.gnt * P.gnz + j * P.gnz + k

/-- real (non-ghost) index ranges: `loop_r`, `loop_t`, `loop_z` -/
def Prob.isRealI (P : Prob K) (i : Nat) : Bool := 1 ≤ i && i ≤ P.N
def Prob.isRealJ (P : Prob K) (j : Nat) : Bool := if P.ndim ≥ 2 then 1 ≤ j && j ≤ P.Nt else j == 0
def Prob.isRealK (P : Prob K) (k : Nat) : Bool := if P.ndim ≥ 3 then 1 ≤ k && k ≤ P.Nz else k == 0
def Prob.loopJ (P : Prob K) : List Nat := if P.ndim ≥ 2 then (List.range P.Nt).map (· + 1) else [0]
def Prob.loopK (P : Prob K) : List Nat := if P.ndim ≥ 3 then (List.range P.Nz).map (· + 1) else [0]
def Prob.loopI (P : Prob K) : List Nat := (List.range P.N).map (· + 1)

/-! ### face coefficients (half-node values), as `radial`, `circumfrential`, `axial` form them -/

/-- `r_{i+½}`, the face between radial nodes `i` and `i+1` -/
def Prob.rh (P : Prob K) (i : Nat) : K := (P.rr i + P.rr (i+1)) / 2
/-- `c_{i+½,j,k}` -/
def Prob.ahr (P : Prob K) (i j k : Nat) : K := (P.c i j k + P.c (i+1) j k) / 2
/-- `c_{i,j+½,k}` -/
def Prob.aht (P : Prob K) (i j k : Nat) : K := (P.c i j k + P.c i (j+1) k) / 2
/-- `c_{i,j,k+½}` -/
def Prob.ahz (P : Prob K) (i j k : Nat) : K := (P.c i j k + P.c i j (k+1)) / 2

/-- radial coupling of node `i` to `i-1` and to `i+1`: `rhah / (r·dr²)` -/
def Prob.wrm (P : Prob K) (i j k : Nat) : K := P.rh (i-1) * P.ahr (i-1) j k / (P.rr i * (P.dr * P.dr))
def Prob.wrp (P : Prob K) (i j k : Nat) : K := P.rh i * P.ahr i j k / (P.rr i * (P.dr * P.dr))
/-- circumferential coupling (zero in 1-D): `ah / (r²·dθ²)` -/
def Prob.wtm (P : Prob K) (i j k : Nat) : K :=
  if P.ndim ≥ 2 then P.aht i (j-1) k / (P.rr i * P.rr i * (P.dth * P.dth)) else 0
def Prob.wtp (P : Prob K) (i j k : Nat) : K :=
  if P.ndim ≥ 2 then P.aht i j k / (P.rr i * P.rr i * (P.dth * P.dth)) else 0
/-- axial coupling (zero in 1-D/2-D): `ah / dz²` -/
def Prob.wzm (P : Prob K) (i j k : Nat) : K :=
  if P.ndim ≥ 3 then P.ahz i j (k-1) / (P.dz * P.dz) else 0
def Prob.wzp (P : Prob K) (i j k : Nat) : K :=
  if P.ndim ≥ 3 then P.ahz i j k / (P.dz * P.dz) else 0

/-- a field on the ghosted grid -/
abbrev GField (K : Type) := Nat → Nat → Nat → K

/-- `(A·T)` at a real node: the 7-point conservative stencil -/
def Prob.applyA (P : Prob K) (T : GField K) (i j k : Nat) : K :=
  P.wrm i j k * (T (i-1) j k - T i j k) + P.wrp i j k * (T (i+1) j k - T i j k)
  + (P.wtm i j k * (T i (j-1) k - T i j k) + P.wtp i j k * (T i (j+1) k - T i j k))
  + (P.wzm i j k * (T i j (k-1) - T i j k) + P.wzp i j k * (T i j (k+1) - T i j k))

/-- left-hand side of a real-node row of the effective system -/
def Prob.lhsReal (P : Prob K) (T : GField K) (i j k : Nat) : K :=
  if P.steady then 0 - P.applyA T i j k else T i j k - P.dt * P.applyA T i j k

/-- right-hand side of a real-node row -/
def Prob.rhsReal (P : Prob K) (i j k : Nat) : K :=
  if P.steady then P.qc i j k * P.src i j k else P.qc i j k * P.src i j k * P.dt + P.Tn i j k

/-- inner ghost row (`i = 0`) at wall node `(j,k)`: value of `row·T − rhs` -/
def Prob.innerRes (P : Prob K) (T : GField K) (j k : Nat) : K :=
  match P.inner with
  | .ins      => T 1 j k - T 0 j k
  | .fix v    => T 1 j k - v j k
  | .flux q   => T 1 j k - T 0 j k - (0 - P.dr * q j k / P.kk 1 j k)
  | .conv tf h => T 1 j k - T 0 j k - P.dr * h j k * (T 1 j k - tf j k) / P.kk 1 j k

/-- outer ghost row (`i = N+1`) -/
def Prob.outerRes (P : Prob K) (T : GField K) (j k : Nat) : K :=
  match P.outer with
  | .ins      => T P.N j k - T (P.N+1) j k
  | .fix v    => T P.N j k - v j k
  | .flux q   => T P.N j k - T (P.N+1) j k - (0 - P.dr * q j k / P.kk P.N j k)
  | .conv tf h => T P.N j k - T (P.N+1) j k - P.dr * h j k * (T P.N j k - tf j k) / P.kk P.N j k

/-- `T` satisfies every row of the effective system (the fixed point of the Newton iteration of
`solve_step`).  Dummy (corner) rows are omitted: they only pin unused dofs to zero. -/
def Prob.Solves (P : Prob K) (T : GField K) : Prop :=
  (∀ i j k, P.isRealI i = true → P.isRealJ j = true → P.isRealK k = true →
      P.lhsReal T i j k = P.rhsReal i j k) ∧
  (∀ j k, P.isRealJ j = true → P.isRealK k = true → P.innerRes T j k = 0) ∧
  (∀ j k, P.isRealJ j = true → P.isRealK k = true → P.outerRes T j k = 0) ∧
  (P.ndim ≥ 2 → ∀ i k, P.isRealI i = true → P.isRealK k = true →
      T i 0 k - T i P.Nt k = 0 ∧ T i (P.Nt+1) k - T i 1 k = 0) ∧
  (P.ndim ≥ 3 → ∀ i j, P.isRealI i = true → P.isRealJ j = true →
      T i j 1 - T i j 0 = 0 ∧ T i j P.Nz - T i j (P.Nz+1) = 0)

/-! ### executable assembly: rows as coefficient lists (sorted COO comes from the harness side) -/

structure Row (K : Type) where
  dofi  : Nat
  cols  : List (Nat × K)
  rhs   : K

def Prob.rowReal (P : Prob K) (i j k : Nat) : Row K :=
  let d := P.dof i j k
  let sumw := P.wrm i j k + P.wrp i j k + (P.wtm i j k + P.wtp i j k) + (P.wzm i j k + P.wzp i j k)
  let s : K := if P.steady then 1 else P.dt
  let diag : K := if P.steady then sumw else 1 + P.dt * sumw
  let base := [(d, diag), (P.dof (i-1) j k, 0 - s * P.wrm i j k), (P.dof (i+1) j k, 0 - s * P.wrp i j k)]
  let circ := if P.ndim ≥ 2 then
      [(P.dof i (j-1) k, 0 - s * P.wtm i j k), (P.dof i (j+1) k, 0 - s * P.wtp i j k)] else []
  let ax := if P.ndim ≥ 3 then
      [(P.dof i j (k-1), 0 - s * P.wzm i j k), (P.dof i j (k+1), 0 - s * P.wzp i j k)] else []
  ⟨d, base ++ circ ++ ax, P.rhsReal i j k⟩

def Prob.rowInner (P : Prob K) (j k : Nat) : Row K :=
  let d := P.dof 0 j k
  let d1 := P.dof 1 j k
  match P.inner with
  | .ins      => ⟨d, [(d1, 1), (d, 0 - 1)], 0⟩
  | .fix v    => ⟨d, [(d1, 1)], v j k⟩
  | .flux q   => ⟨d, [(d1, 1), (d, 0 - 1)], 0 - P.dr * q j k / P.kk 1 j k⟩
  | .conv tf h =>
      let b := P.dr * h j k / P.kk 1 j k
      ⟨d, [(d1, 1 - b), (d, 0 - 1)], 0 - b * tf j k⟩

def Prob.rowOuter (P : Prob K) (j k : Nat) : Row K :=
  let d := P.dof (P.N+1) j k
  let d1 := P.dof P.N j k
  match P.outer with
  | .ins      => ⟨d, [(d1, 1), (d, 0 - 1)], 0⟩
  | .fix v    => ⟨d, [(d1, 1)], v j k⟩
  | .flux q   => ⟨d, [(d1, 1), (d, 0 - 1)], 0 - P.dr * q j k / P.kk P.N j k⟩
  | .conv tf h =>
      let b := P.dr * h j k / P.kk P.N j k
      ⟨d, [(d1, 1 - b), (d, 0 - 1)], 0 - b * tf j k⟩

/-- periodic ghost columns `j = 0` (copies real column `Nt`) and `j = Nt+1` (copies column 1) -/
def Prob.rowLeft (P : Prob K) (i k : Nat) : Row K :=
  ⟨P.dof i 0 k, [(P.dof i 0 k, 1), (P.dof i P.Nt k, 0 - 1)], 0⟩
def Prob.rowRight (P : Prob K) (i k : Nat) : Row K :=
  ⟨P.dof i (P.Nt+1) k, [(P.dof i (P.Nt+1) k, 1), (P.dof i 1 k, 0 - 1)], 0⟩
/-- zero-gradient axial ghost planes -/
def Prob.rowTop (P : Prob K) (i j : Nat) : Row K :=
  ⟨P.dof i j 0, [(P.dof i j 1, 1), (P.dof i j 0, 0 - 1)], 0⟩
def Prob.rowBot (P : Prob K) (i j : Nat) : Row K :=
  ⟨P.dof i j (P.Nz+1), [(P.dof i j P.Nz, 1), (P.dof i j (P.Nz+1), 0 - 1)], 0⟩
/-- dummy (corner/edge) dofs: identity rows -/
def Prob.rowDummy (P : Prob K) (i j k : Nat) : Row K := ⟨P.dof i j k, [(P.dof i j k, 1)], 0⟩

/-- value of `row·x − rhs` for a dof-indexed vector `x` -/
def Row.res (r : Row K) (x : Nat → K) : K :=
  r.cols.foldl (fun s cv => s + cv.2 * x cv.1) 0 - r.rhs

def Prob.dummyIdx (P : Prob K) : List (Nat × Nat × Nat) :=
  let er := [0, P.N+1]
  let et := [0, P.Nt+1]
  let ez := [0, P.Nz+1]
  if P.ndim == 2 then
    er.flatMap fun i => et.map fun j => (i, j, 0)
  else if P.ndim == 3 then
    let fullZ := List.range (P.Nz+2)
    let fullR := List.range (P.N+2)
    let fullT := List.range (P.Nt+2)
    (er.flatMap fun i => et.flatMap fun j => fullZ.map fun k => (i, j, k))
    ++ (fullR.flatMap fun i => et.flatMap fun j => ez.map fun k => (i, j, k))
    ++ (er.flatMap fun i => fullT.flatMap fun j => ez.map fun k => (i, j, k))
  else []

/-- all rows of the effective system, in no particular order (duplicates of dummy rows are
summed by the consumer exactly as scipy sums duplicate COO entries) -/
def Prob.rows (P : Prob K) : List (Row K) :=
  (P.loopI.flatMap fun i => P.loopJ.flatMap fun j => P.loopK.map fun k => P.rowReal i j k)
  ++ (P.loopJ.flatMap fun j => P.loopK.map fun k => P.rowInner j k)
  ++ (P.loopJ.flatMap fun j => P.loopK.map fun k => P.rowOuter j k)
  ++ (if P.ndim ≥ 2 then
        (P.loopI.flatMap fun i => P.loopK.map fun k => P.rowLeft i k)
        ++ (P.loopI.flatMap fun i => P.loopK.map fun k => P.rowRight i k) else [])
  ++ (if P.ndim ≥ 3 then
        (P.loopI.flatMap fun i => P.loopJ.map fun j => P.rowTop i j)
        ++ (P.loopI.flatMap fun i => P.loopJ.map fun j => P.rowBot i j) else [])
  ++ (P.dummyIdx.map fun (i, j, k) => P.rowDummy i j k)

end SrModel.Thermal

/-! ## line protocol (Float instance)

`th <ndim> <N> <Nt> <Nz> <steady 0|1> <dt> <dr> <dth> <dz> <rr> <c> <kk> <qc> <src> <Tn>
    <innerKind> <innerA> <innerB> <outerKind> <outerA> <outerB>`

scalars are float bit patterns; `rr` has `N+2` entries; `c kk qc src Tn` are flattened ghosted
arrays (`ndof` entries, C order); wall kinds `ins|fix|flux|conv`; wall data are arrays over the
wall nodes in `(j,k)` loop order (`-` when unused).  Answer: `row:col:bits;…|rhsbits,…` with the
raw matrix entries (duplicates are summed by the consumer, as scipy does) and the right-hand side per dof. -/
namespace SrModel.Thermal
open SrModel.Proto

def arrFn (P : Nat → Nat → Nat → Nat) (a : Array Float) : Nat → Nat → Nat → Float :=
  fun i j k => a.getD (P i j k) 0.0

def wallOf (kind : String) (a b : Array Float) (idx : Nat → Nat → Nat) : Option (Wall Float) :=
  let f (x : Array Float) : Nat → Nat → Float := fun j k => x.getD (idx j k) 0.0
  match kind with
  | "ins"  => some .ins
  | "fix"  => some (.fix (f a))
  | "flux" => some (.flux (f a))
  | "conv" => some (.conv (f a) (f b))
  | _ => none

def handle : List String → Option String
  | ["th", ndim, n, nt, nz, steady, dt, dr, dth, dz, rr, c, kk, qc, src, tn, ik, ia, ib, ok, oa, ob] => do
    let ndim ← ndim.toNat?
    let n ← n.toNat?
    let nt ← nt.toNat?
    let nz ← nz.toNat?
    let dt ← parseF dt
    let dr ← parseF dr
    let dth ← parseF dth
    let dz ← parseF dz
    let rr := (← parseFs rr).toArray
    let c := (← parseFs c).toArray
    let kk := (← parseFs kk).toArray
    let qc := (← parseFs qc).toArray
    let src := (← parseFs src).toArray
    let tn := (← parseFs tn).toArray
    let ia := (← parseFs ia).toArray
    let ib := (← parseFs ib).toArray
    let oa := (← parseFs oa).toArray
    let ob := (← parseFs ob).toArray
    let gnt := if ndim ≥ 2 then nt + 2 else 1
    let gnz := if ndim ≥ 3 then nz + 2 else 1
    let dof := fun i j k => i * gnt * gnz + j * gnz + k
    -- wall arrays are indexed in loop order: position of (j,k) among real wall nodes
    let nk := if ndim ≥ 3 then nz else 1
    let widx := fun (j k : Nat) =>
      (if ndim ≥ 2 then j - 1 else 0) * nk + (if ndim ≥ 3 then k - 1 else 0)
    let inner ← wallOf ik ia ib widx
    let outer ← wallOf ok oa ob widx
    let P : Prob Float := {
      ndim := ndim, N := n, Nt := nt, Nz := nz, steady := steady == "1",
      dt := dt, dr := dr, dth := dth, dz := dz,
      rr := fun i => rr.getD i 0.0,
      c := arrFn dof c, kk := arrFn dof kk, qc := arrFn dof qc, src := arrFn dof src, Tn := arrFn dof tn,
      inner := inner, outer := outer }
    let rows := P.rows
    let m := rows.flatMap fun r => r.cols.map fun (col, v) => ((r.dofi, col), v)
    let rhs0 : Array Float := Array.replicate P.ndof 0.0
    let rhs := rows.foldl (fun (acc : Array Float) r => acc.modify r.dofi (· + r.rhs)) rhs0
    let ms := ";".intercalate (m.map fun ((r, cidx), v) => s!"{r}:{cidx}:{showF v}")
    some (ms ++ "|" ++ showFs rhs.toList)
  | _ => none

end SrModel.Thermal
