import SrProps.C10
