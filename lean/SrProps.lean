import SrProps.C02
import SrProps.C06
import SrProps.C10
import SrProps.C12
import SrProps.C13
import SrProps.C17
import SrProps.C20
