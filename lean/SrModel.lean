import SrModel.Adaptive
