import SrModel.Proto
import SrModel.Adaptive
import SrModel.Thermal
import SrModel.Loops
import SrModel.PW
