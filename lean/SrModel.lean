import SrModel.Proto
import SrModel.Adaptive
