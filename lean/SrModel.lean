import SrModel.Proto
import SrModel.Adaptive
import SrModel.Thermal
