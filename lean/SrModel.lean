import SrModel.Proto
import SrModel.Adaptive
import SrModel.Thermal
import SrModel.Loops
import SrModel.PW
import SrModel.Interp
import SrModel.H5
