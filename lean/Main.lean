import SrModel
/-!
Line-protocol driver: one request per line on stdin, one answer per line on stdout.
Run with `lake env lean --run Main.lean`.  Imports only `SrModel` (core Lean, no Mathlib).
Unknown or malformed requests answer `bad-op` — never a default.
-/
open SrModel

def parseBits (s : String) : Option (List Bool) :=
  if s == "-" then some [] else
  s.toList.mapM (fun c => if c == '1' then some true else if c == '0' then some false else none)

def handle (line : String) : String :=
  match (line.trimAscii.toString.splitOn " ").filter (· ≠ "") with
  | ["c10", md, forced, bits] =>
    match md.toNat?, parseBits bits with
    | some md, some bs =>
      if forced == "1" then Adaptive.showRes (Adaptive.run md true (Adaptive.oracleOf bs))
      else if forced == "0" then Adaptive.showRes (Adaptive.run md false (Adaptive.oracleOf bs))
      else "bad-op"
    | _, _ => "bad-op"
  | _ => "bad-op"

partial def loop (h : IO.FS.Stream) (out : IO.FS.Stream) : IO Unit := do
  let line ← h.getLine
  if line.isEmpty then return ()
  out.putStrLn (handle line)
  loop h out

def main : IO Unit := do
  let out ← IO.getStdout
  loop (← IO.getStdin) out
  out.flush
