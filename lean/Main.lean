import SrModel
import Gen
/-!
Line-protocol driver: one request per line on stdin, one answer per line on stdout.
Run with `lake env lean --run Main.lean`.  Imports only `SrModel` and `Gen` (core Lean, no Mathlib).
Each model module exports `handle : List String → Option String`; unknown or malformed
requests answer `bad-op` — never a default.
-/
open SrModel

def handlers : List (List String → Option String) := [
  Adaptive.handle
]

def handleLine (line : String) : String :=
  let ws := (line.trimAscii.toString.splitOn " ").filter (· ≠ "")
  (handlers.findSome? (fun h => h ws)).getD "bad-op"

partial def loop (h : IO.FS.Stream) (out : IO.FS.Stream) : IO Unit := do
  let line ← h.getLine
  if line.isEmpty then return ()
  out.putStrLn (handleLine line)
  loop h out

def main : IO Unit := do
  let out ← IO.getStdout
  loop (← IO.getStdin) out
  out.flush
