"""Translator: shipped thermal-fluid data -> /verif/lean/Gen/FluidData.lean  (DESIGN.md 2.3, C18).

Run on every C18 check (passed as `gen=` to common.lean_stage).  Reads, from the working tree
that `common.REPO` points at,

* every XML file under srlife/data/thermalfluid: every model (variant) of type
  PolynomialThermalFluidMaterial, its four coefficient lists (numpy order, as written) and any
  of film_min / T_max / T_min / laminar_cutoff / laminar_value it sets;
* the signature defaults of `ThermalFluidMaterial.__init__` (with `ast`, taking the *source
  text* of each default), which `PolynomialThermalFluidMaterial.load` leaves in force for the
  scalars an XML model does not set.

Every decimal string becomes an exact `Rat` (`"1.98e-3"` -> 198/100000): the Lean terms are the
documented decimal values, not their binary64 roundings (the harness self-check compares
`float(Fraction)` with the attributes of the loaded objects, exactly).

The translator refuses (raises `common.Infra`, exit 2 — an infrastructure problem, never a
default) anything it does not understand: another model type, a missing list, a default that is
not a numeric literal.
"""
import ast
import os
import sys
import xml.etree.ElementTree as ET
from fractions import Fraction

sys.path.insert(0, os.path.join(os.path.dirname(os.path.dirname(os.path.abspath(__file__))), "harness"))
import common

SCALARS = ["film_min", "T_max", "T_min", "laminar_cutoff", "laminar_value"]
POLYS = ["cp_poly", "rho_poly", "mu_poly", "k_poly"]
OUT = os.path.join(common.LEAN, "Gen", "FluidData.lean")


def frac(s):
    try:
        return Fraction(s.strip())
    except Exception:
        raise common.Infra("gen_fluid: %r is not a decimal number" % (s,))


def signature_defaults():
    """{name: source text of the default} of ThermalFluidMaterial.__init__"""
    path = os.path.join(common.REPO, "srlife", "thermohydraulics", "thermalfluid.py")
    src = open(path).read()
    tree = ast.parse(src)
    for node in tree.body:
        if isinstance(node, ast.ClassDef) and node.name == "ThermalFluidMaterial":
            for fn in node.body:
                if isinstance(fn, ast.FunctionDef) and fn.name == "__init__":
                    args = fn.args.args[1:]  # drop self
                    defaults = fn.args.defaults
                    if len(defaults) != len(args):
                        raise common.Infra("gen_fluid: __init__ has parameters without default")
                    res = {}
                    for a, d in zip(args, defaults):
                        seg = ast.get_source_segment(src, d)
                        try:
                            val = ast.literal_eval(d)
                        except Exception:
                            raise common.Infra("gen_fluid: default of %s is not a literal: %s" % (a.arg, seg))
                        if isinstance(val, bool) or not isinstance(val, (int, float)):
                            raise common.Infra("gen_fluid: default of %s is not numeric: %s" % (a.arg, seg))
                        q = frac(seg)
                        if float(q) != float(val):
                            raise common.Infra("gen_fluid: default of %s: text %s != value %r" % (a.arg, seg, val))
                        res[a.arg] = seg
                    if sorted(res) != sorted(SCALARS):
                        raise common.Infra("gen_fluid: __init__ parameters are %s, expected %s" % (sorted(res), sorted(SCALARS)))
                    return res
    raise common.Infra("gen_fluid: ThermalFluidMaterial.__init__ not found")


def parse_data():
    """list of dicts {file, variant, polys{name:[str]}, scalars{name:str}, set_in_xml[...]} in sorted order"""
    ddir = os.path.join(common.REPO, "srlife", "data", "thermalfluid")
    defaults = signature_defaults()
    out = []
    for fn in sorted(os.listdir(ddir)):
        if not fn.endswith(".xml"):
            continue
        root = ET.parse(os.path.join(ddir, fn)).getroot()
        for model in root:
            mtype = model.attrib.get("type")
            if mtype != "PolynomialThermalFluidMaterial":
                raise common.Infra("gen_fluid: %s/%s has unsupported type %r" % (fn, model.tag, mtype))
            vals = {child.tag: child.text for child in model}
            polys = {}
            for p in POLYS:
                if p not in vals:
                    raise common.Infra("gen_fluid: %s/%s lacks %s" % (fn, model.tag, p))
                # materials.destring_array splits on single blanks
                polys[p] = [s for s in vals[p].split(" ")]
                for s in polys[p]:
                    frac(s)
            unknown = set(vals) - set(POLYS) - set(SCALARS)
            if unknown:
                raise common.Infra("gen_fluid: %s/%s has unknown entries %s" % (fn, model.tag, sorted(unknown)))
            scal = {k: (vals[k] if k in vals else defaults[k]) for k in SCALARS}
            out.append({"file": fn[:-4], "variant": model.tag, "polys": polys, "scalars": scal,
                        "set_in_xml": sorted(k for k in SCALARS if k in vals)})
    if not out:
        raise common.Infra("gen_fluid: no thermal-fluid model found under %s" % ddir)
    return defaults, out


def lean_rat(s):
    q = frac(s)
    if q.denominator == 1:
        return "(%d : Rat)" % q.numerator
    return "((%d : Rat) / %d)" % (q.numerator, q.denominator)


def lean_list(strs):
    return "[" + ", ".join(lean_rat(s) for s in strs) + "]"


def lean_params(sc):
    return "⟨" + ", ".join(lean_rat(sc[k]) for k in SCALARS) + "⟩"


def render(defaults, data):
    L = []
    L.append("import SrModel.Fluid")
    L.append("/-!")
    L.append("GENERATED by /verif/gen/gen_fluid.py from srlife/data/thermalfluid/*.xml and the signature")
    L.append("defaults of ThermalFluidMaterial.__init__ — do not edit; overwritten on every C18 check.")
    L.append("Decimal strings are exact rationals; coefficient lists keep numpy order (highest degree first).")
    L.append("Params order: film_min, T_max, T_min, laminar_cutoff, laminar_value.")
    L.append("-/")
    L.append("namespace Gen.FluidData")
    L.append("open SrModel.Fluid")
    L.append("")
    L.append("/-- signature defaults of `ThermalFluidMaterial.__init__` -/")
    L.append("def defaults : Params Rat := " + lean_params(defaults))
    L.append("")
    L.append("structure Entry where")
    L.append("  file : String")
    L.append("  variant : String")
    L.append("  fluid : Fluid Rat")
    L.append("")
    for i, d in enumerate(data):
        L.append("/-- %s / %s (scalars set in the XML: %s) -/" % (d["file"], d["variant"], ", ".join(d["set_in_xml"]) or "none"))
        L.append("def e%d : Entry := ⟨\"%s\", \"%s\"," % (i, d["file"], d["variant"]))
        L.append("  ⟨%s," % lean_list(d["polys"]["cp_poly"]))
        L.append("   %s," % lean_list(d["polys"]["rho_poly"]))
        L.append("   %s," % lean_list(d["polys"]["mu_poly"]))
        L.append("   %s," % lean_list(d["polys"]["k_poly"]))
        L.append("   %s⟩⟩" % lean_params(d["scalars"]))
        L.append("")
    L.append("/-- every (file, variant) found in the data directory -/")
    L.append("def shipped : List Entry := [%s]" % ", ".join("e%d" % i for i in range(len(data))))
    L.append("")
    L.append("def showQs (xs : List Rat) : String := \",\".intercalate (xs.map SrModel.Proto.showQ)")
    L.append("def showParams (p : Params Rat) : String := showQs [p.filmMin, p.tMax, p.tMin, p.lamCut, p.lamVal]")
    L.append("")
    L.append("/-- translator self-check protocol: `c18data n` -> number of entries, `c18data defaults`,")
    L.append("`c18data <i>` -> `file variant cp rho mu k params` as exact rationals -/")
    L.append("def handle : List String → Option String")
    L.append("  | [\"c18data\", \"n\"] => some (toString shipped.length)")
    L.append("  | [\"c18data\", \"defaults\"] => some (showParams defaults)")
    L.append("  | [\"c18data\", i] => do")
    L.append("    let e ← shipped[(← i.toNat?)]?")
    L.append("    some (\" \".intercalate [e.file, e.variant, showQs e.fluid.cp, showQs e.fluid.rho,")
    L.append("      showQs e.fluid.mu, showQs e.fluid.k, showParams e.fluid.p])")
    L.append("  | _ => none")
    L.append("")
    L.append("end Gen.FluidData")
    return "\n".join(L) + "\n"


def generate():
    defaults, data = parse_data()
    src = render(defaults, data)
    os.makedirs(os.path.dirname(OUT), exist_ok=True)
    tmp = OUT + ".tmp%d" % os.getpid()
    with open(tmp, "w") as f:
        f.write(src)
    os.replace(tmp, OUT)
    return defaults, data


if __name__ == "__main__":
    d, data = generate()
    print("wrote %s: %d models" % (OUT, len(data)))
