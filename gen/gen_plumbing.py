"""Translator: parameter plumbing of srlife's solvers  ->  /verif/lean/Gen/Plumbing.lean  (C17).

Parses, with `ast`, the functions under `common.REPO` whose whole job is to move solver parameters
around, and emits for each a Lean term `SrModel.Plumbing.Fn`:

    params : the formal parameters with their defaults (as literals)
    out    : a list (field, Src) -- what each attribute written / dict key returned / argument of the
             forwarded call is, as a function of the parameters, the parameter set and `self`

Grammar accepted for a value (`Src`):
    parameter name                         -> .param n
    number / bool / None / arithmetic of   -> .lit …          (so `1.0 - 6` is seen as -5)
      numeric literals
    self.a   (not assigned earlier here)   -> .self a         (earlier straight-line assignment: its Src)
    pset.get_default("k", <Src>)           -> .getDefault k …  (pset must be the parameter `pset`)
    kwargs.pop("k", <Src>)                 -> .popDefault k …  (kwargs must be the ** parameter)
    `A if n is None else n` (n a parameter -> .ifNone n A
      with default None, or the mirrored form)
    any other expression                   -> .other "<source>"   (opaque value: never the supplied one)
Statement structure outside the grammar (a tracked name assigned inside if/for/while/try/with, an
augmented or tuple assignment, a missing or duplicated forwarded call, star-args in a forwarded call,
an early return) -> .unsupported "<why>", which evaluates to *no value*, so every theorem that needs
the field fails instead of guessing.

Three shapes of function body:
  fields : `self.a = <Src>` (or `other.a = …` for `__copy`); a dict literal value contributes
           `a.key` fields
  dict   : `return {"k": <Src>, …}`
  call   : the arguments of the unique call to a named callee (positional arguments are named with
           the callee's own parsed signature)

Not analysed (trusted, and exercised by the harness self-check on real objects): that method calls
made in these bodies (`super().__init__`, `self.validate_solve()`, …) do not rebind tracked attributes.
"""
import ast
import os
import re
import sys
from fractions import Fraction

sys.path.insert(0, os.path.join(os.path.dirname(os.path.abspath(__file__)), "..", "harness"))
import common  # noqa: E402

OUT = os.path.join(common.LEAN, "Gen", "Plumbing.lean")

# (lean name, file, qualified python name, shape, extra)
TARGETS = [
    ("newton", "srlife/solvers.py", "newton", "sig", None),
    ("sss_init", "srlife/system.py", "SpringSystemSolver.__init__", "fields", "self"),
    ("sss_make_network", "srlife/system.py", "SpringSystemSolver.make_network", "call", ("SpringNetwork", "sn_init")),
    ("sn_init", "srlife/spring.py", "SpringNetwork.__init__", "fields", "self"),
    ("sn_copy", "srlife/spring.py", "SpringNetwork.__copy", "fields", "other"),
    ("sn_solve", "srlife/spring.py", "SpringNetwork.solve", "call", ("newton", "newton")),
    ("tts_init", "srlife/thermal.py", "ThermohydraulicsThermalSolver.__init__", "fields", "self"),
    ("deparam_fd", "srlife/thermal.py", "deparametrize_finite_difference", "dict", None),
    ("fds_init", "srlife/thermal.py", "FiniteDifferenceImplicitThermalSolver.__init__", "fields", "self"),
    ("fds_solve", "srlife/thermal.py", "FiniteDifferenceImplicitThermalSolver.solve", "call",
     ("FiniteDifferenceImplicitThermalProblem", "fdp_init")),
    ("fdp_init", "srlife/thermal.py", "FiniteDifferenceImplicitThermalProblem.__init__", "fields", "self"),
    ("deparam_fp", "srlife/thermohydraulics/flowpath.py", "deparameterize_flow_path", "dict", None),
    ("fp_init", "srlife/thermohydraulics/flowpath.py", "FlowPath.__init__", "fields", "self"),
    ("pts_init", "srlife/structural.py", "PythonTubeSolver.__init__", "fields", "self"),
]


# ---------------------------------------------------------------------------------------------
# Src terms (python side): tuples
#   ("param", n) ("lit", lit) ("self", n) ("getDefault", k, src) ("popDefault", k, src)
#   ("ifNone", n, src) ("other", text) ("unsupported", why)
# lit: ("num", Fraction) ("bool", b) ("none",) ("other", text)
# ---------------------------------------------------------------------------------------------
def lit_of_value(v):
    if isinstance(v, bool):
        return ("bool", v)
    if v is None:
        return ("none",)
    if isinstance(v, int):
        return ("num", Fraction(v))
    if isinstance(v, float):
        if v != v or v in (float("inf"), float("-inf")):
            return ("other", repr(v))
        return ("num", Fraction(repr(v)))  # the shortest decimal that denotes this float
    return None


def const_eval(e):
    """numeric constant expressions only; returns a python value or raises ValueError"""
    if isinstance(e, ast.Constant) and isinstance(e.value, (int, float)) and not isinstance(e.value, bool):
        return e.value
    if isinstance(e, ast.UnaryOp) and isinstance(e.op, (ast.USub, ast.UAdd)):
        v = const_eval(e.operand)
        return -v if isinstance(e.op, ast.USub) else +v
    if isinstance(e, ast.BinOp) and isinstance(e.op, (ast.Add, ast.Sub, ast.Mult, ast.Div, ast.Pow)):
        a, b = const_eval(e.left), const_eval(e.right)
        try:
            if isinstance(e.op, ast.Add):
                return a + b
            if isinstance(e.op, ast.Sub):
                return a - b
            if isinstance(e.op, ast.Mult):
                return a * b
            if isinstance(e.op, ast.Div):
                return a / b
            return a ** b
        except Exception as exc:  # ZeroDivisionError, OverflowError
            raise ValueError(str(exc))
    raise ValueError("not a numeric constant expression")


def text_of(e, limit=60):
    try:
        s = ast.unparse(e)
    except Exception:
        s = type(e).__name__
    s = " ".join(s.split())
    return s[:limit]


class FnCtx:
    def __init__(self, fn, obj):
        self.fn = fn
        a = fn.args
        names = [x.arg for x in a.posonlyargs + a.args]
        defaults = [None] * (len(names) - len(a.defaults)) + list(a.defaults)
        self.params = []  # (name, default lit or None)
        for n, d in zip(names, defaults):
            self.params.append((n, None if d is None else self.default_lit(d)))
        for x, d in zip(a.kwonlyargs, a.kw_defaults):
            self.params.append((x.arg, None if d is None else self.default_lit(d)))
        self.vararg = a.vararg.arg if a.vararg else None
        self.kwarg = a.kwarg.arg if a.kwarg else None
        self.obj = obj  # name of the object whose attributes are the outputs ("self"/"other")
        self.locals = {}  # local name -> Src
        self.attrs = {}  # self.<a> assigned earlier in this body -> Src
        self.rebound = set()  # parameters rebound by a top-level assignment

    @staticmethod
    def default_lit(d):
        if isinstance(d, ast.Constant):
            lv = lit_of_value(d.value)
            if lv is not None:
                return lv
        try:
            lv = lit_of_value(const_eval(d))
            if lv is not None:
                return lv
        except ValueError:
            pass
        return ("other", text_of(d))

    def param_names(self):
        return [p[0] for p in self.params]

    def default_of(self, n):
        for p, d in self.params:
            if p == n:
                return d
        return None

    # -- expressions --------------------------------------------------------------------------
    def src(self, e):
        if isinstance(e, ast.Constant):
            lv = lit_of_value(e.value)
            if lv is not None:
                return ("lit", lv)
            return ("other", text_of(e))
        try:
            lv = lit_of_value(const_eval(e))
            if lv is not None:
                return ("lit", lv)
        except ValueError:
            pass
        if isinstance(e, ast.Name):
            if e.id in self.locals:
                return self.locals[e.id]
            if e.id in self.param_names():
                return ("param", e.id)
            return ("other", e.id)
        if isinstance(e, ast.Attribute) and isinstance(e.value, ast.Name) and e.value.id == "self":
            if e.attr in self.attrs:
                return self.attrs[e.attr]
            return ("self", e.attr)
        if isinstance(e, ast.Call) and isinstance(e.func, ast.Attribute) and isinstance(e.func.value, ast.Name) \
                and len(e.args) == 2 and not e.keywords and isinstance(e.args[0], ast.Constant) \
                and isinstance(e.args[0].value, str):
            recv, meth, key = e.func.value.id, e.func.attr, e.args[0].value
            if meth == "get_default" and recv == "pset" and "pset" in self.param_names() \
                    and "pset" not in self.locals:
                return ("getDefault", key, self.src(e.args[1]))
            if meth == "pop" and self.kwarg is not None and recv == self.kwarg and recv not in self.locals:
                return ("popDefault", key, self.src(e.args[1]))
        if isinstance(e, ast.IfExp) and isinstance(e.test, ast.Compare) and len(e.test.ops) == 1 \
                and isinstance(e.test.left, ast.Name) and len(e.test.comparators) == 1 \
                and isinstance(e.test.comparators[0], ast.Constant) and e.test.comparators[0].value is None:
            n = e.test.left.id
            isop = e.test.ops[0]
            same, alt = None, None
            if isinstance(isop, ast.Is):
                alt, same = e.body, e.orelse
            elif isinstance(isop, ast.IsNot):
                same, alt = e.body, e.orelse
            if same is not None and isinstance(same, ast.Name) and same.id == n and n in self.param_names() \
                    and n not in self.locals and self.default_of(n) == ("none",):
                return ("ifNone", n, self.src(alt))
        return ("other", text_of(e))

    # -- statements ---------------------------------------------------------------------------
    def stores_in(self, node):
        """names / attributes (of self or of the output object) stored anywhere inside `node`"""
        names, attrs = set(), set()
        for x in ast.walk(node):
            if isinstance(x, ast.Name) and isinstance(x.ctx, (ast.Store, ast.Del)):
                names.add(x.id)
            if isinstance(x, ast.Attribute) and isinstance(x.ctx, (ast.Store, ast.Del)) \
                    and isinstance(x.value, ast.Name) and x.value.id in ("self", self.obj):
                attrs.add((x.value.id, x.attr))
        return names, attrs

    def run_body(self, fields, stop_line=None):
        """walk the top-level statements (those ending before `stop_line`, if given); `fields`
        (ordered dict) receives the attribute outputs.  Returns the statements walked."""
        body = list(self.fn.body)
        if stop_line is not None:
            body = [s for s in body if getattr(s, "end_lineno", s.lineno) < stop_line]
        if body and isinstance(body[0], ast.Expr) and isinstance(body[0].value, ast.Constant) \
                and isinstance(body[0].value.value, str):
            body = body[1:]
        ended = False
        for st in body:
            if ended:
                break
            if isinstance(st, ast.Assign) and len(st.targets) == 1:
                t = st.targets[0]
                if isinstance(t, ast.Name):
                    self.locals[t.id] = self.src(st.value)
                    continue
                if isinstance(t, ast.Attribute) and isinstance(t.value, ast.Name) and t.value.id in ("self", self.obj):
                    if isinstance(st.value, ast.Dict) and all(
                            isinstance(k, ast.Constant) and isinstance(k.value, str) for k in st.value.keys):
                        for k, v in zip(st.value.keys, st.value.values):
                            self.put(fields, t.value.id, t.attr + "." + k.value, self.src(v))
                        self.put(fields, t.value.id, t.attr, ("other", "dict literal"))
                    else:
                        self.put(fields, t.value.id, t.attr, self.src(st.value))
                    continue
            if isinstance(st, (ast.Expr, ast.Pass)):
                continue  # call statements: see module docstring (trusted, self-checked)
            if isinstance(st, ast.Return):
                ended = True
                continue
            # anything else: every name / attribute it may store becomes unsupported
            names, attrs = self.stores_in(st)
            why = "assigned inside `%s` statement at line %d" % (type(st).__name__.lower(), st.lineno)
            for n in sorted(names):
                self.locals[n] = ("unsupported", why)
            for o, a in sorted(attrs):
                self.put(fields, o, a, ("unsupported", why))
            for x in ast.walk(st):
                if isinstance(x, ast.Return):
                    why2 = "return inside `%s` statement at line %d" % (type(st).__name__.lower(), st.lineno)
                    for k in list(fields):
                        fields[k] = ("unsupported", why2)
                    self.early_return = why2
        return body

    early_return = None

    def put(self, fields, objname, attr, s):
        if objname == "self":
            self.attrs[attr] = s
        if objname == self.obj:
            fields[attr] = s


def find_function(tree, qual):
    parts = qual.split(".")
    nodes = tree.body
    for i, p in enumerate(parts):
        found = None
        for n in nodes:
            if isinstance(n, (ast.FunctionDef, ast.ClassDef)) and n.name == p:
                found = n
                break
        if found is None:
            return None
        if i == len(parts) - 1:
            return found if isinstance(found, ast.FunctionDef) else None
        nodes = found.body
    return None


def callee_name(f):
    if isinstance(f, ast.Name):
        return f.id
    if isinstance(f, ast.Attribute):
        return f.attr
    return None


def translate(repo=None):
    """returns (fns, newton_doc, notes); fns: ordered dict lean name -> dict(name, params, out)"""
    repo = repo or common.REPO
    trees, fns, notes = {}, {}, []
    order = [t for t in TARGETS if t[3] != "call"] + [t for t in TARGETS if t[3] == "call"]
    newton_doc = []
    for lean, rel, qual, shape, extra in order:
        path = os.path.join(repo, rel)
        if rel not in trees:
            try:
                trees[rel] = ast.parse(open(path).read(), filename=path)
            except (OSError, SyntaxError) as exc:
                trees[rel] = None
                notes.append("%s: cannot parse (%s)" % (rel, exc))
        tree = trees[rel]
        fn = find_function(tree, qual) if tree is not None else None
        if fn is None:
            fns[lean] = dict(name=qual, params=[], out=[("*", ("unsupported", "function not found in " + rel))])
            notes.append("%s not found in %s" % (qual, rel))
            continue
        obj = extra if shape == "fields" else "self"
        cx = FnCtx(fn, obj)
        params = [p for p in cx.params if p[0] != "self"]
        out = {}
        if shape == "sig":
            doc = ast.get_docstring(fn) or ""
            for line in doc.split("\n"):
                m = re.match(r"^\s*(\w+)\s*\(Optional\[(.*?)\]\)\s*:", line)
                if m:
                    newton_doc.append((m.group(1), doc_lit(m.group(2))))
        elif shape == "fields":
            cx.run_body(out)
        elif shape == "dict":
            body = cx.run_body({})
            rets = [s for s in body if isinstance(s, ast.Return)]
            if cx.early_return or len(rets) != 1 or not isinstance(rets[0].value, ast.Dict) or not all(
                    isinstance(k, ast.Constant) and isinstance(k.value, str) for k in rets[0].value.keys):
                out["*"] = ("unsupported", "body is not a single `return {…}` with string keys")
            else:
                for k, v in zip(rets[0].value.keys, rets[0].value.values):
                    out[k.value] = cx.src(v)
        elif shape == "call":
            target, callee_lean = extra
            calls_top, calls_all = [], []
            body = list(fn.body)
            for st in body:
                simple = isinstance(st, (ast.Assign, ast.Expr, ast.Return))
                for x in ast.walk(st):
                    if isinstance(x, ast.Call) and callee_name(x.func) == target:
                        calls_all.append(x)
                        if simple:
                            calls_top.append(x)
            cparams = [p[0] for p in fns.get(callee_lean, {}).get("params", [])]
            if len(calls_all) != 1 or len(calls_top) != 1:
                out["*"] = ("unsupported", "%d calls of %s (%d in straight-line code), need exactly 1" % (
                    len(calls_all), target, len(calls_top)))
            else:
                c = calls_top[0]
                # the call must come after every top-level rebinding it uses: re-run the body up to the call
                cx2 = FnCtx(fn, "self")
                cx2.run_body({}, stop_line=c.lineno)
                if any(isinstance(a, ast.Starred) for a in c.args) or any(k.arg is None for k in c.keywords):
                    out["*"] = ("unsupported", "star-arguments in the call of " + target)
                elif len(c.args) > len(cparams):
                    out["*"] = ("unsupported", "more positional arguments than parameters of " + target)
                else:
                    for n, a in zip(cparams, c.args):
                        out[n] = cx2.src(a)
                    for k in c.keywords:
                        if k.arg in out:
                            out[k.arg] = ("unsupported", "argument given twice")
                        else:
                            out[k.arg] = cx2.src(k.value)
        fns[lean] = dict(name=qual, params=params, out=list(out.items()), kwarg=cx.kwarg)
    ordered = {t[0]: fns[t[0]] for t in TARGETS}
    return ordered, newton_doc, notes


def doc_lit(s):
    s = s.strip()
    if s in ("True", "False"):
        return ("bool", s == "True")
    if s == "None":
        return ("none",)
    try:
        e = ast.parse(s, mode="eval").body
        lv = lit_of_value(const_eval(e))
        if lv is not None:
            # a decimal written in the docstring is read as that decimal, not through a float
            try:
                return ("num", Fraction(s))
            except ValueError:
                return lv
    except (SyntaxError, ValueError):
        pass
    return ("other", s)


# ---------------------------------------------------------------------------------------------
# Lean emission
# ---------------------------------------------------------------------------------------------
def lstr(s):
    return '"' + s.replace("\\", "\\\\").replace('"', '\\"').replace("\n", " ") + '"'


def lean_lit(l):
    if l[0] == "num":
        q = l[1]
        return "(.num (%d) %d)" % (q.numerator, q.denominator)
    if l[0] == "bool":
        return "(.bool %s)" % ("true" if l[1] else "false")
    if l[0] == "none":
        return ".none"
    return "(.other %s)" % lstr(l[1])


def lean_src(s):
    k = s[0]
    if k == "param":
        return "(.param %s)" % lstr(s[1])
    if k == "lit":
        return "(.lit %s)" % lean_lit(s[1])
    if k == "self":
        return "(.self %s)" % lstr(s[1])
    if k in ("getDefault", "popDefault", "ifNone"):
        return "(.%s %s %s)" % (k, lstr(s[1]), lean_src(s[2]))
    if k == "other":
        return "(.other %s)" % lstr(s[1])
    return "(.unsupported %s)" % lstr(s[1])


def emit(fns, newton_doc):
    L = ["import SrModel.Loops",
         "/-! GENERATED by /verif/gen/gen_plumbing.py from the srlife sources on every run of `./check C17`.",
         "Do not edit: the theorems of `SrProps/C17.lean` are about these terms. -/",
         "namespace Gen.Plumbing",
         "open SrModel.Plumbing",
         ""]
    for lean, f in fns.items():
        L.append("/-- `%s` -/" % f["name"])
        L.append("def %s : Fn where" % lean)
        L.append("  name := %s" % lstr(f["name"]))
        L.append("  params := [%s]" % ", ".join(
            "(%s, %s)" % (lstr(n), "none" if d is None else "some " + lean_lit(d)) for n, d in f["params"]))
        L.append("  out := [")
        L.append(",\n".join("    (%s, %s)" % (lstr(n), lean_src(s)) for n, s in f["out"]))
        L.append("  ]")
        L.append("")
    L.append("/-- defaults written in the docstring of `solvers.newton` as `name (Optional[value]):` -/")
    L.append("def newtonDoc : List (String × Lit) := [")
    L.append(",\n".join("  (%s, %s)" % (lstr(n), lean_lit(l)) for n, l in newton_doc))
    L.append("]")
    L.append("")
    L.append("def fns : Fns where")
    for n in fns:
        L.append("  %s := %s" % (n, n))
    L.append("")
    L.append("/-- line protocol of the translator self-check (see `SrModel.Plumbing.handleWith`) -/")
    L.append("def handle : List String → Option String := handleWith fns")
    L.append("")
    L.append("end Gen.Plumbing")
    return "\n".join(L) + "\n"


def main(repo=None):
    fns, doc, notes = translate(repo)
    text = emit(fns, doc)
    os.makedirs(os.path.dirname(OUT), exist_ok=True)
    old = open(OUT).read() if os.path.exists(OUT) else None
    if old != text:
        tmp = OUT + ".tmp%d" % os.getpid()
        with open(tmp, "w") as f:
            f.write(text)
        os.replace(tmp, OUT)
    return fns, doc, notes


if __name__ == "__main__":
    fns, doc, notes = main()
    for n in notes:
        print("note:", n)
    print("wrote", OUT, "(%d functions, %d documented defaults)" % (len(fns), len(doc)))
