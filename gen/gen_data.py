"""Translator for C20: every XML under <repo>/srlife/data  ->  /verif/lean/Gen/Data.lean

Run at the start of every C20 check (harness/c20.py passes `generate` as `gen=` to
common.lean_stage).  The output is a core-Lean file defining `Gen.Data.db : SrModel.PW.DB`:

* decimal strings become EXACT rationals by parsing the text ("1.98e-3" -> (198 : Rat) / 100000);
  no float is ever involved;
* tables become `List (Rat x Rat)`; rupture / fatigue correlations keep the (coefficient, exponent)
  pairs in file order (that is how `time_to_rupture` / `cycles_to_fail` use them: sum of
  a_i * log10(.)**n_i); thermal-fluid polynomials keep numpy `polyval` order (highest power first);
* one `Entry` (directory, file, variant, root type, type string) per variant node of every file;
* validity windows written in comments (`valid for T between 600K and 1050k`).

The reading mimics what the loaders do (`load_node`, `destring_array` = split(" ") + float(),
the ceramic loader's `.text.strip().split()`, `find` = first match).  Anything the loaders would
reject, or that has a shape this translator does not know (duplicate sibling tags, a non-integer
exponent, a token `float()` accepts but that is not a plain decimal, ...), is emitted as an
`unsupported` marker, so that the theorems about it fail instead of being guessed.

Output is deterministic (directories and files sorted, variants in file order) and is only
rewritten when it changes, so an unchanged /repo gives a byte-identical file and no rebuild.
"""
import os
import re
import sys
import xml.etree.ElementTree as ET
from fractions import Fraction

HERE = os.path.dirname(os.path.abspath(__file__))
sys.path.insert(0, os.path.join(os.path.dirname(HERE), "harness"))
import common  # noqa: E402

OUT = os.path.join(common.LEAN, "Gen", "Data.lean")

_NUM = re.compile(r"^([+-]?)(\d+)?(?:\.(\d*))?(?:[eE]([+-]?\d+))?$")


class Unsupported(Exception):
    pass


def tok_to_rat(tok):
    """exact (numerator, denominator) of a decimal token as `float()` would read it; the token may
    carry surrounding whitespace (float() strips it).  Raises Unsupported otherwise."""
    t = tok.strip()
    m = _NUM.match(t)
    if not m or (m.group(2) is None and not m.group(3)):
        raise Unsupported("token %r is not a plain decimal number" % tok)
    sign, ip, fp, ex = m.group(1), m.group(2) or "", m.group(3) or "", int(m.group(4) or 0)
    num = int((ip + fp) or "0")
    e10 = ex - len(fp)
    den = 1
    if e10 >= 0:
        num *= 10 ** e10
    else:
        den = 10 ** (-e10)
    if sign == "-":
        num = -num
    assert Fraction(num, den) == Fraction(t), (tok, num, den)
    return num, den


def destring(text):
    """materials.destring_array: string.split(" ") then float() on every token"""
    if text is None:
        raise Unsupported("missing text")
    return [tok_to_rat(t) for t in text.split(" ")]


def destring_ws(text):
    """ceramic loader: text.strip().split()"""
    if text is None:
        raise Unsupported("missing text")
    toks = text.strip().split()
    if not toks:
        raise Unsupported("empty array")
    return [tok_to_rat(t) for t in toks]


def scalar(text):
    if text is None:
        raise Unsupported("missing text")
    return tok_to_rat(text)


def one(arr, what):
    if len(arr) != 1:
        raise Unsupported("%s must hold exactly one number" % what)
    return arr[0]


def to_nat(r, what):
    n, d = r
    f = Fraction(n, d)
    if f.denominator != 1 or f < 0:
        raise Unsupported("%s: exponent %s is not a natural number" % (what, f))
    return int(f)


def node_dict(node):
    """materials.load_node without the outer {tag: ...}; duplicate sibling tags are not modelled"""
    if len(node) > 0:
        tags = [c.tag for c in node]
        if len(set(tags)) != len(tags):
            raise Unsupported("duplicate sibling tags under <%s>" % node.tag)
        return {c.tag: node_dict(c) for c in node}
    return node.text


def need(d, keys, what):
    if not isinstance(d, dict):
        raise Unsupported("%s is not a node with children" % what)
    for k in keys:
        if k not in d:
            raise Unsupported("%s lacks <%s>" % (what, k))
        if isinstance(d[k], dict):
            raise Unsupported("%s/<%s> has children" % (what, k))


# ---------------------------------------------------------------------------
# Lean rendering
# ---------------------------------------------------------------------------
def lstr(s):
    out = []
    for ch in s:
        o = ord(ch)
        if ch == '"' or ch == "\\":
            out.append("\\" + ch)
        elif 32 <= o < 127:
            out.append(ch)
        else:
            out.append("\\u{%x}" % o)
    return '"' + "".join(out) + '"'


def lrat(r):
    n, d = r
    if d == 1:
        return "(%d : Rat)" % n
    return "((%d : Rat) / %d)" % (n, d)


def llist(items, indent=None):
    if indent is None or not items:
        return "[" + ", ".join(items) + "]"
    pad = " " * indent
    return "[\n" + ",\n".join(pad + i for i in items) + "]"


def ltab(xs, ys):
    if len(xs) != len(ys):
        raise Unsupported("table columns have different lengths (%d, %d)" % (len(xs), len(ys)))
    return llist(["(%s, %s)" % (lrat(x), lrat(y)) for x, y in zip(xs, ys)])


def lterms(a, n, what):
    if len(a) != len(n):
        raise Unsupported("%s: a and n have different lengths" % what)
    return llist(["(%s, %d)" % (lrat(c), to_nat(e, what)) for c, e in zip(a, n)])


# ---------------------------------------------------------------------------
# per-directory readers (each returns a Lean term)
# ---------------------------------------------------------------------------
def thermal(node, typ):
    try:
        d = node_dict(node)
        if typ == "PiecewiseLinearThermalMaterial":
            need(d, ["name", "temps", "cond", "diff"], "thermal model")
            t = destring(d["temps"])
            if len(t) < 2:
                raise Unsupported("fewer than two knots")
            return ".piecewise %s %s %s" % (lstr(d["name"] or ""), ltab(t, destring(d["cond"])),
                                            ltab(t, destring(d["diff"])))
        if typ == "ConstantThermalMaterial":
            need(d, ["name", "k", "alpha"], "thermal model")
            return ".constant %s %s %s" % (lstr(d["name"] or ""), lrat(scalar(d["k"])), lrat(scalar(d["alpha"])))
        raise Unsupported("unknown ThermalMaterial type %r" % typ)
    except Unsupported as e:
        return ".unsupported %s" % lstr(str(e))


def fluid(node, typ):
    try:
        d = node_dict(node)
        if not isinstance(d, dict):
            raise Unsupported("fluid model without children")
        if typ == "PiecewiseLinearFluidMaterial":
            tabs = []
            for k, v in d.items():
                need(v, ["temp", "values"], "fluid table <%s>" % k)
                t = destring(v["temp"])
                if len(t) < 2:
                    raise Unsupported("fewer than two knots")
                tabs.append("(%s, %s)" % (lstr(k), ltab(t, destring(v["values"]))))
            return ".piecewise %s" % llist(tabs, 8)
        if typ == "ConstantFluidMaterial":
            vals = []
            for k, v in d.items():
                if isinstance(v, dict):
                    raise Unsupported("constant fluid value <%s> has children" % k)
                vals.append("(%s, %s)" % (lstr(k), lrat(scalar(v))))
            return ".constant %s" % llist(vals)
        raise Unsupported("unknown FluidMaterial type %r" % typ)
    except Unsupported as e:
        return ".unsupported %s" % lstr(str(e))


TF_EXTRA = ["film_min", "T_max", "T_min", "laminar_cutoff", "laminar_value"]


def thermalfluid(node, typ):
    try:
        d = node_dict(node)
        if typ == "PolynomialThermalFluidMaterial":
            need(d, ["cp_poly", "rho_poly", "mu_poly", "k_poly"], "thermal-fluid model")
            polys = [llist([lrat(c) for c in destring(d[k])]) for k in ["cp_poly", "rho_poly", "mu_poly", "k_poly"]]
            extra = []
            for k in TF_EXTRA:
                if k in d:
                    if isinstance(d[k], dict):
                        raise Unsupported("<%s> has children" % k)
                    extra.append("(%s, %s)" % (lstr(k), lrat(scalar(d[k]))))
            return ".polynomial %s %s %s %s %s" % (polys[0], polys[1], polys[2], polys[3], llist(extra))
        raise Unsupported("unknown ThermalFluidMaterial type %r" % typ)
    except Unsupported as e:
        return ".unsupported %s" % lstr(str(e))


def metallic(node):
    rupt, fat, env, uns = [], [], [], []
    try:
        d = node_dict(node)
        if not isinstance(d, dict):
            raise Unsupported("metallic variant without children")
    except Unsupported as e:
        return "Metallic.mk [] [] [] [%s]" % lstr(str(e))
    for pname, v in d.items():
        try:
            if not isinstance(v, dict):
                k = destring(v)
                if len(k) != 2:
                    raise Unsupported("a text property must be an envelope knee (two numbers)")
                env.append("(%s, (%s, %s))" % (lstr(pname), lrat(k[0]), lrat(k[1])))
            elif all(not isinstance(x, dict) for x in v.values()):
                need(v, ["C", "a", "n"], "rupture correlation")
                C = one(destring(v["C"]), "C")
                rupt.append("(%s, { C := %s, terms := %s })" % (
                    lstr(pname), lrat(C), lterms(destring(v["a"]), destring(v["n"]), pname)))
            elif all(isinstance(x, dict) for x in v.values()):
                curves = []
                for cname, c in v.items():
                    need(c, ["T", "a", "n", "cutoff"], "fatigue curve <%s>" % cname)
                    curves.append("{ T := %s, terms := %s, cutoff := %s }" % (
                        lrat(one(destring(c["T"]), "T")),
                        lterms(destring(c["a"]), destring(c["n"]), pname + "/" + cname),
                        lrat(one(destring(c["cutoff"]), "cutoff"))))
                fat.append("(%s, %s)" % (lstr(pname), llist(curves, 10)))
            else:
                raise Unsupported("mixed node")
        except Unsupported as e:
            uns.append(lstr("%s: %s" % (pname, e)))
    # positional: ruptures, fatigues, envelopes, unsupported
    return ("Metallic.mk %s\n      %s\n      %s\n      %s"
            % (llist(rupt, 8), llist(fat, 8), llist(env), llist(uns)))


def ceramic(node, typ):
    try:
        if typ != "StandardModel":
            raise Unsupported("unknown ceramic model type %r" % typ)

        def tab(name):
            n = node.find(name)
            if n is None:
                raise Unsupported("missing <%s>" % name)
            t, v = n.find("temperatures"), n.find("values")
            if t is None or v is None:
                raise Unsupported("<%s> lacks temperatures/values" % name)
            tt = destring_ws(t.text)
            if len(tt) < 2:
                raise Unsupported("fewer than two knots")
            return ltab(tt, destring_ws(v.text))

        def sc(name):
            n = node.find(name)
            if n is None:
                raise Unsupported("missing <%s>" % name)
            return lrat(scalar(n.text))

        return ".standard %s\n      %s\n      %s\n      %s\n      %s %s" % (
            tab("strength"), tab("modulus"), tab("fatigue_Nv"), tab("fatigue_Bv"), sc("c_bar"), sc("nu"))
    except Unsupported as e:
        return ".unsupported %s" % lstr(str(e))


WINDOW = re.compile(r"<!--[^>]*?valid\s+for\s+T\s+between\s+([0-9.eE+-]+)\s*K\s+and\s+([0-9.eE+-]+)\s*K", re.I)


def build(repo=None):
    data = os.path.join(repo or common.REPO, "srlife", "data")
    entries, thermals, fluids, tfluids, metallics, ceramics, windows, unsupported = [], [], [], [], [], [], [], []
    if not os.path.isdir(data):
        unsupported.append(lstr("data directory missing"))
    for d in sorted(os.listdir(data)) if os.path.isdir(data) else []:
        dpath = os.path.join(data, d)
        if not os.path.isdir(dpath):
            continue
        for fn in sorted(os.listdir(dpath)):
            if not fn.endswith(".xml"):
                continue
            name = fn[:-4]
            path = os.path.join(dpath, fn)
            try:
                root = ET.parse(path).getroot()
            except ET.ParseError as e:
                unsupported.append(lstr("%s/%s: XML parse error" % (d, name)))
                continue
            raw = open(path, encoding="utf-8", errors="replace").read()
            for m in WINDOW.finditer(raw):
                try:
                    windows.append("(%s, %s, %s, %s)" % (lstr(d), lstr(name), lrat(tok_to_rat(m.group(1))),
                                                         lrat(tok_to_rat(m.group(2)))))
                except Unsupported:
                    pass
            rtype = root.attrib.get("type", "")
            seen = set()
            for v in root:
                if not isinstance(v.tag, str):
                    continue
                if v.tag in seen:
                    unsupported.append(lstr("%s/%s: variant <%s> appears twice" % (d, name, v.tag)))
                    continue
                seen.add(v.tag)
                typ = v.attrib.get("type", "")
                entries.append("{ dir := %s, file := %s, variant := %s, rootType := %s, typ := %s }" % (
                    lstr(d), lstr(name), lstr(v.tag), lstr(rtype), lstr(typ)))
                key = "(%s, %s,\n      " % (lstr(name), lstr(v.tag))
                if d == "thermal":
                    thermals.append(key + thermal(v, typ) + ")")
                elif d == "fluid":
                    fluids.append(key + fluid(v, typ) + ")")
                elif d == "thermalfluid":
                    tfluids.append(key + thermalfluid(v, typ) + ")")
                elif d == "damage":
                    if rtype == "metallic":
                        metallics.append(key + metallic(v) + ")")
                    elif rtype == "ceramic":
                        ceramics.append(key + ceramic(v, typ) + ")")
                    # any other root type: no payload, `dispatch` has no branch for it
                # deformation: NEML reads the file itself; only the entry is recorded
    out = []
    out.append("import SrModel.PW")
    out.append("/-! GENERATED by /verif/gen/gen_data.py from srlife/data/**/*.xml — do not edit.")
    out.append("Exact rationals; regenerated on every run of the C20 check. -/")
    out.append("namespace Gen.Data")
    out.append("open SrModel.PW")
    out.append("")
    out.append("def db : DB where")
    out.append("  entries := " + llist(entries, 4))
    out.append("  thermals := " + llist(thermals, 4))
    out.append("  fluids := " + llist(fluids, 4))
    out.append("  tfluids := " + llist(tfluids, 4))
    out.append("  metallics := " + llist(metallics, 4))
    out.append("  ceramics := " + llist(ceramics, 4))
    out.append("  windows := " + llist(windows, 4))
    out.append("  unsupported := " + llist(unsupported, 4))
    out.append("")
    out.append("/-- line protocol: requests about the generated data (see `SrModel.PW.handleDB`) -/")
    out.append("def handle : List String → Option String := handleDB db")
    out.append("")
    out.append("end Gen.Data")
    return "\n".join(out) + "\n"


def generate(repo=None):
    src = build(repo)
    os.makedirs(os.path.dirname(OUT), exist_ok=True)
    if not os.path.exists(OUT) or open(OUT, encoding="utf-8").read() != src:
        with open(OUT, "w", encoding="utf-8") as f:
            f.write(src)
        return True
    return False


if __name__ == "__main__":
    print("rewritten" if generate() else "unchanged", OUT)
