"""C12 — thermal solution is rotation-equivariant and consistent across abstractions.

Lean: SrProps/C12.lean (shift_equivariance for any number of cells, uniqueness of the rotated
      solution, axisym_2d_is_1d, uniform_3d_is_2d, superposition) on SrModel.Thermal.
Tie:  matrix correspondence (real solve_step system == model rows), biased to 2D/3D.
Search: metamorphic runs of the real FiniteDifferenceImplicitThermalSolver.solve: data rotated by
      every s, 1D vs 2D vs 3D on axisymmetric / axially uniform data, sums of two data sets.
"""
import copy
import os
import sys

sys.path.insert(0, os.path.dirname(os.path.abspath(__file__)))
import math
import numpy as np
import common
import thermal_common as tc


def solve(case, substep=None):
    receiver, thermal, materials = tc.mods()
    tube, mat, fluid = tc.build(case)
    T0fn = None
    if case.T0field is not None:
        prob, _, _, _ = tc.problem(case)
        T0fn = prob.T0
    solver = thermal.FiniteDifferenceImplicitThermalSolver(
        rtol=1e-13, atol=tc.auto_atol(case), miter=30, substep=substep or case.substep, steady=case.steady)
    return np.array(solver.solve(tube, mat, fluid, T0=T0fn))


def rotate_case(case, s):
    c = copy.deepcopy(case)
    for name in ("inner_data", "outer_data"):
        d = getattr(c, name)
        kind = c.inner if name.startswith("inner") else c.outer
        if d is not None and kind in ("fix", "flux"):
            setattr(c, name, np.roll(d, s, axis=1))
    if c.T0field is not None and c.ndim >= 2:
        c.T0field = np.roll(c.T0field, s, axis=1)
    return c


def tol(case, *arrs):
    m = max(float(np.max(np.abs(a))) for a in arrs)
    return 2e-6 * (m + 1.0)


def check_rotation(case, s):
    a = solve(case)
    b = solve(rotate_case(case, s))
    d = float(np.max(np.abs(np.roll(a, s, axis=2) - b)))
    return [] if d <= tol(case, a, b) else ["rotating the data by %d cells: solution differs from rotated solution by %.3e" % (s, d)]


def coarsen_bc(case, factor):
    """the same kind of problem with wall data given on a circumferential grid `factor` times coarser
    than the tube's (documented: the BC grid need not agree with the tube grid); tube nt is made a
    multiple of the BC nt so that a whole BC cell is a whole number of tube cells"""
    c = copy.deepcopy(case)
    c.bc_nt = max(2, case.nt // factor)
    c.nt = c.bc_nt * factor
    for name in ("inner_data", "outer_data"):
        d = getattr(c, name)
        kind = c.inner if name.startswith("inner") else c.outer
        if d is not None and kind in ("fix", "flux"):
            setattr(c, name, np.array(d[:, np.arange(c.bc_nt) % d.shape[1], :]))
    if c.T0field is not None:
        c.T0field = None
    return c


def check_rotation_coarse(case, factor, sbc):
    """rotate the wall data by `sbc` whole BC cells = sbc*factor tube cells"""
    c = coarsen_bc(case, factor)
    a = solve(c)
    b = solve(rotate_case(c, sbc))
    d = float(np.max(np.abs(np.roll(a, sbc * factor, axis=2) - b)))
    return [] if d <= tol(c, a, b) else [
        "BC grid nt=%d on tube nt=%d: rotating the data by %d BC cells (= %d tube cells): solution differs from rotated solution by %.3e"
        % (c.bc_nt, c.nt, sbc, sbc * factor, d)]


def axisym(case):
    """make the wall data independent of theta"""
    c = copy.deepcopy(case)
    for name in ("inner_data", "outer_data"):
        d = getattr(c, name)
        kind = c.inner if name.startswith("inner") else c.outer
        if d is not None and kind in ("fix", "flux"):
            setattr(c, name, np.repeat(d[:, :1, :], d.shape[1], axis=1))
    if c.T0field is not None:
        if c.ndim >= 2:
            c.T0field = np.repeat(c.T0field[:, :1], c.T0field.shape[1], axis=1)
    return c


def zuniform(case):
    c = copy.deepcopy(case)
    for name in ("inner_data", "outer_data", "inner_data2", "outer_data2"):
        d = getattr(c, name)
        if d is None:
            continue
        kind = c.inner if name.startswith("inner") else c.outer
        ax = d.ndim - 1
        setattr(c, name, np.repeat(np.take(d, [0], axis=ax), d.shape[ax], axis=ax))
    if c.T0field is not None and c.ndim == 3:
        c.T0field = np.repeat(c.T0field[:, :, :1], c.T0field.shape[2], axis=2)
    return c


def lower(case, ndim):
    """the same physical problem one abstraction lower (data must already be independent of the
    dropped coordinate)"""
    c = copy.deepcopy(case)
    if c.T0field is not None:
        if case.ndim == 3 and ndim <= 2:
            c.T0field = c.T0field[:, :, 0]
        if ndim == 1 and c.T0field.ndim == 2:
            c.T0field = c.T0field[:, 0]
    c.ndim = ndim
    return c


def check_abstractions(case):
    bad = []
    if case.ndim == 3:
        c3 = zuniform(case)
        a3 = solve(c3)
        a2 = solve(lower(c3, 2))
        d = float(np.max(np.abs(a3 - a2[..., None])))
        if d > tol(case, a3, a2):
            bad.append("axially uniform data: 3D differs from 2D on some plane by %.3e" % d)
    if case.ndim >= 2:
        c2 = axisym(zuniform(case) if case.ndim == 3 else case)
        c2 = lower(c2, 2) if case.ndim == 3 else c2
        a2 = solve(c2)
        a1 = solve(lower(c2, 1))
        d = float(np.max(np.abs(a2 - a1[..., None])))
        if d > tol(case, a2, a1):
            bad.append("axisymmetric data: 2D differs from 1D on some ray by %.3e" % d)
        # the same pair at a slice height that is no axial grid plane (9/32 of the height; the wall data vary with z)
        c2 = copy.deepcopy(c2)
        c2.plane = 0.28125
        a2 = solve(c2)
        a1 = solve(lower(c2, 1))
        d = float(np.max(np.abs(a2 - a1[..., None])))
        if d > tol(case, a2, a1):
            bad.append("axisymmetric data, slice at 9/32 of the height: 2D differs from 1D on some ray by %.3e" % d)
    return bad


def check_superposition(case, rng):
    """constant material: response to (d1 + d2) is the sum of responses (same film coefficients)"""
    c1 = copy.deepcopy(case)
    c2 = copy.deepcopy(case)
    cs = copy.deepcopy(case)
    for name in ("inner_data", "outer_data"):
        d = getattr(case, name)
        kind = case.inner if name.startswith("inner") else case.outer
        if d is None:
            continue
        if kind in ("fix", "flux", "conv", "film"):
            d2 = np.array([tc.dyadic(rng, -100.0, 100.0) for _ in range(d.size)]).reshape(d.shape)
            setattr(c2, name, d2)
            setattr(cs, name, d + d2)
    c2.T0 = tc.dyadic(rng, -100.0, 100.0)
    cs.T0 = case.T0 + c2.T0
    if case.T0field is not None:
        f2 = np.array([tc.dyadic(rng, -100.0, 100.0) for _ in range(case.T0field.size)]).reshape(case.T0field.shape)
        c2.T0field = f2
        cs.T0field = case.T0field + f2
    a, b, s = solve(c1), solve(c2), solve(cs)
    d = float(np.max(np.abs(a + b - s)))
    return [] if d <= tol(case, a, b, s) else ["superposition: T(d1)+T(d2) differs from T(d1+d2) by %.3e" % d]


def small_signal_default(rng):
    """documented default solver parameters (atol 1e-2, rtol 1e-6), T0 = 0, constant material, uniform outer flux
    of decreasing magnitude: the step is linear, so one Newton iteration solves it whatever the magnitude, and
    1D = 2D and additivity must hold in the RELATIVE sense at every magnitude (an absolute-tolerance shortcut
    that skips the solve when the data are small breaks both, at the magnitudes where only one of the two
    abstractions falls under the tolerance)"""
    receiver, thermal, materials = tc.mods()
    base = tc.gen_case(rng, ndim=2, inner="ins", outer="flux", steady=False, const_mat=True, nsteps=3)
    base.T0, base.T0field, base.substep = 0.0, None, 1
    base.nt = rng.choice([8, 16, 36])
    base.bc_nt = base.nt
    base.outer_data = np.zeros((len(base.times), base.nt, base.nz))
    return small_signal_ladder(base), base


def small_signal_ladder(base):
    receiver, thermal, materials = tc.mods()
    bad = []

    def run(c):
        tube, mat, fluid = tc.build(c)
        return np.array(thermal.FiniteDifferenceImplicitThermalSolver().solve(tube, mat, fluid))

    def with_q(q, ndim):
        c = copy.deepcopy(base)
        c.ndim = ndim
        c.outer_data = np.full((len(c.times), c.nt, c.nz), q)
        return c
    for kexp in range(0, 14):
        q = 2.0 ** -kexp
        a2, a1 = run(with_q(q, 2)), run(with_q(q, 1))
        m = float(np.max(np.abs(a2)))
        d = float(np.max(np.abs(a2 - a1[..., None])))
        if d > 1e-6 * m + 1e-300 or m == 0.0:
            bad.append("default tolerances, outer flux %g: 2D differs from 1D by %.3e (max |T| %.3e)" % (q, d, m))
            break
        b1 = run(with_q(1.5 * q, 1))
        s1 = run(with_q(2.5 * q, 1))
        d = float(np.max(np.abs(s1 - a1 - b1)))
        if d > 1e-6 * float(np.max(np.abs(s1))) + 1e-300:
            bad.append("default tolerances, 1D: T(%g) + T(%g) differs from T(%g) by %.3e" % (q, 1.5 * q, 2.5 * q, d))
            break
    return bad


def run(ctx):
    ctx.rule = ("random 2D/3D tubes with BC grid = tube grid; every shift s in 1..nt-1 (quick: two shifts per case); "
                "axisymmetric / axially uniform projections for 1D-2D-3D agreement; sums of two data sets for "
                "constant material; non-trivial when some wall datum or the initial field varies with theta")
    ctx.trusted = ["Lean 4 kernel + Mathlib (propext, Classical.choice, Quot.sound)",
                   "harness/thermal_common.py capture of the real step system",
                   "differences compared at 2e-6 relative (Newton tolerance of the real solves)"]
    ctx.assumptions = ["rotations are by whole cells of both the tube grid and the boundary-condition grid (BC grid = tube grid, or 2-3 times coarser)"]
    thm_ok = common.lean_stage(ctx, [("SrProps.C12", "SrProps/C12.lean", "SrProps.C12")])
    rng = ctx.rng
    n_corr = 30 if ctx.quick() else 300
    n_real = 24 if ctx.quick() else 400
    pairs = [(i, o) for i in tc.KINDS_INNER for o in tc.KINDS_OUTER]
    cases = []
    for n in range(n_corr):
        i, o = pairs[(7 * n) % len(pairs)]
        cases.append(tc.gen_case(rng, ndim=2 + n % 2, inner=i, outer=o))
    mism = tc.matrix_correspondence(ctx, cases, "C12")
    viol = []
    nraised = 0
    for n in range(n_real):
        i, o = pairs[(11 * n + 3) % len(pairs)]
        c = tc.gen_case(rng, ndim=2 + n % 2, inner=i, outer=o, steady=False,
                        const_mat=(n % 3 == 0) or None)
        try:
            bad = []
            shifts = list(range(1, c.nt)) if not ctx.quick() else sorted(set([1, rng.randint(1, c.nt - 1)]))
            for s in shifts:
                bad += [("rotation", m, {"shift": s}) for m in check_rotation(c, s)]
            if n % 2 == 0:
                bad += [("abstraction", m, {}) for m in check_abstractions(c)]
            if n % 3 == 1 and any(k in ("fix", "flux") for k in (c.inner, c.outer)):
                factor = rng.choice([2, 3])
                sbc = rng.randint(1, max(1, c.nt // factor - 1))
                bad += [("rotation-coarse-bc", m, {"factor": factor, "shift": sbc}) for m in check_rotation_coarse(c, factor, sbc)]
            if c.mat_T is None:
                bad += [("superposition", m, {}) for m in check_superposition(c, rng)]
        except (RuntimeError, ValueError) as e:
            ctx.notes.append("real solve raised (C17 / table range, not C12): %r" % (e,))
            nraised += 1
            continue
        varies = any(d is not None and k in ("fix", "flux") for k, d in ((c.inner, c.inner_data), (c.outer, c.outer_data))) or c.T0field is not None
        ctx.case(("real", n, c.ndim, c.inner, c.outer), nontrivial=varies,
                 tag="real/%dD/%s-%s" % (c.ndim, c.inner, c.outer),
                 sample={"suite": "metamorphic real solves", "ndim": c.ndim, "grid": [c.nr, c.nt, c.nz], "inner": c.inner,
                         "outer": c.outer, "shifts": shifts, "failures": [b[1] for b in bad[:2]]})
        for what, detail, extra in bad:
            viol.append((c, what, detail, extra))
    # every wall kind that divides by or multiplies with a wall property, with a temperature-dependent material, a
    # field that is not axisymmetric (theta-varying flux / wall temperature) and several steps, so that the wall
    # properties differ from column to column when the step system is built
    tdep = [("flux", "fix"), ("flux", "conv"), ("conv", "flux"), ("film", "flux"), ("fix", "flux"), ("flux", "flux"), ("ins", "flux")]
    for n, (i, o) in enumerate(tdep * (1 if ctx.quick() else 4)):
        c = tc.gen_case(rng, ndim=2 + n % 2, inner=i, outer=o, steady=False, const_mat=False, nsteps=3)
        # temperatures between the table knots (500, 1000), where the conductivity has a slope
        c.T0 = tc.dyadic(rng, 600.0, 800.0)
        c.T0field = None
        # fluxes large enough to drive circumferential differences of the order of 100 K through the wall
        for name, kind in (("inner_data", i), ("outer_data", o)):
            if kind == "flux":
                q = getattr(c, name)
                sc = 100.0 * float(np.min(c.mat_k)) / (c.t * float(np.max(np.abs(q))) + 1e-300)
                setattr(c, name, q * 2.0 ** round(math.log2(max(sc, 1.0))))
        try:
            bad = []
            for sft in sorted(set([1, rng.randint(1, c.nt - 1)])):
                bad += [("rotation", m, {"shift": sft}) for m in check_rotation(c, sft)]
        except (RuntimeError, ValueError) as e:
            ctx.notes.append("real solve raised (C17 / table range, not C12): %r" % (e,))
            continue
        ctx.case(("real-tdep", n, c.ndim, i, o), nontrivial=True, tag="real-tdep/%dD/%s-%s" % (c.ndim, i, o),
                 sample={"suite": "rotation with temperature-dependent wall properties", "ndim": c.ndim, "inner": i, "outer": o,
                         "failures": [b_[1] for b_ in bad[:2]]})
        for what, detail, extra in bad:
            viol.append((c, what, detail, extra))
    for n in range(2 if ctx.quick() else 10):
        bad, c = small_signal_default(rng)
        ctx.case(("small-signal-default", n), nontrivial=True, tag="real/small-signal/default-tolerances")
        for m in bad:
            viol.append((c, "small-signal", m, {}))
    # the coupled driver hands the flow path the inner-wall ring of a 3-D tube: exactly the nt real columns (no
    # periodic ghost column), otherwise the fluid heat pick-up -- and with it every downstream tube -- depends on where
    # the hot side sits relative to the seam, and rotating the data no longer just rotates the solution
    try:
        import c14
        sl_bad = c14.slicing_check(ctx, rng, 6 if ctx.quick() else 40)
        for desc, what in sl_bad[:2]:
            viol.append((None, "coupled-ring", "add_panel_from_object (coupled driver): the flow path does not receive exactly the real "
                         "theta columns of the tubes' inner wall (%s) for %s" % (what, desc), {}))
    except ImportError:
        pass
    ctx.obligation("the real solver completed on at least 80% of the generated cases (a check that skips everything proves nothing)",
                   nraised * 5 <= n_real, "%d of %d raised" % (nraised, n_real))
    if nraised * 5 > n_real:
        mism = list(mism) + [(cases[0], ["%d of %d real solves raised" % (nraised, n_real)])]
    ctx.obligation("property predicate (rotation equivariance, 1D=2D=3D on symmetric data, superposition) on real solves",
                   not viol, "%d failures; first: %s" % (len(viol), viol[0][1:3] if viol else ""))
    for c, what, detail, extra in viol[:10]:
        if c is None:
            ctx.violation(detail, {"check": what, "rerun": "harness/c14.py slicing_check"}, signature="c12:" + what)
            continue
        ctx.violation("real thermal solve: " + detail, dict({"case": c.to_json(), "check": what}, **extra), signature="c12:" + what)
    if not ctx.violations and (mism or not thm_ok):
        ctx.violation("C12 theorem or correspondence no longer checks",
                      {"mismatches": [(c.to_json(), d) for c, d in mism[:3]], "lean": ctx.extra.get("lean_errors"),
                       "theorems": ctx.extra.get("broken_theorems")}, no_input=True)
    return "proof"


def replay(obj):
    r = obj["replay"]
    if r.get("check") == "coupled-ring":
        import random
        import c14
        bad = c14.slicing_check(common.Ctx("C12", "quick", 0), random.Random(0), 12)
        for b in bad[:3]:
            print("FAILS:", b)
        print("property violated on this input" if bad else "property holds on this input")
        return 1 if bad else 0
    if "case" not in r:
        print("replay names no input:", list(r))
        return 1
    import random
    c = tc.Case.from_json(r["case"])
    if r["check"] == "rotation":
        bad = check_rotation(c, r["shift"])
    elif r["check"] == "rotation-coarse-bc":
        bad = check_rotation_coarse(c, r["factor"], r["shift"])
    elif r["check"] == "abstraction":
        bad = check_abstractions(c)
    elif r["check"] == "small-signal":
        bad = small_signal_ladder(c)
    else:
        bad = check_superposition(c, random.Random(0))
    for m in bad:
        print("FAILS:", m)
    print("property violated on this input" if bad else "property holds on this input")
    return 1 if bad else 0


if __name__ == "__main__":
    sys.exit(common.main("C12", run, replay))
