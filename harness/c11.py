"""C11 — the reported axial stiffness is the derivative of the reported axial force.

Lean: SrModel/Stiffness.lean (model), SrProofs/Stiffness.lean, SrProps/C11.lean
      (integrand_is_contraction, pinned_trace_differs, schur_derivative, schur_hasDerivAt, schur_3d,
      gps_derivative, schurK_eq, gpsStiffness_eq, stiffness_pos, stiffness_pos_gps).
Tie:  (a) the einsum subscripts in `calculate_axial_from_stress` are read from the source (ast) and
          must be the ones the theorems are about (`codedSpec`); the real
          `calculate_axial_from_stress` is run on real 1-D/2-D solver objects whose tangent/stress are
          overwritten with random FULL (non-isotropic, non-symmetric) arrays, once with the real
          condensed solve and once with `calculate_strain` patched to a prescribed full fake strain;
          its force/stiffness are compared with `stiffnessSum`/`forceSum` on Float (1e-12 of the sum of
          |terms|), the model being driven with the subscripts found in the source;
      (b) the real `calculate_axial_from_fea` (captured in real 3-D solves, elastic and creeping) vs a
          dense numpy Schur complement of the real Jacobian and vs `schurK` on Float.
Search: the property itself: for elastic and every shipped deformation model/variant, 1-D, 2-D
      (nt = 8) and small 3-D, single and multi-step histories, at every step: `state.stiffness` vs
      the central difference of `state.force` in the top displacement from the same `state_n`
      (real solver with rtol=1e-12, atol=1e-10, miter=50; delta ladder 1e-6/1e-7/1e-8 h, verdict at the
      largest kink-free rung; rel. tol. 1e-6 elastic, 1e-3 inelastic), and stiffness > 0.  Steps with an
      exactly-singular linear solve (MatrixRankWarning) are skipped and counted.
"""
import ast
import os
import sys
import time
import xml.etree.ElementTree as ET

sys.path.insert(0, os.path.dirname(os.path.abspath(__file__)))
import common
import numpy as np
from common import REPO

ALPHA_CONST = 1.5e-5
TOL_ELASTIC, TOL_INELASTIC = 1.0e-6, 1.0e-3
# inner Newton iteration of the real solver for the derivative comparison: with the default
# rtol = 1e-6 the returned force is only accurate to ~1e-6..4e-4 relative and the *computed* map
# d -> force has a slope that differs from the converged one by up to 1.8e-3 (measured, A617/base)
FD_SOLVER = {"rtol": 1.0e-12, "atol": 1.0e-10, "miter": 50}
_MATS = {}


# ---------------------------------------------------------------------------
# real problems
# ---------------------------------------------------------------------------
def shipped_models():
    """(name, variant) of every model in srlife/data/deformation"""
    d = os.path.join(REPO, "srlife", "data", "deformation")
    out = []
    for fn in sorted(os.listdir(d)):
        if fn.endswith(".xml"):
            root = ET.parse(os.path.join(d, fn)).getroot()
            for ch in root:
                out.append("%s/%s" % (fn[:-4], ch.tag))
    return out


def material(key):
    if key in _MATS:
        return _MATS[key]
    from neml import elasticity, models
    from srlife import library
    if key in ("Econst", "Econst0"):
        em = elasticity.IsotropicLinearElasticModel(150000.0, "youngs", 0.3 if key == "Econst" else 0.0, "poissons")
        m = models.SmallStrainElasticity(em, alpha=ALPHA_CONST)
    else:
        name, variant = key.split("/")
        m = library.load_deformation(name, variant).get_neml_model()
    _MATS[key] = m
    return m


def is_elastic(key):
    return key in ("Econst", "Econst0") or key.endswith("/elastic_model") or key == "SiC/cares"


def make_tube(case):
    from srlife import receiver
    nr, nt, nz = case["mesh"]
    # the tube multiplier is bookkeeping of other stages: force and stiffness of the modelled tube must ignore it
    tube = receiver.Tube(case["r"], case["t"], case["h"], nr, nt, nz, multiplier=case.get("multiplier", 1))
    ndim = case["ndim"]
    if ndim == 1:
        tube.make_1D(tube.h / 2, 0.0)
    elif ndim == 2:
        tube.make_2D(tube.h / 2)
    times = np.array(case["times"], float)
    tube.set_times(times)
    tube.set_pressure_bc(receiver.PressureBC(times, np.array(case["p"], float)))
    T = np.array(case["T"], float)
    tube.add_results("temperature", T[(slice(None),) + (slice(None),) * ndim + (0,) * (3 - ndim)])
    return tube


def gen_case(rng, ndim, mat, nsteps, mesh=None, load=None):
    """random tube, non-axisymmetric temperature field (through-wall gradient + cos(theta) + axial
    variation, 790-900 K so that creep is active; times in hours), pressure and top displacements"""
    if mesh is None:
        mesh = {1: [rng.choice([3, 5]), 4, 2], 2: [3, 8, 2], 3: [3, rng.choice([4, 6]), 2]}[ndim]
    nr, nt, nz = mesh
    r = rng.uniform(5.0, 15.0)
    t = rng.uniform(0.5, 1.5)
    h = rng.uniform(3.0, 10.0)
    times = [0.0]
    for _ in range(nsteps):
        times.append(times[-1] + rng.choice([1.0, 5.0, 20.0, 100.0]))
    Tb = rng.uniform(790.0, 830.0)
    gr, gt, gz = rng.uniform(5.0, 40.0), rng.uniform(0.0, 30.0), rng.uniform(0.0, 10.0)
    th0 = rng.uniform(0.0, 6.28)
    ii, jj, kk = np.meshgrid(np.arange(nr), np.arange(nt), np.arange(nz), indexing="ij")
    shape = gr * ii / (nr - 1) + gt * np.cos(2 * np.pi * jj / nt - th0) * (ii + 1) / nr + gz * kk / max(nz - 1, 1)
    lev = [0.0] + [rng.uniform(0.3, 1.0) for _ in range(nsteps)]
    up = [0.0] + [rng.uniform(0.0, 30.0) for _ in range(nsteps)]
    T = np.array([Tb + lev[k] * shape + up[k] for k in range(nsteps + 1)])
    # mechanical load level: x1 keeps creep mild (tangent nearly isotropic); x3 / x6 make creep and
    # plasticity strongly active, which is where the tangent acquires normal-shear coupling in 2-D.
    # (First version of this generator used x1 only: the reverted einsum fix then changed the
    # stiffness by <= 2e-5 and was not caught by any real history.)
    load = rng.choice([1.0, 3.0, 6.0]) if load is None else load
    p = [0.0] + [load * rng.uniform(0.0, 10.0) for _ in range(nsteps)]
    a = float(material(mat).alpha(Tb))
    d = [h * (a * (float(np.mean(T[k + 1])) - float(np.mean(T[0]))) + load * rng.uniform(-6e-4, 6e-4)) for k in range(nsteps)]
    return dict(ndim=ndim, mat=mat, mesh=mesh, r=r, t=t, h=h, times=times, p=p, T=T.tolist(), d=d, solver=dict(FD_SOLVER), load=load,
                multiplier=(rng.choice([3, 7]) if ndim == 3 else rng.choice([1, 1, 3, 7])))


def gen_quiet_case(rng, ndim, kind):
    """steps whose free dofs are already in equilibrium at the starting guess (the Newton loop has nothing to
    do): 'null-first' = nothing applied in step 1 (cold start of a day), then a loaded step;
    'nu0' = Poisson's ratio 0, pressure held, pure axial extension"""
    mat = "Econst" if kind == "null-first" else "Econst0"
    c = gen_case(rng, ndim, mat, 2, mesh={1: [4, 4, 2], 2: [3, 8, 2], 3: [3, 4, rng.choice([2, 3])]}[ndim])
    T = np.array(c["T"])
    T[:] = T[0]
    h = c["h"]
    if kind == "null-first":
        T[2] = T[0] + 25.0
        c.update(p=[0.0, 0.0, 4.0], d=[0.0, 2e-4 * h])
    else:
        pr = rng.choice([0.0, 6.0])
        c.update(p=[0.0, pr, pr], d=[0.0 if pr else 1e-4 * h, 3e-4 * h])
    c["T"] = T.tolist()
    c["quiet"] = kind
    return c


class HistoryTimeout(Exception):
    pass


class time_limit:
    """wall-clock guard for one real history: a sub-increment that does not converge with miter=50 and
    the line search costs 30-500 s before the adaptive loop gives up; such histories are skipped anyway"""

    def __init__(self, seconds):
        self.seconds = seconds

    def _raise(self, *a):
        raise HistoryTimeout()

    def __enter__(self):
        import signal
        self.old = signal.signal(signal.SIGALRM, self._raise)
        signal.setitimer(signal.ITIMER_REAL, self.seconds)

    def __exit__(self, *a):
        import signal
        signal.setitimer(signal.ITIMER_REAL, 0)
        signal.signal(signal.SIGALRM, self.old)
        return False


LAST_PATTERN = [None]


def solve_w(solver, tube, i, state_n, d):
    """real solve; also says whether an exactly-singular linear solve happened on the way, and records
    in LAST_PATTERN the sub-increment pattern of the adaptive loop (sequence of converged/failed attempts)"""
    import warnings
    from scipy.sparse.linalg import MatrixRankWarning
    from srlife import structural
    names = ["solve_python_1d", "solve_python_2d", "solve_python_3d"]
    saved = {n: getattr(structural, n) for n in names}
    pattern = []

    def mk(orig):
        def f(*a):
            try:
                orig(*a)
                pattern.append("ok")
            except RuntimeError:
                pattern.append("fail")
                raise
        return f
    for n in names:
        setattr(structural, n, mk(saved[n]))
    try:
        with warnings.catch_warnings(record=True) as w:
            warnings.simplefilter("always")
            st = solver.solve(tube, i, state_n, d)
    finally:
        for n in names:
            setattr(structural, n, saved[n])
    LAST_PATTERN[0] = tuple(pattern)
    sing = [str(x.message) for x in w if issubclass(x.category, MatrixRankWarning) or "singular" in str(x.message).lower()]
    return st, sing


def fd_case(case):
    """the property on one real history: at every step compare state.stiffness with the central
    difference of state.force; returns (failures, rows, skipped_reason)"""
    from srlife import structural, spring
    tube = make_tube(case)
    solver = structural.PythonTubeSolver(verbose=False, **case.get("solver", {}))
    sp = spring.TubeSpring(tube, solver, material(case["mat"]))
    tol = TOL_ELASTIC if is_elastic(case["mat"]) else TOL_INELASTIC
    bad, rows = [], []
    for i in range(1, len(case["times"])):
        d = case["d"][i - 1]
        singular = []
        try:
            st, sg = solve_w(solver, tube, i, sp.state_n, d)
            base_pattern = LAST_PATTERN[0]
            subdivided = len(base_pattern) > 1
            singular += [("base", m) for m in sg]
            k, f = float(st.stiffness), float(st.force)
            # delta ladder.  F(d) of a model with rate-independent plasticity has kinks where a
            # quadrature point starts/stops yielding; a stencil that straddles one says nothing about
            # the derivative AT d.  A rung is kink-free when its forward and backward differences
            # agree; the verdict is taken at the largest kink-free rung.  A wrong stiffness formula
            # gives the same mismatch on every rung and is not excused by this.
            ladder, verdict = [], None
            for dl_rel in (1.0e-6, 1.0e-7, 1.0e-8):
                dl = dl_rel * case["h"]
                sp_, sg1 = solve_w(solver, tube, i, sp.state_n, d + dl)
                pat_p = LAST_PATTERN[0]
                sm_, sg2 = solve_w(solver, tube, i, sp.state_n, d - dl)
                pat_m = LAST_PATTERN[0]
                singular += [("+%g h" % dl_rel, m) for m in sg1] + [("-%g h" % dl_rel, m) for m in sg2]
                fp, fm = float(sp_.force), float(sm_.force)
                cen, fwd, bwd = (fp - fm) / (2.0 * dl), (fp - f) / dl, (f - fm) / dl
                # a perturbed solve that went through a different pattern of sub-increments than the base
                # solve evaluates a different branch of F(d): the stencil says nothing about the derivative
                same_path = (pat_p == base_pattern and pat_m == base_pattern)
                smooth = same_path and abs(fwd - bwd) <= tol * max(abs(cen), 1e-300)
                ladder.append(dict(delta_over_h=dl_rel, central=cen, forward=fwd, backward=bwd, kink_free=smooth,
                                   same_subincrement_pattern=same_path))
                if smooth:
                    verdict = (dl_rel, cen)
                    break
        except RuntimeError as e:
            return bad, rows, "step %d did not converge (%s)" % (i, e)
        if singular:
            # not a validly converged step: C11 says nothing about it (counted in the evidence)
            rows.append(dict(step=i, stiffness=k, force=f, skipped_singular_solve=singular[:3], ladder=ladder,
                             rel_err=float("nan")))
            sp.state_np1 = st
            sp.update_state(i)
            continue
        if verdict is None:
            # F(d) has no derivative the stencil can see here (kink, or the perturbed solves switch to another
            # sub-increment pattern): the property says nothing at such a point; counted, not reported
            rows.append(dict(step=i, stiffness=k, force=f, undecided=True, ladder=ladder, rel_err=float("nan")))
        else:
            dl_rel, fd = verdict
            rel = abs(k - fd) / max(abs(fd), 1e-300)
            rows.append(dict(step=i, stiffness=k, central_difference=fd, rel_err=rel, force=f, delta_over_h=dl_rel,
                             rungs_rejected_for_kink=len(ladder) - 1))
            rows[-1]["subincrement_pattern"] = list(base_pattern)
            if not (rel <= tol):
                bad.append(("derivative-subdivided" if subdivided else "derivative",
                            "step %d of %d%s: reported stiffness %.9g, central difference of the reported force "
                            "%.9g at delta = %.0e h (relative difference %.3e > %.0e)" % (
                                i, len(case["times"]) - 1,
                                " (the adaptive loop split this step: attempts %s)" % (list(base_pattern),) if subdivided else "",
                                k, fd, dl_rel, rel, tol)))
        if not (k > 0.0):
            bad.append(("positive", "step %d: reported stiffness %.6g is not positive" % (i, k)))
        sp.state_np1 = st
        sp.update_state(i)
    return bad, rows, None


# ---------------------------------------------------------------------------
# correspondence helpers
# ---------------------------------------------------------------------------
def source_spec():
    """the einsum subscripts in calculate_axial_from_stress of the working tree"""
    src = open(os.path.join(REPO, "srlife", "structural.py")).read()
    tree = ast.parse(src)
    found = []
    for node in ast.walk(tree):
        if isinstance(node, ast.FunctionDef) and node.name == "calculate_axial_from_stress":
            for c in ast.walk(node):
                if isinstance(c, ast.Call) and isinstance(c.func, ast.Attribute) and c.func.attr == "einsum":
                    if c.args and isinstance(c.args[0], ast.Constant) and isinstance(c.args[0].value, str):
                        found.append(c.args[0].value)
    return found


def fl(xs):
    return ",".join(str(common.f2bits(x)) for x in xs)


def parse_fs(s):
    return [] if s == "-" else [common.bits2f(x) for x in s.split(",")]


def configured_solver(ndim, mat, rng):
    """a real PythonSolver with the boundary conditions solve_python_1d/2d/3d give it"""
    from srlife import structural
    case = dict(ndim=ndim, mat=mat, mesh=[3, rng.choice([4, 6, 8]), 2], r=rng.uniform(4.0, 9.0), t=rng.uniform(0.4, 1.0),
                h=rng.uniform(2.0, 6.0), times=[0.0, 1.0], p=[0.0, 1.0], T=np.full((2, 3, 8, 2), 500.0)[:, :, :8, :].tolist(), d=[0.0])
    case["T"] = np.full((2,) + tuple(case["mesh"]), 500.0).tolist()
    tube = make_tube(case)
    solver = structural.PythonTubeSolver(verbose=False)
    sn = solver.init_state(tube, material(mat))
    s1 = sn.copy()
    got = {}
    orig = structural.PythonSolver.solve

    def fake(self, t_n, t_np1, p):
        self.assemble_dirichlet()
        got["ps"] = self

    structural.PythonSolver.solve = fake
    try:
        fn = {1: structural.solve_python_1d, 2: structural.solve_python_2d, 3: structural.solve_python_3d}[ndim]
        fn(sn, 0.0, 0.0, s1, 1.0, 1.0, 0.01, solver.solver_options)
    finally:
        structural.PythonSolver.solve = orig
    return got["ps"], case


def random_tangent(r, shp):
    """isotropic elastic part (keeps the condensed solve well conditioned) + a full random part with
    no symmetry at all"""
    E, nu = 150000.0, 0.3
    lam, mu = E * nu / ((1 + nu) * (1 - 2 * nu)), E / (2 * (1 + nu))
    I = np.eye(3)
    iso = lam * np.einsum("ij,kl->ijkl", I, I) + mu * (np.einsum("ik,jl->ijkl", I, I) + np.einsum("il,jk->ijkl", I, I))
    return iso[..., None, None] + r.uniform(-0.3, 0.3, (3, 3, 3, 3) + shp) * E


def corr_stress(ctx, rng, reps, spec):
    from srlife import structural
    lines, want, keys, scales = [], [], [], []
    for ndim in (1, 2):
        for rep in range(reps):
            ps, case = configured_solver(ndim, "Econst", rng)
            s1 = ps.state_np1
            shp = s1.temperature.shape
            r = np.random.RandomState(rng.randrange(2 ** 31))
            s1.tangent = random_tangent(r, shp)
            s1.stress = r.uniform(-300.0, 300.0, (3, 3) + shp)
            J = ps.jacobian()
            R = np.zeros(J.shape[0])
            prescribed = rep % 2 == 1
            rec = {}
            orig_cs = ps.calculate_strain
            if prescribed:
                fake_strain = r.uniform(-1.0, 1.0, (3, 3) + shp)          # full, non-symmetric, zz != 0
                ps.calculate_strain = lambda D: fake_strain
            else:
                def cs(D):
                    rec["e"] = orig_cs(D)
                    return rec["e"]
                ps.calculate_strain = cs
            ps.calculate_axial_from_stress(R, J)
            eps = fake_strain if prescribed else rec["e"]
            if ndim == 1:
                dx = s1.basis.interpolate(s1.mesh.p[0]).value[0] * s1.basis.dx * 2.0 * np.pi
            else:
                dx = s1.basis.dx
            pts = list(np.ndindex(shp))
            tan = [float(x) for idx in pts for x in s1.tangent[(Ellipsis,) + idx].reshape(81)]
            ee = [float(x) for idx in pts for x in np.asarray(eps)[(Ellipsis,) + idx].reshape(9)]
            lines.append("st_pt %s %d %d %s %s %s %s" % (
                spec, common.f2bits(s1.h), len(pts), fl(dx[idx] for idx in pts), fl(tan), fl(ee),
                fl(s1.stress[(2, 2) + idx] for idx in pts)))
            want.append((float(s1.stiffness), float(s1.force)))
            # independent numpy value of the full contraction, for the evidence
            full = np.einsum("ij...,ij...->...", s1.tangent[2, 2], np.asarray(eps))
            sc_k = float(np.sum((np.einsum("ij...,ij...->...", np.abs(s1.tangent[2, 2]), np.abs(np.asarray(eps)))
                                 + np.abs(s1.tangent[2, 2, 2, 2])) * np.abs(dx)) / s1.h)
            sc_f = float(np.sum(np.abs(s1.stress[2, 2] * dx)))
            scales.append((sc_k, sc_f, float(np.sum((-full + s1.tangent[2, 2, 2, 2]) * dx) / s1.h)))
            keys.append(("stress", ndim, rep, "prescribed" if prescribed else "condensed", len(pts)))
    return lines, want, keys, scales


def corr_fea(ctx, rng, mats):
    """real calculate_axial_from_fea captured in real 3-D solves"""
    from srlife import structural, spring
    lines, info, keys = [], [], []
    orig = structural.PythonSolver.calculate_axial_from_fea
    for mat in mats:
        case = gen_case(rng, 3, mat, 2, mesh=[3, 4, 2])
        cap = []

        def wrap(self, R, J):
            orig(self, R, J)
            cap.append((self, R.copy(), J.copy(), float(self.state_np1.stiffness), float(self.state_np1.force)))

        structural.PythonSolver.calculate_axial_from_fea = wrap
        try:
            tube = make_tube(case)
            solver = structural.PythonTubeSolver(verbose=False)
            sp = spring.TubeSpring(tube, solver, material(mat))
            for i in (1, 2):
                sp.force_and_stiffness(i, case["d"][i - 1])
                sp.update_state(i)
        finally:
            structural.PythonSolver.calculate_axial_from_fea = orig
        for (ps, R, J, k_real, f_real) in cap:
            Jd = np.asarray(J.todense())
            ed = np.array(ps.edofs)
            kd = np.setdiff1d(np.arange(Jd.shape[0]), ed)
            node = ps.state_np1.mesh.nodes_satisfying(lambda x: x[2] > ps.state_np1.h - ps.options["dof_tol"])
            top = ps.state_np1.basis.nodal_dofs[2, node].flatten()
            w = np.isin(ed, top).astype(float)
            J11, J12, J21, J22 = Jd[np.ix_(kd, kd)], Jd[np.ix_(kd, ed)], Jd[np.ix_(ed, kd)], Jd[np.ix_(ed, ed)]
            k_np = float(w @ (J22 @ w - J21 @ np.linalg.solve(J11, J12 @ w)))
            J11i = np.linalg.inv(J11)
            lines.append("st_schur %d %d %s %s %s %s %s" % (len(kd), len(ed), fl(J11i.ravel()), fl(J12.ravel()),
                                                           fl(J21.ravel()), fl(J22.ravel()), fl(w)))
            info.append(dict(k_real=k_real, k_numpy=k_np, f_real=f_real, f_numpy=float(np.sum(R[top])),
                             nfree=len(kd), ness=len(ed), ntop=int(w.sum()),
                             sym=float(np.max(np.abs(Jd - Jd.T)) / np.max(np.abs(Jd)))))
            keys.append(("fea", mat, len(keys)))
    return lines, info, keys


def tangent_case(case):
    """the matrix from which the stiffness is condensed must be the tangent of the state that is returned:
    both `calculate_axial_from_*` routines are handed a Jacobian, and `PythonSolver.jacobian()` is a pure function
    of the stored tangent field, so re-assembling it at the moment of the call must give the same matrix.  The
    solve uses the documented DEFAULT solver tolerances (an over-converged solve hides a matrix that lags one
    iteration behind).  Returns the worst relative difference, "raise" when a step does not converge."""
    from srlife import structural, spring
    origs = {n: getattr(structural.PythonSolver, n) for n in ("calculate_axial_from_fea", "calculate_axial_from_stress")}
    cap = []

    def mk(name):
        def wrap(self, R, J):
            Jn = self.jacobian()
            cap.append(float(abs(J - Jn).max()) / float(abs(Jn).max()))
            return origs[name](self, R, J)
        return wrap
    for n in origs:
        setattr(structural.PythonSolver, n, mk(n))
    try:
        tube = make_tube(case)
        solver = structural.PythonTubeSolver(verbose=False)           # default rtol/atol
        sp = spring.TubeSpring(tube, solver, material(case["mat"]))
        for i in range(1, len(case["times"])):
            sp.force_and_stiffness(i, case["d"][i - 1])
            sp.update_state(i)
    except RuntimeError:
        return "raise", len(cap)
    finally:
        for n, f in origs.items():
            setattr(structural.PythonSolver, n, f)
    return (max(cap) if cap else float("nan")), len(cap)


def current_tangent_check(rng, mats, dims):
    out, fails = [], []
    for ndim in dims:
        for mat in mats:
            case = gen_case(rng, ndim, mat, 2, mesh=[3, 4, 2] if ndim == 3 else None, load=rng.choice([3.0, 6.0]))
            worst, ncalls = tangent_case(case)
            out.append((ndim, mat, worst))
            if worst != "raise" and not worst <= 1e-12:
                fails.append(("stale-tangent", "default solver tolerances: the Jacobian handed to the stiffness condensation differs "
                              "from the tangent of the returned state by %.3e (relative, %d calls)" % (worst, ncalls), case, []))
    return out, fails


# ---------------------------------------------------------------------------
def run(ctx):
    quick = ctx.quick()
    rng = ctx.rng
    ctx.rule = ("correspondence: real 1-D/2-D PythonSolver objects (boundary conditions of solve_python_1d/2d) with "
                "tangent = isotropic + full random 3x3x3x3 part (no symmetry) per quadrature point, random stresses, "
                "fake strain from the real condensed solve or prescribed full random; real 3-D solves (elastic, "
                "creeping) for the Schur form. Property: random tubes, non-axisymmetric 790-900 K temperature "
                "histories in hours, pressure, 1-3 steps, every shipped deformation model/variant + a constant "
                "elastic model, 1-D/2-D (nt=8)/3-D; one case = one history, every step differentiated; "
                "non-trivial = inelastic model or multi-step; distinct = (dimension, model, history)")
    ctx.trusted = ["Lean 4 kernel + Mathlib (propext, Classical.choice, Quot.sound)",
                   "harness/c11.py (ast extraction of the einsum subscripts, capture wrappers)",
                   "NEML: the algorithmic tangent is the derivative of the stress update (checked end-to-end by the "
                   "central differences, not proved)", "scikit-fem assembly (linear in the stress / tangent)",
                   "scipy sparse solves", "Float vs real arithmetic"]
    ctx.assumptions = ["linearised equilibrium of the free dofs at the converged state (Newton tolerance)",
                       "C11 says nothing about steps whose Newton iteration went through an exactly-singular linear solve "
                       "(scipy MatrixRankWarning): they are treated as not validly converged, skipped for the derivative "
                       "comparison and counted (fd_steps_skipped_singular_solve)",
                       "the derivative comparison runs the real PythonTubeSolver with rtol=1e-12, atol=1e-10, miter=50: "
                       "the reported stiffness is the derivative of the CONVERGED force; with the default rtol=1e-6 the "
                       "returned force is a different (under-converged) function of d",
                       "stiffness_pos: full Jacobian symmetric positive definite; for creep/plastic variants this is "
                       "the hypothesis 'algorithmic tangent symmetric positive definite' (NEML), checked numerically "
                       "only through stiffness > 0 on real solves"]
    ctx.notes.append("case generator: second version. The first drew mechanical loads at one level (pressure <= 10 MPa, "
                     "mechanical axial strain <= 6e-4); with it the reverted einsum fix (badb32e) moved the 2-D stiffness "
                     "by <= 2e-5 and no real history failed. Load multipliers {1,3,6} were added after measuring 12-100% "
                     "errors at x3-x6 under the revert; the tolerances were not changed.")
    ctx.notes.append("finite-difference rule: second version. The first used the single step delta = 1e-6 h; with the x3/x6 "
                     "loads it flagged the UNCHANGED tree on 2 of 3 seeds (A617/base 2-D, 1.8e-3 and 1.0e-1). Diagnosis of "
                     "the 10% case: no sub-division, inner tolerance irrelevant, central difference at 1e-7 h agrees with "
                     "the stiffness to 3e-10 while 1e-6/1e-5/1e-4 h are off by 11/5/2% with forward != backward: a yield "
                     "kink of the rate-independent plasticity inside the stencil, not a wrong stiffness. Now a ladder "
                     "1e-6,1e-7,1e-8 h; verdict at the largest rung whose one-sided differences agree; 'undecided' is "
                     "reported, not passed. Tolerances unchanged.")
    ctx.notes.append("inner solver tolerance for the derivative comparison: third change, made on the coordinator's instruction. "
                     "Until then the FD ran with the default rtol=1e-6. Re-measuring the seed-0 clean-tree mismatch (A617/base "
                     "2-D, load x6, step 2 of 2) showed 1.765e-3 on EVERY rung 1e-5..1e-8 h with forward == backward "
                     "(so neither FD noise nor a kink) at default tolerance, and 3e-8 / 5e-7 / 1.5e-7 / 1.5e-7 with "
                     "rtol=1e-12, atol=1e-10, miter=50; the force itself moves from -12682.14 to -12687.56 (4e-4). No "
                     "MatrixRankWarning is emitted in that case for delta <= 1e-5 h: my earlier attribution of this "
                     "mismatch to a singular solve was wrong (the warning came from a delta = 1e-4 h point of a "
                     "diagnostic script).")
    ctx.notes.append("finite-difference tolerances: elastic %.0e (the brief said 1e-5; tightened because a calibration "
                     "probe over 6 materials x 3 dimensions gave <= 2e-11), inelastic %.0e (as in the brief; probe gave "
                     "<= 1.4e-6). Set once before the first run of the check and not changed afterwards. delta = 1e-6*h "
                     "chosen from {1e-4,1e-5,1e-6,1e-7}*h x {default, tight} solver tolerance, all of which agreed "
                     "within 1e-5." % (TOL_ELASTIC, TOL_INELASTIC))
    thm_ok = common.lean_stage(ctx, [("SrProps.C11", "SrProps/C11.lean", "SrProps.C11")])
    drv = common.LeanDriver(["SrModel.Stiffness"])
    mism = []
    nb = 0
    try:
        # ---- (a0) the subscripts
        specs = source_spec()
        coded = drv.ask(["st_spec"])[0].strip()
        spec_ok = specs == [coded]
        kind = drv.ask(["st_parse %s" % (specs[0] if specs else "?")])[0].strip()
        ctx.obligation("correspondence: einsum subscripts in calculate_axial_from_stress are the model's codedSpec",
                       spec_ok, "source %r, model %r, numpy meaning per model: %s" % (specs, coded, kind))
        ctx.case(("spec", tuple(specs)), nontrivial=True, tag="corr/spec")
        if not spec_ok:
            nb += 1
            mism.append(("spec", specs, coded))
        spec = specs[0] if (specs and kind != "unsupported") else coded
        # ---- (a) tensor algebra
        lines, want, keys, scales = corr_stress(ctx, rng, 4 if quick else 20, spec)
        ans = drv.ask(lines)
        nbad, worst = 0, 0.0
        for a, (k_real, f_real), key, (sc_k, sc_f, k_full) in zip(ans, want, keys, scales):
            parts = a.split("|")
            ok = len(parts) == 4
            if ok:
                k_m, f_m = common.bits2f(parts[2]), common.bits2f(parts[3])
                ek, ef = abs(k_m - k_real) / sc_k, abs(f_m - f_real) / max(sc_f, 1e-300)
                worst = max(worst, ek, ef)
                ok = ek <= 1e-12 and ef <= 1e-12
            ctx.case(key, nontrivial=True, tag="corr/stress/%dD/%s" % (key[1], key[3]),
                     sample={"case": key, "real_stiffness": k_real, "model_stiffness": k_m if len(parts) == 4 else None,
                             "numpy_full_contraction": k_full})
            if not ok:
                nbad += 1
                mism.append(("stress", key, k_real, a[:60]))
        ctx.obligation("correspondence (calculate_axial_from_stress): real force/stiffness == model on Float "
                       "(1e-12 of the sum of |terms|)", nbad == 0,
                       "%d mismatches of %d solver objects (%d points); max scaled diff %.2e" % (
                           nbad, len(lines), sum(k[4] for k in keys), worst))
        nb += nbad
        # ---- (b) Schur form
        lines, info, keys = corr_fea(ctx, rng, ["Econst", "316H/elastic_creep"] if quick else
                                     ["Econst", "316H/elastic_creep", "316H/base", "A617/base"])
        ans = drv.ask(lines)
        nbad, worst = 0, 0.0
        for a, inf, key in zip(ans, info, keys):
            k_m = common.bits2f(a) if a != "bad-op" else float("nan")
            e1 = abs(inf["k_numpy"] - inf["k_real"]) / abs(inf["k_real"])
            e2 = abs(k_m - inf["k_real"]) / abs(inf["k_real"])
            e3 = abs(inf["f_numpy"] - inf["f_real"]) / max(abs(inf["f_real"]), 1e-300)
            worst = max(worst, e1, e2, e3)
            ok = e1 <= 1e-9 and e2 <= 1e-8 and e3 <= 1e-12
            ctx.case(key, nontrivial=True, tag="corr/fea/" + key[1], sample=dict(inf, k_model=k_m))
            if not ok:
                nbad += 1
                mism.append(("fea", key, inf, k_m))
        ctx.obligation("correspondence (calculate_axial_from_fea): real stiffness == dense numpy Schur complement "
                       "(1e-9) == model schurK with explicit inverse (1e-8); force == sum of top reactions",
                       nbad == 0, "%d mismatches of %d captured calls; max rel diff %.2e" % (nbad, len(lines), worst))
        nb += nbad
    except common.Infra:
        raise
    except Exception as e:
        import traceback
        nb += 1
        mism.append(("crash", "%s: %s" % (type(e).__name__, e), traceback.format_exc()[-800:]))
        ctx.obligation("correspondence: real code could be driven", False, "%s: %s" % (type(e).__name__, e))

    # ---------------- property predicate: stiffness == dF/dd on real solves ----------------
    models = shipped_models()
    ctx.extra["shipped_models"] = models
    plan = []
    inel = [m for m in models if not is_elastic(m)]
    el = ["Econst"] + [m for m in models if is_elastic(m)]
    if quick:
        for m in inel:                                   # every shipped inelastic variant in 2-D
            plan.append((2, m, rng.choice([2, 3])))
        for m in rng.sample(inel, 5):
            plan.append((2, m, 1))
        for m in rng.sample(inel, 6) + ["Econst"]:
            plan.append((1, m, rng.choice([1, 3])))
        for m in ["Econst", rng.choice(el[1:])]:
            plan.append((2, m, 2))
        for m in ["Econst", "316H/base", rng.choice(inel)]:
            plan.append((3, m, 2))
    else:
        for m in inel + el:
            for ndim in (1, 2, 3):
                for ns in (1, 3):
                    plan.append((ndim, m, ns))
        for m in inel:
            for _ in range(3):
                plan.append((2, m, 3))
    found, skipped, worst_el, worst_in = [], [], 0.0, 0.0
    n_kink, n_steps, sing_steps, n_undecided = [0], [0], [], [0]
    per_history, total_budget = (20.0, 130.0) if quick else (300.0, 1500.0)
    t_fd, unexplored = time.time(), []
    # forced subdivision (force_divide=True): SrProps.C11.substep_elastic_exact says an elastic material
    # reports the derivative however the step is split; substep_inelastic_overreports says a creeping one
    # does not (finding F30) -- both predictions are run on the real solver
    forced = [(1, "Econst", 2, 2), (2, "Econst", 1, 1), (3, "Econst", 1, 1), (2, rng.choice(el[1:]), 2, 2),
              (1, rng.choice(inel), 1, 1)]
    if not quick:
        forced += [(nd, m, 2, md) for nd in (1, 2, 3) for m in el[1:3] for md in (1, 3)] + [(2, m, 1, 2) for m in rng.sample(inel, 4)]
    quiet = [(nd, "Econst" if kd == "null-first" else "Econst0", 2, kd) for nd in (1, 2, 3) for kd in ("null-first", "nu0")]
    plan = [(a, b, c, None) for (a, b, c) in plan] + forced + quiet
    n_forced_elastic = [0, 0]
    for ndim, mat, ns, fdiv in plan:
        if isinstance(fdiv, str):
            case, fdiv = gen_quiet_case(rng, ndim, fdiv), None
        else:
            case = gen_case(rng, ndim, mat, ns)
        if fdiv is not None:
            case["solver"].update(force_divide=True, max_divide=fdiv)
        if time.time() - t_fd > total_budget:
            unexplored.append((ndim, mat, ns))
            continue
        try:
            with time_limit(per_history):
                bad, rows, skip = fd_case(case)
        except HistoryTimeout:
            bad, rows, skip = [], [], "exceeded the per-history time budget of %g s (non-converging sub-increments)" % per_history
        except Exception as e:
            bad, rows, skip = [("raises", "%s: %s" % (type(e).__name__, e))], [], None
        key = (ndim, mat, ns, round(case["r"], 6), round(case["h"], 6))
        ctx.case(key, nontrivial=(not is_elastic(mat)) or ns > 1, tag="fd/%dD/%s/load-x%d" % (ndim, "elastic" if is_elastic(mat) else "inelastic", int(case["load"])),
                 sample={"ndim": ndim, "mat": mat, "mesh": case["mesh"], "times": case["times"], "load": case["load"], "rows": rows, "skipped": skip})
        if skip:
            skipped.append((key, skip))
        for r_ in rows:
            n_steps[0] += 1
            if fdiv is not None and is_elastic(mat) and "rel_err" in r_ and not r_.get("undecided"):
                n_forced_elastic[0] += 1
                n_forced_elastic[1] += len(r_.get("subincrement_pattern", [])) > 1
            if r_.get("skipped_singular_solve"):
                sing_steps.append({"ndim": ndim, "mat": mat, "load": case["load"], "step": r_["step"],
                                   "where": r_["skipped_singular_solve"], "case_for_replay": case})
                continue
            if r_.get("undecided"):
                n_undecided[0] += 1
                continue
            n_kink[0] += r_.get("rungs_rejected_for_kink", 0) > 0
            if is_elastic(mat):
                worst_el = max(worst_el, r_["rel_err"])
            else:
                worst_in = max(worst_in, r_["rel_err"])
        for pred, text in bad:
            found.append((pred, text, case, rows))
    ctx.extra["fd_worst_rel_err"] = {"elastic": worst_el, "inelastic": worst_in}
    ctx.extra["fd_steps_with_kink_inside_first_stencil"] = n_kink[0]
    ctx.extra["fd_steps_total"] = n_steps[0]
    ctx.extra["fd_forced_subdivision_elastic_steps"] = n_forced_elastic[0]
    ctx.obligation("forced subdivision was exercised on elastic materials (prediction of substep_elastic_exact: "
                   "reported stiffness == derivative however the step is split)", n_forced_elastic[1] >= 3,
                   "%d elastic steps differentiated under force_divide, %d of them actually split" % tuple(n_forced_elastic))
    ctx.extra["fd_steps_without_visible_derivative"] = n_undecided[0]
    ctx.obligation("the finite-difference stencil sees a derivative (no kink, same sub-increment pattern) on at least "
                   "90 % of the differentiated steps", n_undecided[0] * 10 <= max(n_steps[0], 1),
                   "%d of %d steps undecided" % (n_undecided[0], n_steps[0]))
    ctx.extra["fd_steps_skipped_singular_solve"] = len(sing_steps)
    ctx.extra["fd_singular_solve_example"] = sing_steps[0] if sing_steps else None
    ctx.notes.append("%d of %d differentiated steps skipped because an exactly-singular linear solve (MatrixRankWarning) "
                     "was emitted during the solve of the base point or of an FD point%s" % (
                         len(sing_steps), n_steps[0],
                         ("; e.g. %dD %s load x%g step %d at %s" % (sing_steps[0]["ndim"], sing_steps[0]["mat"], sing_steps[0]["load"],
                                                                    sing_steps[0]["step"], sing_steps[0]["where"][0][0])) if sing_steps else ""))
    ctx.extra["fd_skipped_nonconverged"] = [list(map(str, s)) for s in skipped[:10]]
    ctx.extra["fd_histories_not_run_total_budget"] = [list(map(str, u)) for u in unexplored]
    if unexplored:
        ctx.notes.append("%d planned histories not run: FD phase reached its %g s budget" % (len(unexplored), total_budget))
    if skipped:
        ctx.notes.append("%d of %d histories skipped because a real step did not converge or the history exceeded %g s" % (len(skipped), len(plan), per_history))
    # ---------------- the condensed matrix is the tangent of the returned state (default tolerances) ----------------
    tmats = (["Econst", "316H/base", "316H/elastic_creep"] if quick else ["Econst"] + inel)
    tout, tfails = current_tangent_check(rng, tmats, (1, 2, 3))
    for (nd, m, w) in tout:
        ctx.case(("tangent", nd, m), nontrivial=(w != "raise"), tag="current-tangent/%dD" % nd,
                 sample={"suite": "Jacobian handed to the condensation vs tangent of the returned state", "ndim": nd, "material": m, "rel_diff": w})
    ctx.obligation("property predicate: the Jacobian from which the stiffness is condensed is the tangent of the returned state "
                   "(default solver tolerances, 1D/2D/3D, %d solves)" % len(tout),
                   not tfails and sum(1 for t in tout if t[2] != "raise") >= len(tout) // 2,
                   ("%d failures; first: %s" % (len(tfails), tfails[0][1])) if tfails else "identical in all solves")
    found = list(found) + tfails
    # failures that are the recorded open finding F30 (sub-divided inelastic step) are reported through the
    # known-findings channel; the obligation is about everything else
    known_sigs = {k.get("signature") for k in common.known_findings() if k.get("status") == "open" and k.get("property") == "C11"}
    found_new = [f for f in found if "c11:" + f[0] not in known_sigs]
    ctx.extra["fd_failures_matching_open_findings"] = len(found) - len(found_new)
    ctx.obligation("property predicate: stiffness == central difference of force and > 0 at every step of %d real "
                   "histories (steps covered by the open finding F30 excepted and reported as KNOWN-FINDING)" % len(plan),
                   not found_new and len(skipped) + len(unexplored) <= len(plan) // 4,
                   ("%d failures; first: %s" % (len(found_new), found_new[0][1])) if found_new else
                   "all hold; worst rel. difference elastic %.2e, inelastic %.2e (inelastic figure includes %d sub-divided steps "
                   "of finding F30); %d skipped" % (worst_el, worst_in, len(found) - len(found_new), len(skipped)))

    # ---------------- outcomes ----------------
    by = {}
    for f in found:
        by.setdefault(f[0], []).append(f)
    for pred, lst in by.items():
        lst.sort(key=lambda f: (f[2]["ndim"], len(f[2]["times"])))
        _, text, case, rows = lst[0]
        ctx.violation("real PythonTubeSolver.solve (%dD, %s): %s" % (case["ndim"], case["mat"], text),
                      {"case": case, "predicate": pred, "rows": rows, "n_failing_histories": len(lst)},
                      signature="c11:" + pred)
    if not found and (nb or not thm_ok):
        what = ("model and code disagree (%d correspondence items) but no real solve violates the property" % nb) if nb \
            else "a C11 theorem no longer checks"
        ctx.violation(what, {"mismatches": [repr(m)[:500] for m in mism[:5]], "lean": ctx.extra.get("lean_errors"),
                             "theorems": ctx.extra.get("broken_theorems"),
                             "correspondence": "harness/c11.py vs SrModel.Stiffness"}, no_input=True)
    return "proof"


def replay(obj):
    r = obj["replay"]
    if "case" not in r:
        print("replay names no input:", r)
        return 1
    c = r["case"]
    if r.get("predicate") == "stale-tangent":
        worst, ncalls = tangent_case(c)
        print("case: %dD material=%s: Jacobian handed to the condensation vs tangent of the returned state: %s (%d calls)" % (
            c["ndim"], c["mat"], worst, ncalls))
        return 0 if (worst == "raise" or worst <= 1e-12) else 1
    bad, rows, skip = fd_case(c)
    print("case: %dD material=%s mesh=%s r=%.4g t=%.4g h=%.4g times=%s" % (c["ndim"], c["mat"], c["mesh"], c["r"], c["t"], c["h"], c["times"]))
    for row in rows:
        if row.get("undecided") or "central_difference" not in row:
            print("  step %d: stiffness %.9g  force %.6g  -- no derivative visible to the stencil (kink or switch of "
                  "sub-increment pattern between the perturbed solves): %s" % (
                      row["step"], row["stiffness"], row["force"], (row.get("ladder") or [{}])[-1]))
            continue
        print("  step %(step)d: stiffness %(stiffness).9g  central difference %(central_difference).9g  rel %(rel_err).3e  force %(force).6g" % row)
    if skip:
        print("  skipped:", skip)
    for pred, text in bad:
        print("  FAILS [%s]: %s" % (pred, text))
    print("property holds on this input" if not bad else "property violated on this input")
    return 1 if bad else 0


if __name__ == "__main__":
    sys.exit(common.main("C11", run, replay))
