"""MANIFEST.setup_cmd: regenerate Gen/ from /repo and build the whole Lean project offline."""
import os, sys, glob
sys.path.insert(0, os.path.dirname(os.path.abspath(__file__)))
import common

def main():
    try:
        import gen_all
        gen_all.generate()
    except ImportError:
        pass
    ok, log = common.lake_build([])
    print(log[-3000:])
    if not ok:
        # a failing proof is reported by the individual checks, not by setup
        print("setup: lake build reported errors (individual checks will report them)")
    bad = common.forbidden_tokens()
    if bad:
        print("forbidden tokens:", bad)
    return 0

if __name__ == "__main__":
    sys.exit(main())
