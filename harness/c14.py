"""C14 — flow-path solution balances heat and mass at every link.

Lean: SrModel/Flowpath.lean (model; the fluid functions come from SrModel/Fluid.lean),
      SrProofs/Flowpath.lean, SrProps/C14.lean (theorems over an ordered field).
Tie:  correspondence on random chains (1-4 panels, 1-4 explicitly represented tubes per panel,
      multipliers, nt 1-6, nz 1-8, shipped fluids and a constant-property fluid): at a random state
      vector and at a random query time, every link's residual vector from the real
      `StartLink/SimplePanelLink/ManifoldLink.residual` (called with the slices `RJ` uses), the
      `dof_map` of `_setup` (exact), and the flow rates / fluid-temperature profiles of
      `recover_tube_results`, against the model on `Float`.  Tolerance 1e-10 relative; for the panel
      residual `Q_mass - Q_conv` (a difference) relative to max(|Q_mass|, |Q_conv|) of that tube, for
      the manifold/start residual relative to the temperatures involved.  (Same formulas in
      binary64; jnp.sum's association order and XLA's a*b+c contraction differ.)
      `add_panel_from_object`: index-coded ghost arrays for 1D/2D/3D tubes, exact comparison.
Search: the real `FlowPath.solve` output against the property itself, recomputed independently in
      numpy (own interpolation in time, own linspace, own Gnielinski film coefficient): inlet node,
      per-tube heat balance, manifold mean, mass split and linear profile of
      `recover_tube_results`, within the convergence criterion the solver applied
      (|R_i| <= ||R|| <= max(atol, rtol*||R(0)||)).
"""
import os
import sys
import math

sys.path.insert(0, os.path.dirname(os.path.abspath(__file__)))
import common
from common import REPO
import numpy as np
import c18  # fluid_numbers, reference (independent numpy film coefficient)

REL = 1e-10


# ---------------------------------------------------------------------------
# case description (JSON-able) -> real objects
# ---------------------------------------------------------------------------
def make_case(rng, fluids, small=False):
    ntime = rng.randint(2, 3)
    times = [0.0]
    for _ in range(ntime - 1):
        times.append(times[-1] + rng.uniform(0.5, 2.0))
    inlet = [rng.uniform(550, 850) for _ in range(ntime)]
    mass = [rng.uniform(2e5, 2e6) for _ in range(ntime)]
    npan = rng.randint(1, 2 if small else 4)
    panels = []
    for _ in range(npan):
        ntube = rng.randint(1, 3 if small else 4)
        nt, nz = rng.randint(1, 6), rng.choice([1, 2, 2, 3, 4, 5, 8])
        if rng.random() < 0.7:
            w = [float(rng.randint(1, 40)) for _ in range(ntube)]
        else:
            w = [rng.uniform(0.5, 40) for _ in range(ntube)]
        # most tubes are heated by their wall; in about a third of the panels some tube is COOLED by it (shaded tube,
        # cold start: wall below the arriving stream, outlet colder than inlet)
        cold = [rng.random() < 0.5 for _ in range(ntube)] if rng.random() < 0.35 else [False] * ntube
        metal = [[[[(inlet[i] - rng.uniform(20, 150)) if cold[j] else (inlet[i] + rng.uniform(20, 250)) for _ in range(nz)]
                   for _ in range(nt)] for j in range(ntube)] for i in range(ntime)]
        panels.append({"weights": w, "ri": rng.uniform(5, 25), "h": rng.uniform(2000, 12000),
                       "metal": metal})
    t = rng.choice([times[0], times[-1], times[rng.randrange(ntime)]]) if rng.random() < 0.25 \
        else rng.uniform(times[0], times[-1])
    # one third each: the salt, an sCO2 variant, anything (incl. the constant-property fluid)
    files = sorted({f.get("file", "") for f in fluids})
    pick = rng.choice(files + [None])
    fluid = rng.choice([f for f in fluids if pick is None or f.get("file", "") == pick])
    return {"fluid": fluid, "times": times, "inlet": inlet, "mass": mass, "panels": panels, "t": t,
            "rtol": rng.choice([1e-6, 1e-6, 1e-10]), "atol": 1e-8}


def build(case):
    from srlife.thermohydraulics import flowpath
    mat = c18.make_fluid(case["fluid"])
    kw = {"miter": case["miter"]} if "miter" in case else {}
    fp = flowpath.FlowPath(np.array(case["times"]), np.array(case["mass"]), np.array(case["inlet"]),
                           rtol=case.get("rtol", 1e-6), atol=case.get("atol", 1e-8), **kw)
    for p in case["panels"]:
        fp.add_panel(np.array(p["weights"]), p["ri"], p["h"], np.array(p["metal"]), mat)
    return fp, mat


def random_state(rng, case):
    """a state vector that is not the solution"""
    lo = min(case["inlet"])
    n = 1 + sum(len(p["weights"]) + 1 for p in case["panels"])
    return [lo + rng.uniform(-50, 300) for _ in range(n)]


# ---------------------------------------------------------------------------
# real code, link by link (the slices are the ones RJ / recover_tube_results use)
# ---------------------------------------------------------------------------
def real_links(fp, T, t):
    fp._setup()
    T = np.asarray(T, float)
    res, parts = [], []
    prev = []
    for obj, dofs in zip(fp.chain, fp.dof_map):
        Tp, Tc = T[prev], T[dofs]
        r = np.atleast_1d(np.asarray(obj.residual(Tp, Tc, t), float))
        res.append(r)
        if hasattr(obj, "Q_mass"):
            parts.append((np.asarray(obj.Q_mass(Tp, Tc, t), float), np.asarray(obj.Q_conv(Tp, Tc, t), float)))
        else:
            parts.append(None)
        prev = dofs
    try:
        fr, tt = fp.recover_tube_results(T, t)
    except Exception as e:  # the real code must be able to report on any state vector of the right length
        fr, tt = [], []
        rec_err = "%s: %s" % (type(e).__name__, e)
    else:
        rec_err = None
    return {"recover_error": rec_err, "res": res, "parts": parts, "dof_map": [list(map(int, d)) for d in fp.dof_map], "nvals": fp.nvals,
            "flow": [np.asarray(x, float) for x in fr], "temps": [np.asarray(x, float) for x in tt]}


def model_line(case, mat, fp, T, t):
    b = common.f2bits
    fs = lambda xs: ",".join(str(b(x)) for x in xs) if len(xs) else "-"
    num = c18.fluid_numbers(mat)
    words = ["c14", b(num["film_min"]), b(num["T_max"]), b(num["T_min"]), b(num["laminar_cutoff"]),
             b(num["laminar_value"]), fs(num["cp"]), fs(num["rho"]), fs(num["mu"]), fs(num["k"]),
             b(np.pi), b(float(fp.chain[0].T_inlet(t))), fs(T)]
    for link in fp.chain[1::2]:
        metal = np.asarray(link.metal_temperature(t), float)  # (ntube, nt, nz)
        words += [fs(np.asarray(link.weights, float)), b(link.ri), b(link.h), metal.shape[1], metal.shape[2],
                  b(float(link.mass_flow_rate(t))), fs(metal.reshape(-1))]
    return " ".join(str(w) for w in words)


def parse_answer(ans):
    R, D, U, F = ans.split(" ")
    bf = common.bits2f
    pl = lambda s: [] if s == "-" else [bf(x) for x in s.split(",")]
    return {"res": [pl(x) for x in R.split("|")],
            "dof_map": [[] if x == "-" else [int(y) for y in x.split(",")] for x in D.split("|")],
            "flow": [pl(x) for x in U.split("|")] if U else [],
            "temps": [[pl(y) for y in x.split(";")] for x in F.split("|")] if F else []}


def close_abs(a, b, scale):
    if a == b or (a != a and b != b):
        return True
    return abs(a - b) <= REL * scale


# ---------------------------------------------------------------------------
# the property, recomputed independently (numpy only)
# ---------------------------------------------------------------------------
def lerp(times, ys, t):
    """piecewise-linear interpolation along axis 0, written out (not scipy)"""
    times, ys = np.asarray(times, float), np.asarray(ys, float)
    if t == times[-1]:
        return ys[-1].copy()
    j = int(np.searchsorted(times, t, side="right")) - 1
    j = max(0, min(j, len(times) - 2))
    s = (t - times[j]) / (times[j + 1] - times[j])
    return ys[j] + s * (ys[j + 1] - ys[j])


def independent_residual(case, num, T, t):
    """per-link residuals, and the quantities the predicates need, from the case description only"""
    T = np.asarray(T, float)
    Tin = float(lerp(case["times"], case["inlet"], t))
    mdot = float(lerp(case["times"], case["mass"], t))
    out = {"start": T[0] - Tin, "Tin": Tin, "mdot": mdot, "panels": []}
    pos = 0
    for p in case["panels"]:
        w = np.asarray(p["weights"], float)
        n = len(w)
        Ts, Tt, Tm = T[pos], T[pos + 1: pos + 1 + n], T[pos + 1 + n]
        metal = lerp(case["times"], p["metal"], t)  # (ntube, nt, nz)
        nt, nz = metal.shape[1], metal.shape[2]
        N = w.sum()
        Tbar = 0.5 * (Ts + Tt)
        cp = np.polyval(num["cp"], Tbar)
        rho = np.polyval(num["rho"], np.clip(Tbar, num["T_min"], num["T_max"]))
        u = mdot / (N * np.pi * rho * p["ri"] ** 2)
        hf = c18.reference(num, Tbar, u, np.full(n, p["ri"]))["film"]
        z = np.linspace(0.0, p["h"], nz)
        Tf = Ts + (Tt - Ts)[:, None] * z[None, :] / p["h"]      # (ntube, nz)
        dz, dth = p["h"] / nz, 2 * np.pi / nt
        gain = w * mdot / N * cp * (Tt - Ts)
        conv = p["ri"] * dz * dth * np.array([w[i] * hf[i] * np.sum(metal[i] - Tf[i][None, :]) for i in range(n)])
        out["panels"].append({"gain": gain, "conv": conv, "manifold": float(np.sum(w * Tt) / N - Tm),
                              "Ts": float(Ts), "Tt": Tt.copy(), "Tm": float(Tm), "u": u, "rho": rho, "z": z, "Tf": Tf,
                              "w": w, "N": float(N), "mean_out": float(np.sum(w * Tt) / N)})
        pos += n + 1
    return out


def res_norm(ind):
    parts = [np.atleast_1d(ind["start"])]
    for p in ind["panels"]:
        parts += [p["gain"] - p["conv"], np.atleast_1d(p["manifold"])]
    return float(np.linalg.norm(np.concatenate(parts)))


def solve_predicate(case, num, fp, T, t):
    """the C14 property on a returned solution; list of failures"""
    bad = []
    T = np.asarray(T, float)
    n_expected = 1 + sum(len(p["weights"]) + 1 for p in case["panels"])
    if T.shape != (n_expected,):
        return ["solve returned a vector of shape %s, the chain has %d unknowns" % (T.shape, n_expected)]
    ind = independent_residual(case, num, T, t)
    ind0 = independent_residual(case, num, np.zeros_like(T), t)
    nr0 = res_norm(ind0)
    # what the solver's own convergence test guarantees for every single equation
    tol = max(case.get("atol", 1e-8), case.get("rtol", 1e-6) * nr0) * (1 + 1e-6)
    if abs(ind["start"]) > tol + 1e-9 * abs(ind["Tin"]):
        bad.append("inlet node T[0] = %r, prescribed inlet temperature at t=%r is %r" % (float(T[0]), t, ind["Tin"]))
    for k, p in enumerate(ind["panels"]):
        for i in range(len(p["gain"])):
            scale = max(abs(p["gain"][i]), abs(p["conv"][i]))
            if abs(p["gain"][i] - p["conv"][i]) > tol + 1e-9 * scale:
                bad.append("panel %d tube %d: enthalpy gain w*mdot/N*cp*(T_out-T_in) = %r but convective heat "
                           "r*dz*dtheta*sum w*h_f*(T_metal-T_fluid) = %r (allowed %g)" % (k, i, float(p["gain"][i]), float(p["conv"][i]), tol))
        if abs(p["manifold"]) > tol + 1e-9 * abs(p["Tm"]):
            bad.append("manifold %d: T = %r, multiplier-weighted mean of the tube outlets = %r" % (k, p["Tm"], p["mean_out"]))
    # reported velocities and profiles
    try:
        fr, tt = fp.recover_tube_results(T, t)
    except Exception as e:
        bad.append("recover_tube_results raised %s: %s on the returned solution" % (type(e).__name__, e))
        return bad
    if len(fr) != len(case["panels"]) or len(tt) != len(case["panels"]):
        bad.append("recover_tube_results reports %d/%d panels, the chain has %d" % (len(fr), len(tt), len(case["panels"])))
        return bad
    for k, (p, pc) in enumerate(zip(ind["panels"], case["panels"])):
        u = np.atleast_1d(np.asarray(fr[k], float))
        prof = np.asarray(tt[k], float)
        if u.shape != p["u"].shape:
            bad.append("panel %d: %s velocities reported for %d tubes" % (k, u.shape, len(p["u"])))
            continue
        carried = float(np.sum(p["w"] * p["rho"] * u * np.pi * pc["ri"] ** 2))
        if abs(carried - ind["mdot"]) > 1e-9 * abs(ind["mdot"]):
            bad.append("panel %d: reported velocities carry sum w*rho*u*pi*r^2 = %r, prescribed mass flow is %r" % (k, carried, ind["mdot"]))
        if np.any(np.abs(u * p["w"].sum() - p["u"] * p["N"]) > 1e-9 * np.abs(p["u"] * p["N"])):
            bad.append("panel %d: reported velocities %s are not mdot/(N*pi*rho*r^2) = %s of this panel" % (k, u.tolist(), p["u"].tolist()))
        if prof.shape != p["Tf"].shape:
            bad.append("panel %d: profile of shape %s, expected %s" % (k, prof.shape, p["Tf"].shape))
            continue
        span = np.abs(p["Tf"]).max()
        if np.abs(prof - p["Tf"]).max() > 1e-9 * span:
            i, j = np.unravel_index(np.argmax(np.abs(prof - p["Tf"])), prof.shape)
            bad.append("panel %d tube %d: reported fluid temperature at z=%r is %r, the line from T_in=%r (z=0) to "
                       "T_out=%r (z=h) gives %r" % (k, int(i), float(p["z"][j]), float(prof[i, j]), p["Ts"], float(p["Tt"][i]), float(p["Tf"][i, j])))
        if np.abs(prof[:, 0] - p["Ts"]).max() > 1e-9 * span:
            bad.append("panel %d: profile at z=0 is %s, panel inlet temperature is %r" % (k, prof[:, 0].tolist(), p["Ts"]))
        if prof.shape[1] > 1 and np.abs(prof[:, -1] - p["Tt"]).max() > 1e-9 * span:
            bad.append("panel %d: profile at z=h is %s, tube outlet temperatures are %s" % (k, prof[:, -1].tolist(), p["Tt"].tolist()))
    return bad


# ---------------------------------------------------------------------------
# add_panel_from_object: index-coded ghost arrays
# ---------------------------------------------------------------------------
def slicing_check(ctx, rng, n):
    from srlife import receiver
    from srlife.thermohydraulics import flowpath
    bad = []
    for c in range(n):
        ntime = rng.randint(2, 3)
        times = np.arange(ntime, dtype=float)
        nr, nt, nz = rng.randint(2, 4), rng.randint(2, 5), rng.randint(2, 5)
        # tube order in the link is the panel's insertion order: custom names that do not sort in insertion order,
        # or more than ten default names ('10' sorts before '2'), must not change it
        naming = rng.choice(["default", "custom", "many-default"])
        ntube = rng.randint(11, 12) if naming == "many-default" else rng.randint(1, 3)
        names = [None] * ntube
        if naming == "custom":
            names = rng.sample(["b", "a", "10", "2", "tube-z", "Tube-A", "01"], ntube)
        panel = receiver.Panel(1.0)
        kinds, mults = [], []
        R, t_, H = rng.uniform(10, 30), rng.uniform(1, 3), rng.uniform(1000, 5000)
        for j in range(ntube):
            mult = rng.randint(1, 30)
            tube = receiver.Tube(R, t_, H, nr, nt, nz, multiplier=mult)
            kind = rng.choice(["1D", "2D", "3D"])
            if kind == "1D":
                tube.make_1D(H / 2, 0.3)
            elif kind == "2D":
                tube.make_2D(H / 2)
            tube.set_times(times)
            shape = {"3D": (ntime, nr + 2, nt + 2, nz + 2), "2D": (ntime, nr + 2, nt + 2), "1D": (ntime, nr + 2)}[kind]
            idx = np.indices(shape)
            # value encodes (tube, time, r, theta, z)
            code = 1e8 * (j + 1) + 1e6 * idx[0] + 1e4 * idx[1]
            if kind in ("2D", "3D"):
                code = code + 1e2 * idx[2]
            if kind == "3D":
                code = code + idx[3]
            tube.add_quadrature_results("ghost_temperature", code.astype(float))
            panel.add_tube(tube, names[j])
            kinds.append(kind)
            mults.append(mult)
        fp = flowpath.FlowPath(times, np.ones(ntime), np.ones(ntime))
        desc0 = {"kinds": kinds, "nr": nr, "nt": nt, "nz": nz, "ntime": ntime, "names": names}
        try:
            fp.add_panel_from_object(panel, None)
        except Exception as e:   # a valid panel: the real code must accept it
            ctx.case(("slicing", c, tuple(kinds), nr, nt, nz), tag="add_panel_from_object/raised")
            bad.append((desc0, "add_panel_from_object raises %s: %s" % (type(e).__name__, str(e)[:120])))
            continue
        link, man = fp.chain[-2], fp.chain[-1]
        got = np.asarray(link.metal_temp)
        exp = np.zeros((ntime, ntube, nt, nz))
        for j, kind in enumerate(kinds):
            for a in range(ntime):
                for th in range(nt):
                    for z in range(nz):
                        # inner-wall node (radial index 1), interior theta / z nodes (ghost layers dropped)
                        v = 1e8 * (j + 1) + 1e6 * a + 1e4 * 1
                        if kind in ("2D", "3D"):
                            v += 1e2 * (th + 1)
                        if kind == "3D":
                            v += (z + 1)
                        exp[a, j, th, z] = v
        desc = {"kinds": kinds, "nr": nr, "nt": nt, "nz": nz, "ntime": ntime, "names": names}
        ok = got.shape == exp.shape and np.array_equal(got, exp)
        ok_w = list(np.asarray(link.weights, float)) == [float(m) for m in mults] and \
            list(np.asarray(man.weights, float)) == [float(m) for m in mults]
        ok_g = float(link.ri) == R - t_ and float(link.h) == H
        ctx.case(("slicing", c, tuple(kinds), nr, nt, nz), tag="add_panel_from_object/" + "+".join(sorted(set(kinds))))
        if not (ok and ok_w and ok_g):
            bad.append((desc, "metal_temp indices" if not ok else "weights" if not ok_w else "ri/h"))
    return bad


# ---------------------------------------------------------------------------
# run
# ---------------------------------------------------------------------------
def fluids_available():
    import xml.etree.ElementTree as ET
    ddir = os.path.join(REPO, "srlife", "data", "thermalfluid")
    out = []
    for fn in sorted(os.listdir(ddir)):
        if fn.endswith(".xml"):
            for m in ET.parse(os.path.join(ddir, fn)).getroot():
                out.append({"kind": "shipped", "file": fn[:-4], "variant": m.tag})
    # the constant-property fluid of the upstream analytic test (exercises degree-0 polynomials)
    out.append({"kind": "poly", "cp": [0.3], "rho": [1.9e-6], "mu": [1.5e-2], "k": [5e-4], "scalars": {}})
    # the shipped property polynomials with a NARROW documented validity window, so that the fluid runs below / above it
    # (inlet temperatures are 550..850): the window clips the temperature for the film correlation (and for the density
    # the code documents), not for the heat capacity of the enthalpy balance
    for spec in list(out[:-1])[:2]:
        num = c18.fluid_numbers(c18.make_fluid(spec))
        for lo, hi in ((900.0, 1050.0), (300.0, 600.0)):
            out.append({"kind": "poly", "file": "windowed", "cp": num["cp"], "rho": num["rho"], "mu": num["mu"], "k": num["k"],
                        "scalars": {"film_min": num["film_min"], "T_max": hi, "T_min": lo,
                                    "laminar_cutoff": num["laminar_cutoff"], "laminar_value": num["laminar_value"]}})
    return out


def run(ctx):
    ctx.rule = ("random chains: 1-4 panels x 1-4 explicitly represented tubes, integer or real multipliers, nt 1-6, "
                "nz 1-8, 2-3 time points, query time inside / on a node of the history, every shipped fluid variant + "
                "one constant-property fluid + shipped polynomials with a narrow validity window (fluid below / above it); correspondence at a random state vector (and at the solution for the solved "
                "chains); non-trivial = at least one panel with >= 2 tubes or >= 2 panels; distinct = distinct chain.")
    ctx.trusted = ["Lean 4 kernel + Mathlib (propext, Classical.choice, Quot.sound)",
                   "correspondence harness harness/c14.py; the fluid functions are the C18 model (SrModel.Fluid)",
                   "scipy interp1d (time interpolation of inlet / mass flow / metal temperature) enters the model as its value "
                   "at the query time; the predicate re-interpolates independently",
                   "spsolve / jacfwd affect only convergence, never a returned vector that passed the residual test"]
    ctx.assumptions = ["uniform geometry within a panel (the code takes ri, h from the first tube)",
                       "sum of multipliers, pi, ri, rho(T_mean) non-zero for the mass split"]
    thm_ok = common.lean_stage(ctx, [("SrProps.C14", "SrProps/C14.lean", "SrProps.C14")])
    drv = common.LeanDriver(["SrModel.Flowpath", "SrModel.Fluid"])
    rng = ctx.rng
    quick = ctx.quick()
    fluids = fluids_available()

    # ---- dof map alone, on arbitrary size lists (exact) ----
    dof_lines, dof_expect = [], []
    for _ in range(20 if quick else 200):
        sizes = [rng.randint(0, 5) for _ in range(rng.randint(0, 9))]
        dof_lines.append("c14dof " + (",".join(map(str, sizes)) or "-"))
        off, exp = 0, []
        for s in sizes:
            exp.append(list(range(off, off + s)))
            off += s
        dof_expect.append("|".join((",".join(map(str, e)) or "-") for e in exp))
    dof_ans = drv.ask(dof_lines)
    dof_bad = [(l, a, e) for l, a, e in zip(dof_lines, dof_ans, dof_expect) if a != e]
    for l in dof_lines:
        ctx.case(("dof", l), tag="dof map")

    # ---- chains ----
    n_corr = 40 if quick else 400
    n_solve = 12 if quick else 120
    cases = [make_case(rng, fluids, small=(i < n_solve)) for i in range(n_corr)]
    lines, reals, metas = [], [], []
    solved, solve_bad, solve_fail = 0, [], 0
    n_starved, starved_cases = [0, 0], {}      # [raised, returned]
    for ci, case in enumerate(cases):
        fp, mat = build(case)
        num = c18.fluid_numbers(mat)
        t = case["t"]
        states = [("random", random_state(rng, case))]
        if ci < n_solve:
            try:
                Tsol = fp.solve(t)
                solved += 1
                states.append(("solution", [float(x) for x in Tsol]))
                pb = solve_predicate(case, num, fp, Tsol, t)
                if pb:
                    solve_bad.append((ci, pb, [float(x) for x in Tsol]))
                # batch post-processing: the same path object goes on to another instant, then the stored solution
                # is reported on for ITS time (results for a time depend on that time, not on the object's last solve)
                t2 = case["times"][0] if t != case["times"][0] else case["times"][-1]
                try:
                    fp.solve(t2)
                except RuntimeError:
                    pass
                pb = solve_predicate(case, num, fp, Tsol, t)
                if pb:
                    solve_bad.append((ci, ["after the path object solved another instant (t=%r): %s" % (t2, m) for m in pb],
                                      [float(x) for x in Tsol]))
            except RuntimeError as e:
                solve_fail += 1  # a loud failure is not a C14 matter (C17)
            # the same chain with an iteration budget too small to converge: either a loud failure, or -- if the
            # solver does return -- a state that balances heat and mass like any other returned state
            starved = dict(case, miter=1 + ci % 2)
            try:
                fps, _ = build(starved)
                Ts_ = fps.solve(t)
                pb = solve_predicate(starved, num, fps, Ts_, t)
                n_starved[1] += 1
                if pb:
                    solve_bad.append((ci, ["with miter=%d: %s" % (starved["miter"], m) for m in pb], [float(x) for x in Ts_]))
                    starved_cases[ci] = starved
            except RuntimeError:
                n_starved[0] += 1
        for label, T in states:
            real = real_links(fp, T, t)
            lines.append(model_line(case, mat, fp, T, t))
            reals.append(real)
            metas.append((ci, label, T))
    answers = drv.ask(lines)

    mism = []
    for (ci, label, T), real, ans in zip(metas, reals, answers):
        case = cases[ci]
        nontriv = len(case["panels"]) >= 2 or any(len(p["weights"]) >= 2 for p in case["panels"])
        sample = None
        if ans == "bad-op":
            mism.append((ci, label, "bad-op"))
        else:
            m = parse_answer(ans)
            if real["recover_error"]:
                mism.append((ci, label, "recover_tube_results raised", real["recover_error"]))
            if m["dof_map"] != real["dof_map"]:
                mism.append((ci, label, "dof_map", real["dof_map"], m["dof_map"]))
            if len(m["res"]) != len(real["res"]):
                mism.append((ci, label, "number of links", len(real["res"]), len(m["res"])))
            else:
                Tmax = max(abs(x) for x in T)
                for li, (rr, rm, parts) in enumerate(zip(real["res"], m["res"], real["parts"])):
                    if len(rr) != len(rm):
                        mism.append((ci, label, "link %d size" % li, len(rr), len(rm)))
                        continue
                    for i in range(len(rr)):
                        scale = max(abs(parts[0][i]), abs(parts[1][i])) if parts is not None else Tmax
                        if not close_abs(float(rr[i]), rm[i], max(scale, 1e-300)):
                            mism.append((ci, label, "link %d residual[%d]" % (li, i), float(rr[i]), rm[i]))
            if real["recover_error"]:
                pass
            elif len(m["flow"]) != len(real["flow"]) or len(m["temps"]) != len(real["temps"]):
                mism.append((ci, label, "recover length", len(real["flow"]), len(m["flow"])))
            else:
                for k in range(len(real["flow"])):
                    fr, fm = list(np.atleast_1d(real["flow"][k])), m["flow"][k]
                    if len(fr) != len(fm) or any(not c18.rel_close(float(a), b, REL) for a, b in zip(fr, fm)):
                        mism.append((ci, label, "flow rates panel %d" % k, [float(x) for x in fr], fm))
                    tr, tm = np.asarray(real["temps"][k]), m["temps"][k]
                    if tr.shape[0] != len(tm) or any(len(row) != tr.shape[1] for row in tm) or \
                            any(not c18.rel_close(float(tr[i, j]), tm[i][j], REL) for i in range(tr.shape[0]) for j in range(tr.shape[1])):
                        mism.append((ci, label, "profiles panel %d" % k, tr.tolist(), tm))
            sample = {"panels": [len(p["weights"]) for p in case["panels"]], "fluid": case["fluid"].get("variant", "constant"),
                      "state": label, "dof_map": real["dof_map"],
                      "real_residual": [[float(x) for x in r] for r in real["res"]][:3], "model_residual": m["res"][:3]}
        ctx.case((ci, label), nontrivial=nontriv,
                 tag="%d panels/%s/%s" % (len(case["panels"]), case["fluid"].get("file", "constant"), label), sample=sample)

    sl_bad = slicing_check(ctx, rng, 12 if quick else 120)

    ctx.extra.update({"chains": len(cases), "solves_converged": solved, "solves_raised": solve_fail,
                      "link_residual_vectors_compared": sum(len(r["res"]) for r in reals)})
    ctx.obligation("correspondence: dof map of arbitrary size lists == model (exact)", not dof_bad,
                   "%d of %d differ; first: %s" % (len(dof_bad), len(dof_lines), dof_bad[:1]))
    ctx.obligation("correspondence: link residuals / dof_map / recover_tube_results of the real code == model on Float (1e-10)",
                   not mism, "%d mismatches in %d (chain, state) cases; first: %s" % (len(mism), len(lines), str(mism[:1])[:400]))
    ctx.extra["iteration_starved_solves"] = {"raised": n_starved[0], "returned": n_starved[1]}
    ctx.obligation("property predicate on every returned FlowPath.solve solution (independent numpy)", not solve_bad,
                   "%d of %d solutions violate; first: %s" % (len(solve_bad), solved, str(solve_bad[:1])[:400]))
    ctx.obligation("solves attempted converged (else nothing was tested)", solved >= max(1, n_solve // 2),
                   "%d converged, %d raised" % (solved, solve_fail))
    ctx.obligation("add_panel_from_object slices the ghost arrays at (r=1, interior theta, interior z) for 1D/2D/3D (exact)",
                   not sl_bad, "%d differ; first: %s" % (len(sl_bad), sl_bad[:1]))

    # ---- outcomes ----
    if solve_bad:
        solve_bad.sort(key=lambda x: (len(cases[x[0]]["panels"]), sum(len(p["weights"]) for p in cases[x[0]]["panels"])))
        ci, pb, Tsol = solve_bad[0]
        ctx.violation("real FlowPath.solve/recover_tube_results: " + pb[0],
                      {"case": starved_cases.get(ci, cases[ci]) if any("with miter=" in m for m in pb) else cases[ci], "returned_T": Tsol, "all_failures": pb, "n_failing_solutions": len(solve_bad)},
                      signature="c14:" + pb[0].split(":")[0].split(" ")[0])
    elif sl_bad:
        ctx.violation("add_panel_from_object hands the panel link metal temperatures from the wrong grid indices (%s)" % sl_bad[0][1],
                      {"slicing": sl_bad[0][0]}, signature="c14:slicing")
    elif solved < max(1, n_solve // 2):
        raise common.Infra("only %d of %d flow-path solves converged: nothing to test" % (solved, n_solve))
    elif mism or dof_bad or not thm_ok:
        what = ("model and code disagree on %d link/recover comparisons but no solution violates the property" % len(mism)) \
            if (mism or dof_bad) else "a C14 theorem no longer checks"
        first = None
        if mism:
            first = {"case": cases[mism[0][0]], "state": mism[0][1], "what": str(mism[0][2:])[:600]}
        ctx.violation(what, {"first_mismatch": first, "dof": dof_bad[:2], "lean": ctx.extra.get("lean_errors"),
                             "theorems": ctx.extra.get("broken_theorems"),
                             "correspondence": "harness/c14.py vs SrModel.Flowpath"}, no_input=True)
    return "proof"


def replay(obj):
    r = obj["replay"]
    if "slicing" in r:
        import random
        print("re-running the slicing check")
        class _C:
            def case(self, *a, **k):
                pass
        bad = slicing_check(_C(), random.Random(0), 40)
        print("property violated" if bad else "property holds", bad[:1])
        return 1 if bad else 0
    if "case" not in r:
        print("replay names no input:", r)
        return 1
    case = r["case"]
    fp, mat = build(case)
    num = c18.fluid_numbers(mat)
    T = fp.solve(case["t"])
    print("chain: %s tubes per panel, fluid %s, t=%r" % ([len(p["weights"]) for p in case["panels"]], case["fluid"], case["t"]))
    print("returned T:", [float(x) for x in T])
    pb = solve_predicate(case, num, fp, T, case["t"])
    t2 = case["times"][0] if case["t"] != case["times"][0] else case["times"][-1]
    try:
        fp.solve(t2)
    except RuntimeError:
        pass
    pb = pb + ["after the path object solved another instant (t=%r): %s" % (t2, m) for m in solve_predicate(case, num, fp, T, case["t"])]
    for b in pb:
        print("  FAILS:", b)
    print("property holds on this input" if not pb else "property violated on this input")
    return 1 if pb else 0


if __name__ == "__main__":
    sys.exit(common.main("C14", run, replay))
