"""C02 — solid heat transfer conserves energy.

Lean: SrModel/Thermal.lean, SrProofs/Thermal.lean, SrProps/C02.lean (radial/circ/axial telescoping,
step_balance, wall contributions by kind, flux_sign, area_defect, insulated_exact).
Tie:  correspondence of the assembled linear system: the real `solve_step` is run on random tubes
      (1D/2D/3D, every wall-kind pairing, constant and tabulated materials) and the (matrix, rhs)
      handed to its sparse solver is compared entry by entry with SrModel.Thermal rows on Float.
Search: the energy identities themselves are evaluated on real multi-step solves with an
      independent numpy formula (insulated: exact; flux: sign and the dr/(2r) area bound).
"""
import os
import sys

sys.path.insert(0, os.path.dirname(os.path.abspath(__file__)))
import numpy as np
import common
import thermal_common as tc

F17_SIG = "c02:inner-halfcell-radius-nonpositive"


def check_case(case, substep=1):
    """returns list of (what, detail) failures of the property on the real code"""
    bad = []
    prob, tube, mat, fluid, steps = tc.run_history(case, substep=substep)
    rin = case.r - case.t
    thick = prob.dr >= 2.0 * rin
    for n, st in enumerate(steps):
        dE, fin, fout, rr, (I, J, Kk) = tc.energy_terms(case, prob, st)
        scale = float(np.sum(np.abs(rr[I, None, None] * st["T"].reshape(prob.fdim)[I, J, Kk]))) + 1.0
        tol = 1e-7 * scale
        if not case.steady:
            # discrete balance: nothing but the radial wall faces changes sum r_i T_i
            net = st["dt"] * float(np.sum(fout - fin)) / prob.dr ** 2
            if abs(dE - net) > tol:
                bad.append(("balance", "step %d: stored-heat change %.12g, wall-face input %.12g" % (n, dE, net)))
        k = st["k"]
        c = st["c"]
        # wall contributions by kind, against the boundary data themselves
        pts = tc.wall_nodes(case)
        shape = fin.shape
        for which, kind, face, sign, iw in (("inner", case.inner, fin, -1.0, 1), ("outer", case.outer, fout, 1.0, case.nr)):
            got = sign * face
            kind_m, A, B = tc.wall_values(case, tube, mat, fluid, which, st["time"])
            rhw = 0.5 * (rr[iw - 1] + rr[iw]) if which == "inner" else 0.5 * (rr[iw] + rr[iw + 1])
            cw = (0.5 * (c[iw - 1] + c[iw]) if which == "inner" else 0.5 * (c[iw] + c[iw + 1]))[J, Kk]
            kw = k[iw][J, Kk]
            Tw = st["T"].reshape(prob.fdim)[iw][J, Kk]
            if kind_m == "ins":
                want = np.zeros(shape[0:])
            elif kind_m == "flux":
                want = rhw * cw * prob.dr * np.array(A).reshape(cw.shape) / kw
            elif kind_m == "conv":
                want = rhw * cw * prob.dr * np.array(B).reshape(cw.shape) * (np.array(A).reshape(cw.shape) - Tw) / kw
            else:
                continue  # fixed temperature: the face flux is whatever the ghost carries
            if np.max(np.abs(got - want)) > 1e-7 * (np.max(np.abs(want)) + 1.0) + tol * 1e-3:
                bad.append(("wall-" + which, "step %d %s wall (%s): face carries %r, data say %r" % (
                    n, which, kind, float(np.ravel(got)[0]), float(np.ravel(want)[0]))))
            if kind_m == "flux":
                q = np.array(A).reshape(cw.shape)
                # entries that are positive beyond interpolation round-off (a datum of 1e-17 is zero)
                dscale = float(np.max(np.abs(case.inner_data if which == "inner" else case.outer_data)))
                pos = q > 1e-9 * (dscale + 1e-300)
                if np.any(pos) and not np.all(got[pos] > 0):
                    bad.append(("flux-sign-" + which + ("-thick" if thick else ""),
                                "step %d: positive %s flux does not heat the wall (face input %r)" % (n, which, float(np.min(got[pos])))))
                # physical statement: discrete input vs q x nominal area, bound dr/(2 r_wall)
                if case.mat_T is None and not case.steady:
                    rw = rin if which == "inner" else case.r
                    nominal = rw * cw * prob.dr * q / kw
                    bound = prob.dr / (2.0 * rw) * np.abs(nominal) + 1e-7 * (np.abs(nominal) + 1.0)  # + Newton tolerance
                    if np.any(np.abs(got - nominal) > bound):
                        bad.append(("area-bound", "step %d: |discrete - nominal| exceeds dr/(2r) bound on %s wall" % (n, which)))
        if case.inner == "ins" and case.outer == "ins" and not case.steady:
            if abs(dE) > tol:
                bad.append(("insulated", "step %d: insulated tube changed sum r_i T_i by %.3e" % (n, dE)))
    bad += substep_chain(case, substep, prob, steps)
    bad += solver_level(case, substep, prob, steps)
    return bad, thick


def solver_level(case, substep, prob, steps):
    """the user-level FiniteDifferenceImplicitThermalSolver, built with keyword options (diagnostics on), returns at
    every stored time the field of the step-by-step chain the identities above were evaluated on: neither a
    diagnostic flag nor the way options reach the problem object may change the physics (transient stays transient,
    steady stays steady)"""
    import contextlib, io
    receiver, thermal, materials = tc.mods()
    bad = []
    tube, mat, fluid = tc.build(case)
    T0fn = prob.T0 if case.T0field is not None else None
    for verbose in (True, False):
        solver = thermal.FiniteDifferenceImplicitThermalSolver(rtol=1e-13, atol=tc.auto_atol(case), miter=30, substep=substep,
                                                               steady=case.steady, verbose=verbose)
        with contextlib.redirect_stdout(io.StringIO()):
            Tall = np.array(solver.solve(tube, mat, fluid, T0=T0fn))
        for n in range(1, Tall.shape[0]):
            manual = tc.real_view(case, np.array(steps[n * substep - 1]["T"]).reshape(prob.dim))
            scale = float(np.max(np.abs(manual))) + 1.0
            d = float(np.max(np.abs(Tall[n] - manual)))
            if d > 1e-6 * scale:
                bad.append(("solver-options", "FiniteDifferenceImplicitThermalSolver(steady=%s, verbose=%s, substep=%d).solve: stored time %d "
                            "differs by %.4g from the chain of %s steps of the problem object" % (
                                case.steady, verbose, substep, n, d, "steady" if case.steady else "transient")))
                break
    return bad


def substep_chain(case, substep, prob, steps):
    """the real solve_step_substep over each full step vs the chain of sub-steps at the documented
    times t_n + i*dt/substep (which the identities above were evaluated on).  A difference is a
    correspondence break; it is a property violation when the stored-heat change of the real step
    lies outside what the boundary data can deliver DURING that step (flux walls, constant material)."""
    bad = []
    if case.steady:
        return bad
    prob_s, tube, mat, fluid = tc.problem(case, substep=substep, atol=tc.auto_atol(case), rtol=1e-13, miter=30)
    times = np.array(case.times)
    T = tc.initial_field(prob_s, case)
    rr = np.linspace(case.r - case.t - prob.dr, case.r + prob.dr, case.nr + 2)
    I = slice(1, case.nr + 1)
    J = slice(1, case.nt + 1) if case.ndim >= 2 else slice(0, 1)
    Kk = slice(1, case.nz + 1) if case.ndim >= 3 else slice(0, 1)
    for n in range(len(times) - 1):
        dt = times[n + 1] - times[n]
        Treal = np.array(prob_s.solve_step_substep(np.array(T, copy=True), times[n + 1], dt))
        manual = steps[(n + 1) * substep - 1]["T"]
        scale = float(np.max(np.abs(manual))) + 1.0
        differs = np.max(np.abs(Treal - manual)) > 1e-7 * scale
        msg = ("step %d with substep=%d: solve_step_substep differs from the chain of sub-steps at times t_n + i*dt/substep by %.3e"
               % (n, substep, float(np.max(np.abs(Treal - manual))))) if differs else "step %d with substep=%d" % (n, substep)
        pure_flux = all(k in ("ins", "flux") for k in (case.inner, case.outer)) and case.mat_T is None
        found = False
        if pure_flux:
            # exact discrete balance (SrProps.C02.step_balance summed over the sub-steps): the stored heat of the full
            # step is the sum over the sub-steps of dt_i x face flux, the flux data taken AT THE SUB-STEP TIMES
            dE = float(np.sum(rr[I, None, None] * (Treal.reshape(prob.fdim)[I, J, Kk] - np.array(T).reshape(prob.fdim)[I, J, Kk])))
            a, k = float(case.mat_a[0]), float(case.mat_k[0])
            want, mag = 0.0, 0.0
            dti = dt / substep
            for isub in range(1, substep + 1):
                ti = times[n] + dti * isub
                for which, kind in (("inner", case.inner), ("outer", case.outer)):
                    if kind != "flux":
                        continue
                    qi = np.array(tc.wall_values(case, tube, mat, fluid, which, ti)[1])
                    rh = 0.5 * (rr[0] + rr[1]) if which == "inner" else 0.5 * (rr[case.nr] + rr[case.nr + 1])
                    want += dti * rh * a / k / prob.dr * float(np.sum(qi))
                    mag += dti * abs(rh) * a / k / prob.dr * float(np.sum(np.abs(qi)))
            # solver tolerance on the temperatures (auto_atol) and rounding of the sums
            # round-off of the stored-heat sums themselves: 1e-11 of sum r|T| over all real nodes
            heat_scale = float(np.sum(np.abs(rr[I, None, None] * Treal.reshape(prob.fdim)[I, J, Kk])))
            tol = 1e-6 * (mag + 1e-3 * scale * float(np.sum(np.abs(rr[I])))) + 1e-11 * heat_scale
            if abs(dE - want) > tol:
                bad.append(("substep-balance", msg + ": stored heat of the step changed by %.9g but the flux data at the sub-step "
                            "times t_n + i*dt/substep supply %.9g" % (dE, want)))
                found = True
        if differs and not found:
            bad.append(("substep-chain-only", msg))
        T = Treal
    return bad


def run(ctx):
    ctx.rule = ("random tubes (r,t,h; nr 2-7, nt 3-8, nz 2-5; 1D/2D/3D; every inner x outer wall-kind pairing; "
                "constant and piecewise-linear material; uniform or random initial field; 1-3 steps; substep 1-3); "
                "a case is non-trivial when a wall is not insulated or the initial field is not uniform; "
                "distinct by (dim, kinds, mode, grid, material kind)")
    ctx.trusted = ["Lean 4 kernel + Mathlib (propext, Classical.choice, Quot.sound)",
                   "harness/thermal_common.py: capture of (matrix, rhs) at scipy spsolve inside the real solve_step",
                   "scipy.sparse.linalg.spsolve solves the captured system (residual checked by the solver's own test)",
                   "IEEE rounding: model on Float vs numpy, compared at 1e-11 relative"]
    ctx.assumptions = ["identification of sum r_i T_i with heat needs k/a constant (stated in DESIGN C02 NC)",
                       "theorems are about exact solutions; real solves satisfy the identities to the Newton tolerance"]
    thm_ok = common.lean_stage(ctx, [("SrProps.C02", "SrProps/C02.lean", "SrProps.C02")])
    rng = ctx.rng
    n_corr = 60 if ctx.quick() else 600
    n_real = 80 if ctx.quick() else 1200
    cases = []
    pairs = [(i, o) for i in tc.KINDS_INNER for o in tc.KINDS_OUTER]
    for n in range(n_corr):
        i, o = pairs[n % len(pairs)]
        cases.append(tc.gen_case(rng, ndim=1 + n % 3, inner=i, outer=o, steady=False if n % 4 else None))
    mism = tc.matrix_correspondence(ctx, cases, "C02")
    # ---- property on real solves ----
    viol = []
    chain_only = []
    nraised = 0
    for n in range(n_real):
        i, o = pairs[(n * 7) % len(pairs)]
        c = tc.gen_case(rng, ndim=1 + n % 3, inner=i, outer=o, steady=False)
        if n % 5 == 0:
            c.inner = c.outer = "ins"
            c.inner_data = c.outer_data = c.inner_data2 = c.outer_data2 = None
        if n % 5 == 1 and c.inner == "flux":
            c.inner_data = np.abs(c.inner_data) + 0.25
        if n % 4 == 2:
            c.substep = rng.choice([2, 3, 4])
            if n % 8 == 2:   # pure flux walls, constant material: the sub-step window predicate applies
                c2 = tc.gen_case(rng, ndim=c.ndim, inner=rng.choice(["ins", "flux"]), outer="flux", steady=False, const_mat=True)
                c2.substep = c.substep
                c = c2
        try:
            bad, thick = check_case(c, substep=c.substep)
        except (RuntimeError, ValueError) as e:
            # non-convergence is C17's business; a temperature outside the material table is the
            # code's own rejection of the input
            ctx.notes.append("real solve raised (not a C02 matter): %r" % (e,))
            nraised += 1
            continue
        ctx.case(("real", n, c.ndim, c.inner, c.outer), nontrivial=True,
                 tag="real/%dD/%s-%s" % (c.ndim, c.inner, c.outer),
                 sample={"suite": "energy identities on real solves", "ndim": c.ndim, "inner": c.inner, "outer": c.outer,
                         "steps": len(c.times) - 1, "substep": c.substep, "failures": bad[:2]})
        for what, detail in bad:
            if what == "substep-chain-only":
                chain_only.append((c, detail))
            else:
                viol.append((c, what, detail))
    ctx.obligation("correspondence: real solve_step_substep == chain of sub-steps at the documented sub-step times",
                   not chain_only and not [v for v in viol if v[1] in ("substep-window", "substep-balance")],
                   "%d differ; first: %s" % (len(chain_only), chain_only[0][1] if chain_only else ""))
    mism = list(mism) + [(c, [d]) for c, d in chain_only]
    # ---- one large 3-D grid (more than 10^4 unknowns), insulated: conservation to round-off must not depend on size ----
    try:
        big = tc.gen_case(rng, ndim=3, inner="ins", outer="ins", steady=False, const_mat=True, nsteps=2)
        big.nr, big.nt, big.nz = 10, 28, 28
        big.bc_nt = big.nt
        big.substep = 1
        bf = np.random.default_rng(rng.getrandbits(32)).uniform(300.0, 900.0, (big.nr, big.nt, big.nz))
        big.T0field = np.round(bf * 64.0) / 64.0
        bad, thick = check_case(big, substep=1)
        ctx.case(("real-big-3d",), nontrivial=True, tag="real/3D/ins-ins/10800 unknowns")
        for what, detail in bad:
            viol.append((big, what, detail))
    except RuntimeError as e:
        ctx.notes.append("large 3-D insulated solve raised (C17, not C02): %r" % (e,))
    # ---- the coupled thermohydraulic driver stores single implicit steps of the same problem ----
    # (then step_balance / history_balance apply to its wall fields too; the driver's Picard loop must not advance
    # the wall by more than one dt per stored step)
    try:
        import c07
        spec = {"name": "C02: coupled transient, dt comparable with t^2/alpha", "ndim": 1, "times": [0.0, 0.002, 0.004, 0.008],
                "panels": [[2], [1]], "paths": [[0, 1]], "steady": False, "T": 2.0, "nr": 6, "qt": [0.0, 1.0, 1.0, 0.5], "q0": 0.6}
        rcv, fl = c07.solve(spec)
        cbad = c07.metal_consistency(spec, rcv, fl)
        ctx.case(("coupled-transient",), nontrivial=True, tag="real/coupled driver/transient")
        for m in cbad[:3]:
            viol.append((None, "coupled-step", "coupled thermohydraulic solve: " + m, spec))
    except RuntimeError as e:
        ctx.notes.append("coupled transient solve raised (C17, not C02): %r" % (e,))
    # ---- known corner F17: thick coarse tube ----
    f17 = tc.gen_case(rng, ndim=1, inner="flux", outer="ins", steady=False, const_mat=True, thick_ok=True, nsteps=1)
    f17.r, f17.t, f17.nr, f17.h = 1.0, 0.8, 2, 1.0
    f17.inner_data = np.ones((2, f17.nt, f17.nz))
    f17.T0field = None
    try:
        bad, thick = check_case(f17)
        ctx.case(("f17",), tag="real/F17-probe", sample={"suite": "F17 probe r=1 t=0.8 nr=2 q=+1", "failures": bad[:2]})
        for what, detail in bad:
            viol.append((f17, what, detail))
    except RuntimeError as e:
        ctx.notes.append("F17 probe raised: %r" % (e,))
    ctx.obligation("the real solver completed on at least 80% of the generated cases (a check that skips everything proves nothing)",
                   nraised * 5 <= n_real, "%d of %d raised" % (nraised, n_real))
    if nraised * 5 > n_real:
        mism = list(mism) + [(cases[0], ["%d of %d real solves raised" % (nraised, n_real)])]
    ctx.obligation("property predicate (discrete balance, wall contributions, flux sign, area bound, insulated exactness) on real solves",
                   not [v for v in viol if "thick" not in v[1]], "%d failures; first: %s" % (len(viol), viol[0][1:3] if viol else ""))
    for v in viol[:10]:
        c, what, detail = v[0], v[1], v[2]
        if c is None:
            ctx.violation(detail, {"coupled_spec": v[3], "check": what}, signature="c02:" + what)
            continue
        sig = F17_SIG if what.endswith("-thick") else "c02:" + what
        ctx.violation("real thermal solve: " + detail, {"case": c.to_json(), "check": what, "substep": c.substep}, signature=sig)
    if not ctx.violations and (mism or not thm_ok):
        ctx.violation("C02 theorem or correspondence no longer checks",
                      {"mismatches": [(c.to_json(), d) for c, d in mism[:3]], "lean": ctx.extra.get("lean_errors"),
                       "theorems": ctx.extra.get("broken_theorems")}, no_input=True)
    return "proof"


def replay(obj):
    r = obj["replay"]
    if "coupled_spec" in r:
        import c07
        rcv, fl = c07.solve(r["coupled_spec"])
        bad = c07.metal_consistency(r["coupled_spec"], rcv, fl)
        for m in bad:
            print("FAILS:", m)
        print("property violated on this input" if bad else "property holds on this input")
        return 1 if bad else 0
    if "case" not in r:
        print("replay names no input:", list(r))
        return 1
    c = tc.Case.from_json(r["case"])
    bad, thick = check_case(c, substep=r.get("substep", 1))
    for what, detail in bad:
        print("FAILS:", what, detail)
    print("property violated on this input" if bad else "property holds on this input")
    return 1 if bad else 0


if __name__ == "__main__":
    sys.exit(common.main("C02", run, replay))
