"""Run the repository's pinned baseline (guard OFF) and compare with /root/.vp/BASELINE.json.
Used as MANIFEST.hooks.baseline_off_cmd and after every fix: commit."""
import json, os, subprocess, sys, tempfile, xml.etree.ElementTree as ET

def main():
    base = json.load(open("/root/.vp/BASELINE.json"))
    want = set(base["stable_pass"])
    env = {k: v for k, v in os.environ.items() if k not in ("SRLIFE_VERIF", "PYTHONPATH")}
    def untracked():
        r = subprocess.run(["git", "-C", "/repo", "status", "--porcelain", "--untracked-files=all"], capture_output=True, text=True)
        return {l[3:] for l in r.stdout.splitlines() if l.startswith("??")}
    before = untracked()
    with tempfile.TemporaryDirectory() as d:
        out = os.path.join(d, "junit.xml")
        env["TMPDIR"] = d                       # the receiver tests leave 340 MB HDF5 files in the temp directory
        subprocess.run(["/venv/bin/python", "-m", "pytest", "-ra", "-q", "-p", "no:cacheprovider", "--timeout=900",
                        "--continue-on-collection-errors", "--junitxml=" + out], cwd="/repo", env=env,
                       stdout=subprocess.DEVNULL, stderr=subprocess.DEVNULL)
        passed = set()
        for tc in ET.parse(out).getroot().iter("testcase"):
            if not any(c.tag in ("failure", "error", "skipped") for c in tc):
                passed.add("%s::%s" % (tc.get("classname"), tc.get("name")))
    for f in sorted(untracked() - before):      # the ceramic tests write *_60K*.txt into the working directory
        try:
            os.remove(os.path.join("/repo", f))
        except OSError:
            pass
    missing = sorted(want - passed)
    print("baseline: %d/%d stable tests pass (guard off)" % (len(want) - len(missing), len(want)))
    for m in missing:
        print("  NOT PASSING:", m)
    return 1 if missing else 0

if __name__ == "__main__":
    sys.exit(main())
