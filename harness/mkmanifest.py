"""Regenerate /verif/MANIFEST.json from the table below (kept here so the file stays valid and consistent)."""
import json, os, subprocess
VERIF = os.path.dirname(os.path.dirname(os.path.abspath(__file__)))

CHECKS = {
 "C10": dict(
   technique="Lean 4 proof (loop invariant by induction over fuel, all oracles) + exhaustive correspondence of the real loop against the model",
   text="Machine-checked theorems (success_spec, exhaust_raises, raise_spec, run_total, forced_spec) about an executable model of the adaptive sub-increment loop, for every subdivision limit, both modes and every failure pattern; the model is tied to PythonTubeSolver.solve by running the real loop on real Tube/State objects in 1D/2D/3D over the complete decision tree of failure patterns (max_divide 1..4) and comparing traces exactly; the property predicate is also evaluated on every real trace.",
   note="Trusted: Lean kernel + Mathlib with axioms propext/Classical.choice/Quot.sound; the recorder that replaces solve_python_1d/2d/3d; what a converged increment computes is outside this property.",
   design="4/C10"),
 "C02": dict(
   technique="Lean 4 proof (telescoping sums over the conservative stencil, all grid sizes/dimensions) + correspondence of the assembled step system with the real solve_step",
   text="Theorems about an executable model of the linear system of one implicit step (1D/2D/3D, any nr/nt/nz, any dt, lagged coefficients, every wall kind): radial/circumferential/axial telescoping, step_balance (stored-heat change = dt x net wall-face flux + source), wall contribution per kind, flux_sign on both walls, area_defect (dr/2 offset of the wall half-cell radii), insulated_exact. The model is tied to srlife by capturing the matrix and right-hand side the real solve_step hands to its sparse solver and comparing them entry by entry; the identities are also evaluated with an independent numpy formula on real multi-step solves.",
   note="Trusted: Lean kernel + Mathlib (propext/Classical.choice/Quot.sound); harness capture at scipy spsolve; Float vs real arithmetic (compared at 1e-11); theorems speak of exact solutions, real solves meet them to the Newton tolerance. Known finding F17 (thick coarse tubes) is outside hypothesis 0 < r_{1/2}.",
   design="4/C02"),
 "C06": dict(
   technique="Lean 4 proof (discrete maximum principle by extremal-node argument over the ghosted stencil, all grids/dimensions/dt, induction over steps) + correspondence of the step system with the real solve_step",
   text="Theorems: max_principle (every real-node value of every solution of a transient step lies between min and max of previous values, prescribed wall temperatures and fluid temperatures; any dt > 0, any grid, 1D/2D/3D, any film number >= 0), max_principle_history (induction over steps and sub-steps), uniform_stays_uniform (+ uniform_solves), nonneg_flux_no_cooling, step_unique. Tied to srlife by comparing the captured (matrix, rhs) of the real solve_step with the model rows, checking that the solver's Jacobian is the derivative of its residual, and by evaluating the bounds on real solves with steps up to 2^20 x the base step.",
   note="Trusted: Lean kernel + Mathlib (propext/Classical.choice/Quot.sound); harness capture at spsolve; rounding (bounds checked with an amplification-aware slack); hypothesis WeightsNonneg (dr <= 2 r_inner, c >= 0) — its failure is known finding F17.",
   design="4/C06"),
 "C12": dict(
   technique="Lean 4 proof (conjugation of the step system by the ring rotation, lifting of solutions across dimensions, linearity; with uniqueness from the maximum principle) + correspondence of the step system + metamorphic real solves",
   text="Theorems: shift_equivariance for any number of cells (rotated data => rotated solution, lagged coefficients included), shift_equivariance_unique, axisym_2d_is_1d, uniform_3d_is_2d, superposition (linearity in source, previous temperatures, wall and fluid data). Tied to srlife by the captured-system correspondence (2D/3D biased) and by running the real solver on rotated data for every shift, on 1D/2D/3D versions of symmetric data, and on sums of data sets.",
   note="Trusted: Lean kernel + Mathlib (propext/Classical.choice/Quot.sound); harness capture at spsolve; real solves compared at 2e-6 relative (Newton tolerance); BC grid = tube grid so that rotating data is exact (unequal grids are C19's interpolation).",
   design="4/C12"),
 "C13": dict(
   technique="Lean 4 proof (constant face flux and discrete log profile of the steady 1D system, wall closed forms, non-expansiveness of the transient step towards a steady state) + correspondence + exhaustive pairing sweep on real solves",
   text="Theorems: steady_flux_constant, steady_profile (T_i = T_1 + Phi * sum 1/r_{m+1/2}), midpoint_log and profile_vs_log (that sum times dr is within O(dr^2) of ln(r_i/r_1), via Mathlib's log series bound), steady_fixed_fixed, steady_flux_outer, steady_conv_inner, transient_nonexpansive. Tied to srlife by the captured-system correspondence in steady and transient mode including consistency of the solver's Jacobian with its residual for every wall kind; all 20 inner x outer kind pairings are run on the real solver (accepted on their wall), the 16 well-posed ones against the exact logarithmic profile at two resolutions (observed order >= 1.8, second order for fixed/fixed), and long transients against the steady-mode solution.",
   note="Trusted: Lean kernel + Mathlib; harness; midpoint_log/profile_vs_log prove the O(dr^2) closeness of the discrete profile sum to ln r for the same face flux; the O(dr) effect of the dr/2 wall-radius offset on flux/convective walls is measured on real solves (order >= 1.8 checked).",
   design="4/C13"),
 "C17": dict(
   technique="Lean 4 proof (induction on the iteration budget for five loop models, all miter >= 0, all oracle sequences incl. NaN/inf) + translator regenerating the parameter-plumbing terms from the sources each run (obligations by reflection) + exact scripted-oracle correspondence of every real loop",
   text="Theorems: <loop>_returns_converged / _exhaust_raises / _nan_never_ok for solvers.newton (also SpringNetwork.solve), the FD thermal step, FlowPath.solve, the Picard loop and the FE Newton loop; plumbing_identity for eight components and newton_defaults_documented about terms regenerated by gen/gen_plumbing.py from /repo's source on every run. The loop models are tied to srlife by driving each real loop with scripted residual-norm sequences (complete decision tree over 8 norm classes for small budgets plus random scripts) and comparing outcome and evaluation counts exactly; plumbing is also checked on real objects with distinguishable values; real convergent, singular and non-finite problems are solved and the residual recomputed at the returned point.",
   note="Trusted: Lean kernel + Mathlib (propext/Classical.choice/Quot.sound); the ast translator (self-checked on real objects every run); the stubs used to script the FE and Picard loops; x/0 modelled for x >= 0 only. The wiring across functions the translator does not parse (solve_metal, solve_fluid, PythonTubeSolver.solve -> PythonSolver.options) is declared by hand and checked dynamically.",
   design="4/C17"),
 "C20": dict(
   technique="translator regenerating a Lean model of every shipped data file each run + Lean 4 proofs by reflection (Bernstein sign certificates, table checkers with hand-proved soundness, decide +kernel) + exhaustive real loading and round trips",
   text="Theorems about Gen.Data (regenerated from srlife/data on every run): thermal_positive, rupture_antitone_stress, rupture_antitone_temp, fatigue_antitone, envelope_points, ceramic_positive, pw_at_knot, pw_deriv_is_slope, xml_roundtrip, array_roundtrip, loader_total, each resting on a computable certificate closed by kernel evaluation and a soundness lemma proved once (so a harmless data edit re-proves itself and a property-breaking one fails, naming the item). Tied to srlife by evaluating the generated correlations in Lean against the real evaluators (1e-10), loading every (file, variant) through the documented loaders incl. NEML models, real save->load of every model type, and dense sweeps of the real code for positivity/monotonicity/knots/slopes.",
   note="Trusted: Lean kernel + Mathlib; gen/gen_data.py (self-checked against the real evaluators each run); spec ranges in spec/ranges.json ([1,1000] MPa, strain range <= 0.05, T > 0); repr(float) round trip as an explicit hypothesis of array_roundtrip. Open finding F26 (keys that are not XML names).",
   design="4/C20"),
 "C19": dict(
   technique="Lean 4 proof over any linearly ordered field (multilinear interpolation on arbitrary strictly increasing grids, theta wrap by floor, dispatch and shape predicates) + exact rational correspondence with the real boundary-condition objects",
   text="Theorems: grid_exact (all kinds, incl. the documented theta_j = 2*pi*j/nt and z_k grids), between (convex combination of the corner data for every kind; for every theta thanks to the wrap), theta_periodic, theta_seam, theta_last_cell, out_of_range_raises_1d, scalar_single, vector_is_map (all three dispatch branches), shape_accept_iff for the five constructors, setbc_accept_iff. Tied to srlife by evaluating the model on exact rationals against 90 real BC objects per run (~4000 queries: grid points, interiors, seam, +-2*pi*k, out of range, array/mixed/numpy-scalar arguments), a malformed stream of shapes and set_bc arguments compared exactly, and the property predicate evaluated on the real objects.",
   note="Trusted: Lean kernel + Mathlib (propext/Classical.choice/Quot.sound); scipy's RegularGridInterpolator/interp1d (modelled and compared exactly on dyadic data); one rounding in np.mod for negative angles (1e-12).",
   design="4/C19"),
 "C16": dict(
   technique="Lean 4 proof (save/load of a typed HDF5 tree model for receivers of any size, by list induction; isinstance lattice of convert_to_spring) + exact token-by-token correspondence with real h5py files + downstream bit-equality",
   text="Theorems: roundtrip (load(save r) ~ r: names in order, bit-equal values, py->np widening only), roundtrip_norm, roundtrip_order, roundtrip_options (str/float/int/np types convert to the same spring after reload), bc_dispatch (four thermal kinds + pressure), bc_dispatch_unknown, downstream_equal, roundtrip_twice. Tied to srlife by saving 120 random receivers per run with the real code (unsorted and numeric-looking names, all option types, all abstractions, all BC kinds, flow paths, result dictionaries with nan/inf/denormals), reloading, and comparing a typed canonical form and the file's group iteration order with the model; thermal, life and reliability stages are run on original vs reloaded receivers (bit-equal).",
   note="Trusted: Lean kernel + Mathlib; h5py type coercions as tabulated in SrModel/H5.lean (checked each run); names are HDF5 link names (open finding F27: a name containing '/'); bool options are outside the documented option set.",
   design="4/C16"),
 "C07": dict(
   technique="Lean 4 proof (list induction over chains/paths, state-machine induction for initial condition and reset, link algebra over the reals, steady face balance of the solid step) + exact stub-driven correspondence of the bookkeeping + real coupled solves",
   text="Theorems: setup_validation (accept iff each panel in exactly one path), panel_order/recover indexing for any chain, write_back_spec, starts_at_T0, reset_returns_T0, inlet_is_prescribed, tube_heat_balance, multiplier_equiv_tube/_manifold, manifold_mean, profile_ends, energy_consistency_solid (steady solid: heat through outer faces = heat handed to the fluid through inner faces) and energy_factor_bound (the half-cell-radius factor is within 2 dr/r_i of 1). Tied to srlife by running the real _setup, FlowPath chain/dof map/recovery, solve_fluid write-back and solve_receiver reset logic through stubs and comparing exactly with the model, and by real coupled solves (1D/2D/3D, multipliers, reversed panel order, transient with cycle reset, k x m vs 1 x km tubes) on which inlet temperature, traversal order, linear profile, mass split, energy consistency within 2 dr/r_i, initial condition and reset are evaluated.",
   note="Trusted: Lean kernel + Mathlib; stubs for solve_step/FlowPath in the bookkeeping correspondence; Picard convergence (C17); jax AD; uniform geometry within a panel; wall condition and link use film coefficients evaluated at slightly different temperatures (second-order difference, inside the property's tolerance).",
   design="4/C07"),
 "C18": dict(
   technique="Lean 4 proof over the reals (Real.log/Real.rpow; monotonicity of the Gnielinski expression without calculus; interval-Horner positivity certificates with hand-proved soundness closed by decide +kernel) + translator regenerating the shipped fluid data each run + Float correspondence with the jax implementation",
   text="Theorems: film_ge_floor, film_pos, tEff_spec, nusselt_laminar, nusselt_turbulent, gnielinski_def, film_finite (well-definedness under stated positivity), nusselt_pos, shipped_props_positive and shipped_params_ok about Gen.FluidData (regenerated from srlife/data/thermalfluid and the constructor signature on every run), turbulent_monotone and film_monotone_u (the coefficient does not decrease with velocity in the turbulent regime). Tied to srlife by comparing T_effective, Re, Pr, Nu, film and the four property polynomials of the real code with the model on Float (1e-10) for shipped and random polynomial fluids over temperatures inside/outside the window, velocities 0..1e10, the cut-off neighbourhood, and by evaluating the property on the real code (laminar value, Gnielinski recomputed in numpy, clipping, monotone sweeps).",
   note="Trusted: Lean kernel + Mathlib; gen/gen_fluid.py (self-checked against the loaded objects); libm log/pow (1e-10); points where code and model fall on different sides of the cut-off by fused-multiply-add rounding are compared for Re/Pr only; Pr >= 0.7 for the shipped fluids is sampled, not proved.",
   design="4/C18"),
 "C14": dict(
   technique="Lean 4 proof over any ordered field (dof-map partition by list induction; link residual roots; mass split; linear profile; recovery indexing) + Float correspondence of every link residual with the jax implementation + predicates on real FlowPath.solve solutions",
   text="Theorems: dofmap_partition, inletDof_succ, root_start, root_panel (heat balance of every tube in the code's exact form), root_manifold, mass_split, profile_linear/profile_affine, recover_indexing, for any chain length, tubes per panel, weights and grid counts. Tied to srlife by comparing link residual vectors, dof maps, recovered flow rates and profiles of real chains (1-4 panels, 1-4 tubes, multipliers, shipped fluids) with the model on Float (1e-10), the slicing of tube ghost arrays in add_panel_from_object (exact), and by recomputing inlet node, per-tube heat balance, manifold mean, mass split and linear profile independently in numpy on real FlowPath.solve solutions.",
   note="Trusted: Lean kernel + Mathlib; jax/numpy arithmetic (1e-10); the time interpolations enter the model as their values at the query time (re-interpolated independently in the predicate); per-panel geometry from the first tube (as the code says).",
   design="4/C14"),
 "C05": dict(
   technique="Lean 4 proof over the reals (rpow/exp monotonicity, list induction over elements, time steps, tubes and ragged panels; frame indifference from the eigenvalue contract, which is itself discharged from Mathlib's charpoly conjugation lemma) + Float correspondence with the real models with numpy's eigvalsh results recorded in-process + metamorphic predicates on the real code",
   text="Theorems for all eight models, any number of elements/time steps/tubes/panels: assemble_roundtrip (stored tensor -> Mandel -> tensor is the identity), frame_indifferent (+ quadrature version, + eigvalsh_contract), reliability_range (log <= 0, reliability in (0,1]) at element/tube/receiver level, volume_linear, pia_wntsa_compressive, cutoff_scale, t0_power_law (both zero-time branches), mono_time, mono_scale, pia_uniaxial, batdorf_uniaxial (all six Batdorf models, polar axis, same-grid normalisation), aggregation (panel = product of tube^multiplier, overall = product of panels, ragged panels). Tied to srlife by replaying tube_log_reliability/determine_reliability on synthetic receivers in-process with recorders around calculate_element_log_reliability and numpy.linalg.eigvalsh and comparing element entries, tube series and aggregates with the model (1e-9), the orientation grids (1e-15), and by metamorphic runs on the real code (random rotations incl. repeated principal values, scale, service time, volume, zero-time power law, compressive states, uniaxial law, aggregation).",
   note="Trusted: Lean kernel + Mathlib; numpy.linalg.eigvalsh (its values are fed to the model; contract eig(QSQ^T)=eig(S)); libm pow/exp; material interpolation is an input to the model; Batdorf uniaxial law along non-polar axes and the WNTSA uniaxial law hold to quadrature accuracy only (measured within 5 %). pinned_mtsP_defect documents the repaired F28.",
   design="4/C05"),
 "C04": dict(
   technique="Lean 4 proof (induction over the panel list of the network builder; quick-find contraction and component splitting on tree-ordered multigraphs; linear assembly over any commutative ring) + exact and exhaustive topology correspondence with the real networkx code + direct-stiffness comparison of real solves",
   text="Theorems for every receiver option, panel count, tubes per panel and option assignment: reduce_total, tubes_partition, rigid_shares_node (+ rigid_tubes_one_node), disconnect_alone, components_solvable, orientation, numeric_link_kept, fjDisp_orient, assembly_linear (F_int = K d, J = K, K = sum k_e (e_i-e_j)(e_i-e_j)^T, orientation independent, numeric link carries k*(d_i-d_j)), plus pinned_witness for the repaired F16. Tied to srlife by comparing, exactly, the built network, node representatives, reduced components, validate_solve verdict and dof maps of the real make_network/remove_rigid/split_disconnect with the model over ALL 3^(1+P) assignments for P <= 2 (thorough: P <= 3) and 1-3 tubes per panel with all numeric option types, 1000 random multigraphs, the real fj/RJ assembly on Float, and by solving every sub-problem with the real solve_all (stub tubes) and the full SpringSystemSolver with real 1-D FEM tubes against an independent direct-stiffness solution (force balance, shared displacement, alone-equivalence, k*delta).",
   note="Trusted: Lean kernel + Mathlib; networkx iteration order is not modelled (canonical forms are compared); uniqueness of the residual zero when K_ff is nonsingular and Newton convergence (C17) are not proved; at least one tube in the receiver.",
   design="4/C04"),
 "C01": dict(
   technique="Lean 4 proof over any linearly ordered field (envelope geometry and ray crossing in closed form, integer bisection for the last-cycle mode, minimum over tubes and points by list induction) + Float correspondence with the real damage calculator + independent envelope predicate on real lives",
   text="Theorems: inside_antitone, crossing_spec (N(f,c) inside iff N <= Ncross f c), maxCycles_spec (zero / unbounded / finite with the threshold property) for lumped extrapolation, maxCycles_last_spec for last-cycle extrapolation, receiverLife_is_min, receiverLife_below_above (below the life every point is inside, above it some point is outside), creepCycle_def/creepWindow_def (time-fraction sum with the rupture time at the END of each interval), fatigue_def (1/Nf(max T, max pairwise equivalent range)); for any number of tubes, points, time steps and days, rupture time and cycles-to-failure as arbitrary functions. Tied to srlife by comparing cycle windows, creep_damage, fatigue_damage, per-tube cycles and determine_life of the real TimeFractionInteractionDamage with the model on Float for all six shipped metallic materials, both modes and the three regimes, and by recomputing the damages independently and evaluating the real inside_envelope just below/above the returned life at every point.",
   note="Trusted: Lean kernel + Mathlib; scipy brentq (replaced by the closed-form crossing / integer bisection, agreement checked at 1e-9); fatigue windows half-open as coded; the poly extrapolation mode is outside the property's quantifier; rounding.",
   design="4/C01"),
 "C09": dict(
   technique="Lean 4 proof (rotation invariance of von Mises stress and equivalent strain range via matrix trace identities; List.Perm invariance of minima; offset, repetition and scaling algebra; antitonicity) + metamorphic runs of the real determine_life",
   text="Theorems: sixComponent_matrix, vonMises_rot, eqRange_rot, life_rot (every orthogonal Q, both modes), life_perm, range_offset/life_offset, lump_repeat, life_scale, life_antitone, add_tube, worse_loads. Tied to srlife by metamorphic pairs on the real code: random rotations of all stress/strain samples, permutations of tubes/elements/quadrature points (exact), constant strain offsets, 1-4 repetitions of a day, scaling of per-cycle damages through the real make_extrapolate/calculate_max_cycles, worse stresses/strain ranges at one point, an extra tube; plus a reduced model correspondence on base and transformed inputs.",
   note="Trusted: as C01; monotonicity under worse loads uses that rupture time / cycles to failure are antitone on the recorded ranges (proved for the shipped data in C20); point-level antitonicity is proved for the lumped mode only.",
   design="4/C09"),
 "C03": dict(
   technique="Lean 4 proof (mesh numbering/connectivity and pressure-facet selection for all nr, nt >= 3, nz by integer arithmetic and list induction; consistent-load resultant algebra; Lame solution verified with HasDerivAt) + exact mesh correspondence with the real scikit-fem meshes + load-vector and elastic-solve predicates",
   text="Theorems: node_numbering, conn_wellformed (2D/3D elements are the grid neighbours with the seam wrapped, in the coded vertex order, distinct, correct counts, every node used), pressure_facets_spec (the loaded facets are exactly the inner-surface facets: no end-face or outer facet, each once), end_faces_unloaded, pressure_load_1d, consistent_load_resultant, pressure_normal_spec, pressure_resultant (no axial component; radial resultant = p x discretised inner area x cos(pi/nt)), lame_equilibrium (radial equilibrium with HasDerivAt, sigma_r(r_i) = -p, sigma_r(r_o) = 0), lame_compatibility, lame_axial_force (force and stiffness pi(ro^2-ri^2)E/h). Tied to srlife by comparing node positions, connectivity columns and the vertex sets of the real pressure boundary with the model for 84 meshes per run (exact), the assembled external force vector of the real forms with the model's nodal loads (1e-9), and by real elastic solves: stresses vs the Lean-evaluated Lame solution under refinement (observed order >= 1.8 on ring means), 1D = 2D = 3D stresses, force per area and stiffness within mesh tolerance.",
   note="Trusted: Lean kernel + Mathlib; scikit-fem assembly of the quad/hex forms and NEML's linear elasticity (convergence to the Lame solution and cross-abstraction agreement under T(r) are measured, not proved); per-facet resultants read through a scikit-fem internal API with a one-facet FacetBasis fallback.",
   design="4/C03"),
 "C15": dict(
   technique="Lean 4 proof (fold of the thermal/mechanical strain bookkeeping over any history and any sub-increment split by list induction; telescoping for constant and affine expansion coefficient; causality as a take/prefix law) + bit-exact correspondence with the real bookkeeping functions + predicates on real solves in 1D/2D/3D",
   text="Theorems: partition, thermal_isotropic(_stored), thermal_zero_if_unchanged, thermal_const_cte, thermal_affine_cte, stored_symmetric, strain_symmetric, causal, elastic_path_independent (expansion coefficient affine in T over the step), path_dependent_outside_hypothesis (witness with a quadratic coefficient: finding F25), free_expansion. Tied to srlife by comparing calculate_mechanical_strain, _setup_state, dump_state and the accepted sub-increments of the real solve loop with the model bit-exactly (alpha values from the real NEML material sent along), and by real solves over multi-step temperature/pressure histories in all three abstractions (constant-alpha elastic, shipped 316H elastic and creeping models): partition, isotropy, zero-if-unchanged, alpha*(T-T0), symmetry, free expansion, truncation bit-equal (causality), path independence under forced subdivision and under scripted retries.",
   note="Trusted: Lean kernel + Mathlib; NEML's alpha(T) and stress update; the hypothesis Step.Closed (last accepted sub-increment ends the step) is C10's success_spec; free expansion is evaluated with tight inner tolerances. Open finding F25: elastic state depends on subdivision when alpha is not affine in T over a step.",
   design="4/C15"),
 "C08": dict(
   technique="Lean 4 proof of the scheduling bookkeeping (ordered gather under any completion permutation and chunking, dispatch branches, copy-back, edge-parallel assembly) + differential execution of the real stages across worker counts, paging and progress options (bit-for-bit)",
   category="proof",
   text="PARTIAL by nature: most of this property lives in the runtime (fork, dill pickling, mmap, BLAS threading, the OS scheduler), which no theorem here describes. Proved, for every task count, chunk size and completion order: gather_schedule_independent, gather_default_chunk, install_map, rj_parallel_equal, evalN_eq_evalSeq, dispatch_equal, copy_complete, solve_schedule_independent, dispatch_total, dispatchOf_none_iff, dispatch_reachable, life_schedule_independent. The rest is carried by differential runs of the real thermal, coupled-thermal, structural/system and damage/reliability stages through SolutionManager with nthreads in {1,2,4} (thorough: up to 16), paging on/off, progress on/off, on receivers that hit both dispatch branches (instrumented and compared with the model's dispatch rule), every result array compared bit-for-bit with an in-process reference; observed out-of-order completion orders of real Pool.map/imap runs are fed to the model's gather.",
   note="Trusted / not modelled: process creation, dill serialisation (F24 repaired: memmap reducer), memory-mapped files, BLAS threading determinism, the scheduler (quantified over as an arbitrary order). srlife exposes no chunk-size option, so chunking varies only through nthreads. Quick tier takes about 3 minutes because each configuration starts real process pools.",
   design="4/C08"),
 "C11": dict(
   technique="Lean 4 proof (tensor contraction identity for the coded einsum; Schur-complement derivative with HasDerivAt; positivity of the Schur complement of a symmetric positive definite Jacobian) + Float correspondence of the coded stiffness arithmetic + finite-difference validation of dF/dd on real solves for every shipped deformation model",
   text="Theorems: coded_spec_is_full / pinned_spec_is_trace (meaning of the einsum subscripts, which are read from the source by ast on every run), integrand_is_contraction, pinned_trace_differs (witness for the repaired F23), schur_derivative, schur_hasDerivAt, schur_response_exists, schur_3d (1^T(J22 - J21 J11^-1 J12)1), gps_derivative (generalised-plane-strain form = dF/d(d_top)), schurK_eq, gpsStiffness_eq, stiffness_pos, stiffness_pos_gps. Tied to srlife by comparing the coded stiffness arithmetic on real solver objects with random full tangents (1e-16) and calculate_axial_from_fea with a dense Schur complement (1e-14), and by comparing state.stiffness with a central-difference ladder of state.force at every step of 29 histories per run (1D, 2D for every shipped inelastic variant, small 3D; load multipliers 1/3/6; tolerance 1e-6 elastic, 1e-3 inelastic; stiffness > 0).",
   note="Trusted: Lean kernel + Mathlib; NEML's algorithmic tangent = derivative of its stress update, symmetric positive definite (hypothesis of stiffness_pos for inelastic models); scikit-fem assembly; the finite differences run the solver with tight inner tolerances (rtol 1e-12) because the reported stiffness is the derivative of the converged force; steps whose Newton iteration went through an exactly singular linear solve are skipped and counted; histories that do not converge or exceed the time guard are skipped and counted (obligation fails above 25 %).",
   design="4/C11"),
}
PENDING_REASON = "check not built yet in this round (work in progress; see DESIGN.md section 4 for the planned model and theorems) — not claimed"

def main():
    props = [json.loads(l) for l in open(os.path.join(VERIF, "properties.jsonl"))]
    checks, na = [], []
    for p in props:
        pid = p["id"]
        c = CHECKS.get(pid)
        if not c:
            na.append({"property_id": pid, "reason": c_reason(pid)})
            continue
        checks.append({
            "property_id": pid,
            "quick_cmd": "./check %s --tier quick" % pid,
            "thorough_cmd": "./check %s --tier thorough" % pid,
            "evidence_file": "/verif/evidence/%s.json" % pid,
            "replay_cmd_template": "./check %s --replay {path}" % pid,
            "engine": "lean4-proof+correspondence",
            "level_claimed": {"category": c.get("category", "proof"), "text": c["text"], "design_ref": c["design"]},
            "level_note": c["note"],
            "technique": c["technique"],
        })
    hooks_commits = []
    man = {
        "version": 1,
        "setup_cmd": "cd /verif && ./check --setup",
        "hooks": {
            "guard": "SRLIFE_VERIF",
            "enable": "export SRLIFE_VERIF=1 (set by ./check); no hook in /repo is needed so far: all observation is done by monkey-patching from the harness",
            "baseline_off_cmd": "cd /verif && /venv/bin/python harness/baseline.py",
            "source_commits": hooks_commits,
            "add_only": True,
        },
        "engines": [{
            "name": "lean4-proof+correspondence",
            "path": "/verif/lean (theorems), /verif/harness (correspondence + failing-input search), /verif/check (driver)",
            "serves_properties": [c["property_id"] for c in checks],
            "kind_free_text": "Lean 4 theorems about executable models; models tied to /repo by differential execution (line protocol) and by translators regenerating Gen/ on every run",
        }],
        "checks": checks,
        "not_applicable": na,
        "notes": "fix: commits in /repo are listed in /verif/known_findings.jsonl. Exit code 2 = infrastructure problem (never a violation).",
    }
    with open(os.path.join(VERIF, "MANIFEST.json"), "w") as f:
        json.dump(man, f, indent=1)
    print("MANIFEST: %d checks, %d not claimed" % (len(checks), len(na)))

NA_REASONS = {}
def c_reason(pid):
    return NA_REASONS.get(pid, PENDING_REASON)

if __name__ == "__main__":
    main()
