"""usage: reseed.py [workers]   -- re-run the check of every kept seeded change (seeded/<id>_<tag>/patch.diff) against
a scratch worktree carrying the change; prints which are (still) detected.  Seeds of one property run in sequence,
properties in parallel.  Scratch worktrees live under /tmp and are removed."""
import json, os, subprocess, sys
from concurrent.futures import ThreadPoolExecutor
V = "/verif"
seeds = sorted(os.listdir(os.path.join(V, "seeded")))
# RESEED_CHECKS=C13,C14 restricts the run to the seeds whose recorded checks include one of these
only = set(x for x in os.environ.get("RESEED_CHECKS", "").split(",") if x)
if only:
    def _checks(s):
        try:
            return set(json.load(open(os.path.join(V, "seeded", s, "meta.json"))).get("checks_run", {}))
        except Exception:
            return set()
    seeds = [s for s in seeds if _checks(s) & only]
groups = {}
for s in seeds:
    groups.setdefault(s.split("_")[0], []).append(s)


def run_group(pid):
    out = []
    for s in groups[pid]:
        wt = "/tmp/wt_reseed_%s" % s
        subprocess.run(["git", "-C", "/repo", "worktree", "remove", "--force", wt], capture_output=True)
        subprocess.run(["git", "-C", "/repo", "worktree", "add", "-q", wt, "HEAD"], check=True, capture_output=True)
        try:
            r = subprocess.run(["git", "-C", wt, "apply", os.path.join(V, "seeded", s, "patch.diff")], capture_output=True, text=True)
            if r.returncode:
                out.append((s, "PATCH DOES NOT APPLY", ""))
                continue
            meta = json.load(open(os.path.join(V, "seeded", s, "meta.json")))
            checks = list(meta.get("checks_run", {pid: 0}).keys())
            res = []
            for c in checks:
                env = dict(os.environ, SRLIFE_REPO=wt)
                try:
                    p = subprocess.run(["./check", c, "--tier", "quick"], cwd=V, env=env, capture_output=True, text=True, timeout=2400)
                    lines = [l for l in p.stdout.split("\n") if l.startswith("VIOLATION")]
                    res.append("%s rc=%d viol=%d%s" % (c, p.returncode, len(lines), " (no input)" if lines and all("no-failing-input-found" in l for l in lines) else ""))
                except subprocess.TimeoutExpired:
                    res.append("%s TIMEOUT" % c)
            out.append((s, "; ".join(res), ""))
        finally:
            subprocess.run(["git", "-C", "/repo", "worktree", "remove", "--force", wt], capture_output=True)
        print(out[-1][0], out[-1][1], flush=True)
    return out


with ThreadPoolExecutor(int(sys.argv[1]) if len(sys.argv) > 1 else 4) as ex:
    allout = [x for g in ex.map(run_group, sorted(groups)) for x in g]
missed = [s for s, r, _ in allout if "viol=0" in r or "TIMEOUT" in r or "rc=2" in r or "APPLY" in r]
print("seeds: %d, not detected / trouble: %s" % (len(allout), missed))
