"""C06 — solid temperatures obey the discrete maximum principle.

Lean: SrModel/Thermal.lean, SrProofs/Thermal.lean, SrProps/C06.lean (max_principle, history version,
uniform_stays_uniform, nonneg_flux_no_cooling, step_unique) for every grid, dt > 0, 1D/2D/3D.
Tie:  the matrix correspondence shared with C02 (real solve_step system == model rows).
Search: bounds evaluated on real multi-step solves, biased to huge steps (dt up to 2^20 x the
      generated steps), large film numbers, steep random initial fields.
"""
import os
import sys

sys.path.insert(0, os.path.dirname(os.path.abspath(__file__)))
import numpy as np
import common
import thermal_common as tc

F17_SIG = "c06:inner-halfcell-radius-nonpositive"


def data_bounds(case, tube, mat, fluid, prob, T0real):
    """[lo, hi] of initial real-node values, prescribed wall temperatures and fluid temperatures
    over all times used"""
    vals = [float(np.min(T0real)), float(np.max(T0real))]
    for which, kind, data in (("inner", case.inner, case.inner_data), ("outer", case.outer, case.outer_data)):
        if kind in ("fix", "conv", "film"):
            vals += [float(np.min(data)), float(np.max(data))]
    return min(vals), max(vals)


def check_case(case, substep=1):
    bad = []
    prob, tube, mat, fluid, steps = tc.run_history(case, substep=substep)
    T0 = tc.real_view(case, steps[0]["Tn"].reshape(prob.dim))
    lo, hi = data_bounds(case, tube, mat, fluid, prob, T0)
    has_flux = "flux" in (case.inner, case.outer)
    thick = prob.dr >= 2.0 * (case.r - case.t)
    # rounding of the residual (eps*|A||T|) passes through A^-1 (norm <= 1): amplification-aware slack
    dr = case.t / (case.nr - 1)
    amp = 1.0 + float(np.max(np.diff(case.times))) / substep * float(np.max(case.mat_a)) / dr ** 2 * 8
    slack = max(1e-6, 64 * 2.2e-16 * amp) * (abs(hi) + abs(lo) + 1.0)
    suffix = "-thick" if thick else ""
    prev_min = float(np.min(T0))
    for n, st in enumerate(steps):
        Tr = tc.real_view(case, st["T"].reshape(prob.dim))
        if not has_flux:
            if np.min(Tr) < lo - slack or np.max(Tr) > hi + slack:
                bad.append(("range" + suffix, "step %d: real-node temperatures [%.9g, %.9g] leave the data range [%.9g, %.9g]" % (
                    n, np.min(Tr), np.max(Tr), lo, hi)))
        else:
            # non-negative heat input on flux walls, other walls insulated: no cooling below earlier minimum
            ok_kinds = all(k in ("ins", "flux") for k in (case.inner, case.outer))
            nonneg = all(np.all(d >= 0) for k, d in ((case.inner, case.inner_data), (case.outer, case.outer_data)) if k == "flux")
            if ok_kinds and nonneg and np.min(Tr) < prev_min - slack:
                bad.append(("cooling" + suffix, "step %d: min temperature %.9g fell below earlier minimum %.9g with non-negative heat input" % (
                    n, np.min(Tr), prev_min)))
        if case.inner == "ins" and case.outer == "ins" and case.T0field is None:
            if np.max(np.abs(Tr - case.T0)) > max(1e-9, 64 * 2.2e-16 * amp * (n + 1)) * (abs(case.T0) + 1):
                bad.append(("uniform", "step %d: insulated uniform field drifted by %.3e" % (n, np.max(np.abs(Tr - case.T0)))))
        prev_min = min(prev_min, float(np.min(Tr)))
    # the same bounds on what the user-level call returns: FiniteDifferenceImplicitThermalSolver.solve drives the
    # sub-steps itself (solve_step_substep), so anything it does to the sub-step times shows here and only here
    if not has_flux:
        receiver, thermal, materials = tc.mods()
        tube2, mat2, fluid2 = tc.build(case)
        T0fn = None
        if case.T0field is not None:
            T0fn = prob.T0
        solver = thermal.FiniteDifferenceImplicitThermalSolver(rtol=1e-13, atol=tc.auto_atol(case), miter=30, substep=substep)
        Tall = np.array(solver.solve(tube2, mat2, fluid2, T0=T0fn))
        for n in range(1, Tall.shape[0]):
            if np.min(Tall[n]) < lo - slack or np.max(Tall[n]) > hi + slack:
                bad.append(("range-solve" + suffix, "time %d of solver.solve(substep=%d): temperatures [%.9g, %.9g] leave the data range [%.9g, %.9g]" % (
                    n, substep, np.min(Tall[n]), np.max(Tall[n]), lo, hi)))
                break
    return bad


def run(ctx):
    ctx.rule = ("random tubes and wall-kind pairings as in C02, plus huge time steps (x2^10, x2^20), film "
                "coefficients up to 2^10, steep random initial fields; non-trivial when a wall exchanges heat or "
                "the initial field is not uniform")
    ctx.trusted = ["Lean 4 kernel + Mathlib (propext, Classical.choice, Quot.sound)",
                   "harness/thermal_common.py capture of the real step system",
                   "real solves meet the bounds up to the Newton tolerance (slack 1e-6 relative)"]
    ctx.assumptions = ["no volumetric source; coefficients positive on the ranges used (C20)"]
    thm_ok = common.lean_stage(ctx, [("SrProps.C06", "SrProps/C06.lean", "SrProps.C06")])
    rng = ctx.rng
    n_corr = 40 if ctx.quick() else 400
    n_real = 90 if ctx.quick() else 1500
    pairs = [(i, o) for i in tc.KINDS_INNER for o in tc.KINDS_OUTER]
    cases = []
    for n in range(n_corr):
        i, o = pairs[(3 * n) % len(pairs)]
        c = tc.gen_case(rng, ndim=1 + n % 3, inner=i, outer=o, steady=False)
        if n % 2:
            c.times = c.times * 2.0 ** 10
        cases.append(c)
    mism = tc.matrix_correspondence(ctx, cases, "C06")
    viol = []
    nraised = 0
    for n in range(n_real):
        i, o = pairs[(5 * n) % len(pairs)]
        c = tc.gen_case(rng, ndim=1 + n % 3, inner=i, outer=o, steady=False)
        mode = n % 6
        if mode == 0:
            c.times = c.times * 2.0 ** 20
        elif mode == 1:
            c.times = c.times * 2.0 ** 10
            if c.inner == "film":
                c.inner_data2 = c.inner_data2 * 2.0 ** 7
            c.film = c.film * 2.0 ** 7
        elif mode == 2:
            c.inner = c.outer = "ins"
            c.T0field = None
        elif mode == 3:
            # heat input only
            c.inner = rng.choice(["ins", "flux"])
            c.outer = "flux"
            sh = (len(c.times), c.nt, c.nz)
            c.inner_data = np.array([tc.dyadic(rng, 0.0, 0.5) for _ in range(int(np.prod(sh)))]).reshape(sh) if c.inner == "flux" else None
            c.outer_data = np.array([tc.dyadic(rng, 0.0, 0.5) for _ in range(int(np.prod(sh)))]).reshape(sh)
            c.inner_data2 = c.outer_data2 = None
        if "flux" in (c.inner, c.outer) and mode != 3:
            # flux walls with arbitrary sign are outside the range statement; make them insulated
            if c.inner == "flux":
                c.inner, c.inner_data = "ins", None
            if c.outer == "flux":
                c.outer, c.outer_data = "ins", None
        try:
            bad = check_case(c, substep=c.substep)
        except (RuntimeError, ValueError) as e:
            ctx.notes.append("real solve raised (C17 / table range, not C06): %r" % (e,))
            nraised += 1
            continue
        ctx.case(("real", n, c.ndim, c.inner, c.outer, mode), nontrivial=(c.inner != "ins" or c.outer != "ins" or c.T0field is not None),
                 tag="real/%dD/%s-%s/mode%d" % (c.ndim, c.inner, c.outer, mode),
                 sample={"suite": "bounds on real solves", "ndim": c.ndim, "inner": c.inner, "outer": c.outer,
                         "max_dt": float(np.max(np.diff(c.times))), "failures": bad[:2]})
        for what, detail in bad:
            viol.append((c, what, detail))
    # 3-D, insulated, strongly temperature-dependent material, initial field steep along z, large steps: the bounds are
    # those of the initial field, and they hold only as long as every row of every directional operator sums to zero
    for n in range(6 if ctx.quick() else 60):
        c = tc.gen_case(rng, ndim=3, inner="ins", outer="ins", steady=False, const_mat=False, nsteps=2)
        c.nz = max(c.nz, 4)
        c.mat_T = np.array([-20000.0, 400.0, 600.0, 800.0, 40000.0])
        c.mat_k = np.array([20.0, 20.0, 20.0, 20.0, 20.0])
        c.mat_a = np.array([2.0, 2.0, 40.0, 2.0, 2.0]) if n % 2 == 0 else np.array([40.0, 40.0, 1.0, 40.0, 40.0])
        zprof = np.array([300.0, 900.0, 350.0, 850.0, 600.0, 320.0, 880.0])[:c.nz]
        c.T0field = np.broadcast_to(zprof[None, None, :], (c.nr, c.nt, c.nz)).copy()
        c.times = np.array([0.0, 64.0, 192.0]) * (1.0 if n % 3 else c.h ** 2 / 16.0)
        c.substep = 1
        try:
            bad = check_case(c, substep=1)
        except (RuntimeError, ValueError) as e:
            ctx.notes.append("real solve raised (C17 / table range, not C06): %r" % (e,))
            nraised += 1
            continue
        ctx.case(("real-axial", n), nontrivial=True, tag="real/3D/ins-ins/axial-Tdep",
                 sample={"suite": "bounds on real solves (3D, T-dependent, axial profile)", "failures": bad[:2]})
        for what, detail in bad:
            viol.append((c, what, detail))
    # a material whose diffusivity jumps by a factor of ten within one radial cell next to a heat-exchanging wall (steep
    # table, steep initial profile, coarse grid): every half-node coefficient, the one towards the ghost included, must
    # stay non-negative (it is a mean of two positive nodal values)
    for n in range(6 if ctx.quick() else 40):
        c = tc.gen_case(rng, ndim=1 + n % 2, inner=("flux", "conv", "film")[n % 3], outer="ins", steady=False, const_mat=False, nsteps=3)
        c.nr = 5
        c.r, c.t = 1.0, 0.2                      # dr = 0.05: dt*a/dr^2 = 0.4 .. 30, wall numbers dr*q/k, dr*h/k of order 1
        c.mat_T = np.array([-20000.0, 400.0, 600.0, 40000.0])
        c.mat_k = np.array([20.0, 20.0, 20.0, 20.0])
        c.mat_a = np.array([1.0, 1.0, 10.0, 10.0]) if n % 2 == 0 else np.array([10.0, 10.0, 1.0, 1.0])
        c.film = 400.0
        prof = np.linspace(300.0, 1100.0, c.nr) if (n // 2) % 2 == 0 else np.linspace(1100.0, 300.0, c.nr)
        shape = {1: (c.nr,), 2: (c.nr, c.nt)}[c.ndim]
        c.T0field = np.broadcast_to(prof.reshape((c.nr,) + (1,) * (c.ndim - 1)), shape).copy()
        c.times = np.array([0.0, 0.001, 0.002, 0.004])
        c.substep = 1
        sh = (len(c.times), c.nt, c.nz)
        if c.inner == "flux":
            c.inner_data = np.full(sh, 2.0 ** 17 * rng.choice([1.0, 2.0]))      # dr*q/k of several hundred K
        elif c.inner == "conv":
            c.inner_data = np.full((len(c.times), c.nz), 1100.0 if prof[0] < prof[-1] else 300.0)
        else:
            c.inner_data = np.full((c.nz,), 1100.0 if prof[0] < prof[-1] else 300.0)
            c.inner_data2 = np.full((c.nz,), 400.0)
        try:
            bad = check_case(c, substep=1)
        except (RuntimeError, ValueError) as e:
            ctx.notes.append("real solve raised (C17 / table range, not C06): %r" % (e,))
            nraised += 1
            continue
        ctx.case(("real-jump", n), nontrivial=True, tag="real/%dD/%s-ins/property jump next to the wall" % (c.ndim, c.inner),
                 sample={"suite": "bounds on real solves (diffusivity jump next to a heat-exchanging wall)", "failures": bad[:2]})
        for what, detail in bad:
            viol.append((c, what, detail))
    # a WEAK film (cell Biot number dr*h/k = 2^-5) and a step several times the wall's response time t*k/(a*h): an
    # iteration that treats the film term explicitly still converges here (its contraction factor is the Biot number) but
    # overshoots the fluid temperature; with a strong film it diverges and the solve raises, which is C17's subject
    for n in range(4 if ctx.quick() else 16):
        c = tc.gen_case(rng, ndim=1 + n % 2, inner="film", outer="ins", steady=False, const_mat=True, nsteps=3)
        c.nr = rng.choice([5, 9])
        c.r, c.t = 10.0, 2.0
        dr = c.t / (c.nr - 1)
        k, a = 2.0 ** -5, 4.0
        hfilm = k / dr * 2.0 ** -5
        c.mat_T, c.mat_k, c.mat_a = None, np.array([k]), np.array([a])
        c.T0, c.T0field = 300.0, None
        c.inner_data, c.inner_data2 = np.full((c.nz,), 500.0), np.full((c.nz,), hfilm)
        c.outer_data = c.outer_data2 = None
        tau = c.t * k / (a * hfilm)
        c.times = np.array([0.0, 1.0, 2.0, 3.0]) * tau * (4.0 if n < 2 else 16.0)
        c.substep = 1
        try:
            bad = check_case(c, substep=1)
        except (RuntimeError, ValueError) as e:
            ctx.notes.append("real solve raised (C17 / table range, not C06): %r" % (e,))
            nraised += 1
            continue
        ctx.case(("real-weakfilm", n), nontrivial=True, tag="real/%dD/film-ins/weak film, long step" % c.ndim,
                 sample={"suite": "bounds on real solves (weak film, step of several response times)", "failures": bad[:2]})
        for what, detail in bad:
            viol.append((c, what, detail))
    # F17 probe
    f17 = tc.gen_case(rng, ndim=1, inner="flux", outer="ins", steady=False, const_mat=True, thick_ok=True, nsteps=1)
    f17.r, f17.t, f17.nr, f17.h = 1.0, 0.8, 2, 1.0
    f17.inner_data = np.ones((2, f17.nt, f17.nz))
    f17.T0field = None
    try:
        for what, detail in check_case(f17):
            viol.append((f17, what, detail))
        ctx.case(("f17",), tag="real/F17-probe", sample={"suite": "F17 probe r=1 t=0.8 nr=2 q=+1"})
    except (RuntimeError, ValueError) as e:
        ctx.notes.append("F17 probe raised: %r" % (e,))
    ctx.obligation("the real solver completed on at least 80% of the generated cases (a check that skips everything proves nothing)",
                   nraised * 5 <= n_real, "%d of %d raised" % (nraised, n_real))
    if nraised * 5 > n_real:
        mism = list(mism) + [(cases[0], ["%d of %d real solves raised" % (nraised, n_real)])]
    ctx.obligation("property predicate (range bounds, uniform stays uniform, no cooling under heat input) on real solves",
                   not [v for v in viol if not v[1].endswith("-thick")],
                   "%d failures; first: %s" % (len(viol), viol[0][1:] if viol else ""))
    for c, what, detail in viol[:10]:
        sig = F17_SIG if what.endswith("-thick") else "c06:" + what
        ctx.violation("real thermal solve: " + detail, {"case": c.to_json(), "check": what, "substep": c.substep}, signature=sig)
    if not ctx.violations and (mism or not thm_ok):
        ctx.violation("C06 theorem or correspondence no longer checks",
                      {"mismatches": [(c.to_json(), d) for c, d in mism[:3]], "lean": ctx.extra.get("lean_errors"),
                       "theorems": ctx.extra.get("broken_theorems")}, no_input=True)
    return "proof"


def replay(obj):
    r = obj["replay"]
    if "case" not in r:
        print("replay names no input:", list(r))
        return 1
    c = tc.Case.from_json(r["case"])
    bad = check_case(c, substep=r.get("substep", 1))
    for what, detail in bad:
        print("FAILS:", what, detail)
    print("property violated on this input" if bad else "property holds on this input")
    return 1 if bad else 0


if __name__ == "__main__":
    sys.exit(common.main("C06", run, replay))
