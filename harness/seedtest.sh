#!/bin/bash
# usage: harness/seedtest.sh <seeddir with patch.diff demo.py meta.json> [check ids...]
# confirms the seeded change (applies, demo fails with it / passes without, 76 stable tests still pass) in a
# scratch worktree and runs the named checks (default: meta.json's property) against that worktree.
D="$1"; shift
PROP=$(python3 -c "import json,sys; print(json.load(open('$D/meta.json'))['property'])")
CHECKS="${@:-$PROP}"
WT=/tmp/wt_seed_$$
git -C /repo worktree add -q "$WT" HEAD || exit 2
if ! git -C "$WT" apply "$D/patch.diff"; then echo "PATCH DOES NOT APPLY"; git -C /repo worktree remove --force "$WT"; exit 2; fi
echo "== demo on changed tree"; (cd /tmp && PYTHONPATH=/tmp/shim:$WT timeout 300 /venv/bin/python "$D/demo.py" "$WT" > /tmp/seed_demo_$$.log 2>&1; echo "exit=$?"; grep -v "fork\|Warning" /tmp/seed_demo_$$.log | tail -3)
echo "== demo on /repo"; (cd /tmp && PYTHONPATH=/tmp/shim:/repo timeout 300 /venv/bin/python "$D/demo.py" /repo > /tmp/seed_demo_$$.log 2>&1; echo "exit=$?"; grep -v "fork\|Warning" /tmp/seed_demo_$$.log | tail -2; rm -f /tmp/seed_demo_$$.log)
echo "== stable tests on changed tree"
python3 - "$WT" <<'PY'
import json, os, subprocess, sys, tempfile, xml.etree.ElementTree as ET
wt = sys.argv[1]
want = set(json.load(open("/root/.vp/BASELINE.json"))["stable_pass"])
env = {k: v for k, v in os.environ.items() if k not in ("SRLIFE_VERIF",)}
env["PYTHONPATH"] = wt
with tempfile.TemporaryDirectory() as d:
    out = os.path.join(d, "j.xml")
    env["TMPDIR"] = d
    subprocess.run(["/venv/bin/python", "-m", "pytest", "-q", "-p", "no:cacheprovider", "--timeout=900",
                    "--continue-on-collection-errors", "--junitxml=" + out], cwd=wt, env=env,
                   stdout=subprocess.DEVNULL, stderr=subprocess.DEVNULL)
    passed = set()
    for tc in ET.parse(out).getroot().iter("testcase"):
        if not any(c.tag in ("failure", "error", "skipped") for c in tc):
            passed.add("%s::%s" % (tc.get("classname"), tc.get("name")))
missing = sorted(want - passed)
print("stable tests passing: %d/%d" % (len(want) - len(missing), len(want)), missing[:5])
PY
for C in $CHECKS; do
  echo "== check $C against changed tree"
  (cd /verif && SRLIFE_REPO="$WT" timeout 1500 ./check "$C" --tier quick 2>&1 | grep -v "^KNOWN-FINDING\|fork" | tail -5)
done
git -C "$WT" checkout -q -- . ; git -C "$WT" clean -fdq
git -C /repo worktree remove --force "$WT"
for C in $CHECKS; do (cd /verif && ./check "$C" --tier quick >/dev/null 2>&1); done
