"""Shared machinery of the /verif checks (see DESIGN.md section 2 and 7).

A check is `run(ctx)` in harness/cXX.py.  It
  1. (re)builds the Lean theorems of its property and audits their axioms,
  2. runs the correspondence between the executable Lean model and /repo's code,
  3. evaluates the property's own predicate on the real code (failing-input search),
and reports through `ctx`.  Exit codes: 0 held, 1 violation, 2 infrastructure problem.
"""
import collections
import fcntl
import hashlib
import json
import os
import random
import re
import subprocess
import sys
import time
import traceback

HARNESS = os.path.dirname(os.path.abspath(__file__))
VERIF = os.path.dirname(HARNESS)
LEAN = os.path.join(VERIF, "lean")
REPO = os.environ.get("SRLIFE_REPO", "/repo")
ALLOWED_AXIOMS = {"propext", "Classical.choice", "Quot.sound"}
FORBIDDEN = re.compile(
    r"\bsorry\b|\badmit\b|^\s*axiom\s|native_decide|bv_decide|implemented_by|\bunsafe\s|maxHeartbeats\s+0"
)


class Infra(Exception):
    """Something in the machinery (not the property) went wrong -> exit 2."""


def _strip_comments(src):
    # remove /- ... -/ (nested) and -- ... comments
    out, i, depth = [], 0, 0
    while i < len(src):
        if src.startswith("/-", i):
            depth += 1
            i += 2
        elif depth and src.startswith("-/", i):
            depth -= 1
            i += 2
        elif depth:
            if src[i] == "\n":
                out.append("\n")
            i += 1
        elif src.startswith("--", i):
            while i < len(src) and src[i] != "\n":
                i += 1
        else:
            out.append(src[i])
            i += 1
    return "".join(out)


def known_findings():
    path = os.path.join(VERIF, "known_findings.jsonl")
    res = []
    if os.path.exists(path):
        for line in open(path):
            line = line.strip()
            if line and not line.startswith("#"):
                res.append(json.loads(line))
    return res


class Ctx:
    def __init__(self, pid, tier, seed):
        self.pid, self.tier, self.seed = pid, tier, seed
        self.rng = random.Random(seed)
        self.t0 = time.time()
        self.obligations = []  # (name, ok, detail)
        self.evals = 0
        self.nontrivial = set()
        self.dist = collections.Counter()
        self.samples = []
        self.violations = []
        self.known_hits = []
        self.notes = []
        self.assumptions = []
        self.trusted = []
        self.rule = ""
        self.exhaustive = None
        self.checker_cmd = ""
        self.extra = {}
        self.open_findings = [
            k for k in known_findings() if k.get("status") == "open" and k.get("property") == pid
        ]

    # ---- bookkeeping -------------------------------------------------
    def quick(self):
        return self.tier == "quick"

    def obligation(self, name, ok, detail=""):
        self.obligations.append((name, bool(ok), detail))

    def case(self, key=None, nontrivial=True, sample=None, tag=None):
        """count one explored case; key identifies distinct cases"""
        self.evals += 1
        if nontrivial and key is not None:
            self.nontrivial.add(key if isinstance(key, (str, int, tuple)) else json.dumps(key, sort_keys=True))
        if tag:
            self.dist[tag] += 1
        if sample is not None and len(self.samples) < 6:
            self.samples.append(sample)

    def violation(self, what, replay, signature=None, no_input=False):
        """report a property violation; `replay` is a JSON-able description"""
        for k in self.open_findings:
            if signature is not None and k.get("signature") == signature:
                if k not in [h[0] for h in self.known_hits]:
                    self.known_hits.append((k, what))
                return None
        h = hashlib.sha1(json.dumps([what, replay], sort_keys=True, default=str).encode()).hexdigest()[:10]
        path = os.path.join(VERIF, "replays", "%s-%s.json" % (self.pid, h))
        os.makedirs(os.path.dirname(path), exist_ok=True)
        with open(path, "w") as f:
            json.dump(
                {"property": self.pid, "what": what, "signature": signature,
                 "no_failing_input_found": bool(no_input), "replay": replay,
                 "how": "./check %s --replay %s" % (self.pid, path)},
                f, indent=1, default=str)
        if len(self.violations) < 20:
            self.violations.append((what, path, no_input))
        return path

    # ---- finishing ---------------------------------------------------
    def finish(self, level="proof"):
        wall = time.time() - self.t0
        n_ob = len(self.obligations)
        n_ok = sum(1 for o in self.obligations if o[1])
        cov = {
            "obligations": n_ob,
            "discharged": n_ok,
            "checker_cmd": self.checker_cmd or "cd /verif/lean && lake build SrProps.%s" % self.pid,
            "trusted_base": self.trusted,
            "obligation_list": [{"name": o[0], "ok": o[1], "detail": o[2][:300]} for o in self.obligations],
            "evaluations": self.evals,
            "distinct_nontrivial": len(self.nontrivial),
            "rule": self.rule,
            "samples": self.samples or ["(none)"],
            "distribution": dict(self.dist),
            "notes": self.notes,
        }
        if self.exhaustive is not None:
            cov["exhaustive"] = bool(self.exhaustive)
        cov.update(self.extra)
        ev = {
            "property_id": self.pid,
            "tier": self.tier,
            "seed": self.seed,
            "level": level,
            "coverage": cov,
            "assumptions": self.assumptions,
            "wall_s": round(wall, 2),
            "violations": len(self.violations),
            "known_findings_hit": [k[0].get("signature") for k in self.known_hits],
        }
        os.makedirs(os.path.join(VERIF, "evidence"), exist_ok=True)
        with open(os.path.join(VERIF, "evidence", "%s.json" % self.pid), "w") as f:
            json.dump(ev, f, indent=1, default=str)
        for k, what in self.known_hits:
            print("KNOWN-FINDING: property=%s %s" % (self.pid, k.get("what", what)))
        for what, path, no_input in self.violations:
            print("  violation: %s" % what)
            print("VIOLATION property=%s replay=%s%s" % (self.pid, path, " no-failing-input-found" if no_input else ""))
        print("%s %s: %d/%d obligations, %d cases (%d distinct non-trivial), %.1fs, %d violation(s)" % (
            self.pid, self.tier, n_ok, n_ob, self.evals, len(self.nontrivial), wall, len(self.violations)))
        sys.stdout.flush()
        return 1 if self.violations else 0


# ---------------------------------------------------------------------------
# Lean side
# ---------------------------------------------------------------------------
class _Lock:
    def __enter__(self):
        os.makedirs(os.path.join(LEAN, ".lake"), exist_ok=True)
        self.f = open(os.path.join(LEAN, ".lake", "verif.lock"), "w")
        fcntl.flock(self.f, fcntl.LOCK_EX)

    def __exit__(self, *a):
        fcntl.flock(self.f, fcntl.LOCK_UN)
        self.f.close()


def _env():
    env = dict(os.environ)
    env.pop("PYTHONPATH", None)
    return env


def lake_build(targets, timeout=3000):
    with _Lock():
        p = subprocess.run(["lake", "build"] + list(targets), cwd=LEAN, env=_env(),
                           stdout=subprocess.PIPE, stderr=subprocess.STDOUT, text=True, timeout=timeout)
    return p.returncode == 0, p.stdout


def lean_run_file(path, timeout=1200):
    p = subprocess.run(["lake", "env", "lean", path], cwd=LEAN, env=_env(),
                       stdout=subprocess.PIPE, stderr=subprocess.STDOUT, text=True, timeout=timeout)
    return p.returncode, p.stdout


def theorem_names(module_path, namespace):
    """names of the theorems declared in a property file"""
    src = _strip_comments(open(module_path).read())
    return [namespace + "." + m for m in re.findall(r"^\s*theorem\s+([A-Za-z_][A-Za-z0-9_'.]*)", src, re.M)]


def forbidden_tokens():
    hits = []
    for root, _, files in os.walk(LEAN):
        if ".lake" in root:
            continue
        for fn in files:
            if fn.endswith(".lean"):
                p = os.path.join(root, fn)
                for n, line in enumerate(_strip_comments(open(p).read()).split("\n"), 1):
                    if FORBIDDEN.search(line):
                        hits.append("%s:%d: %s" % (os.path.relpath(p, LEAN), n, line.strip()[:80]))
    return hits


def axioms_audit(module, names):
    """#print axioms for every theorem; returns {name: [axioms]}"""
    tmp = os.path.join(LEAN, ".lake", "audit_%s_%d.lean" % (module.replace(".", "_"), os.getpid()))
    with open(tmp, "w") as f:
        f.write("import %s\n" % module)
        for n in names:
            f.write("#print axioms %s\n" % n)
    try:
        rc, out = lean_run_file(tmp)
    finally:
        os.unlink(tmp)
    res = {}
    # outputs: "'name' depends on axioms: [a, b]" or "'name' does not depend on any axioms"
    for m in re.finditer(r"'([^']+)' depends on axioms: \[([^\]]*)\]", out.replace("\n", " ")):
        res[m.group(1)] = [a.strip() for a in m.group(2).split(",") if a.strip()]
    for m in re.finditer(r"'([^']+)' does not depend on any axioms", out):
        res[m.group(1)] = []
    return rc, out, res


def lean_stage(ctx, modules, gen=None):
    """Build and audit the property theorems.  `modules` = list of (module name, file, namespace).
    Returns True when every theorem checked.  Never raises for a *proof* failure."""
    if gen is not None:
        gen()
    ok_all = True
    targets = [m[0] for m in modules]
    ctx.checker_cmd = "cd /verif/lean && lake build %s && lake env lean <#print axioms ...>" % " ".join(targets)
    ok, log = lake_build(targets)
    errs = [l for l in log.split("\n") if l.startswith("error:")]
    bad = forbidden_tokens()
    ctx.obligation("no sorry/axiom/native_decide/unsafe in /verif/lean", not bad, "; ".join(bad[:5]))
    if bad:
        ok_all = False
    for mod, path, ns in modules:
        names = theorem_names(os.path.join(LEAN, path), ns)
        if not names:
            raise Infra("no theorems found in %s" % path)
        if not ok:
            # which theorems are broken: map error lines to the enclosing theorem
            src = open(os.path.join(LEAN, path)).read().split("\n")
            broken = set()
            for e in errs:
                m = re.match(r"error: (\S+?):(\d+):", e)
                if m and m.group(1).endswith(path):
                    ln = int(m.group(2))
                    for k in range(min(ln, len(src)) - 1, -1, -1):
                        mm = re.match(r"\s*(theorem|example|def|lemma)\s+([A-Za-z_][A-Za-z0-9_'.]*)?", src[k])
                        if mm:
                            broken.add(ns + "." + (mm.group(2) or "example@%d" % (k + 1)))
                            break
            detail = " | ".join(errs[:4]) or log[-400:]
            for n in names:
                # a failed build discharges nothing in that module
                ctx.obligation("theorem " + n, False,
                               ("fails: " if n in broken else "not checked (module did not build): ") + detail)
            ok_all = False
            ctx.extra.setdefault("lean_errors", []).extend(errs[:10])
            ctx.extra.setdefault("broken_theorems", []).extend(sorted(broken))
            continue
        rc, out, ax = axioms_audit(mod, names)
        for n in names:
            a = ax.get(n)
            good = a is not None and set(a) <= ALLOWED_AXIOMS
            ctx.obligation("theorem " + n, good,
                           "axioms: %s" % (a,) if a is not None else "axiom audit produced no line: " + out[-300:])
            if not good:
                ok_all = False
        if not ctx.quick():
            # thorough tier: the toolchain's independent re-checker replays the compiled module (and the helper
            # module it rests on) through the kernel
            r = subprocess.run(["lake", "env", "leanchecker", mod], cwd=LEAN, env=_env(), capture_output=True, text=True, timeout=3600)
            ctx.obligation("leanchecker replays %s" % mod, r.returncode == 0, (r.stdout + r.stderr)[-300:].strip() or "ok")
            if r.returncode != 0:
                ok_all = False
    return ok_all


DRIVER_TEMPLATE = """%(imports)s
/-! generated by harness/common.py: line-protocol driver for %(mods)s -/
def handlers : List (List String → Option String) := [%(handlers)s]
def handleLine (line : String) : String :=
  let ws := (line.trimAscii.toString.splitOn " ").filter (· ≠ "")
  (handlers.findSome? (fun h => h ws)).getD "bad-op"
partial def loop (h : IO.FS.Stream) (out : IO.FS.Stream) : IO Unit := do
  let line ← h.getLine
  if line.isEmpty then return ()
  out.putStrLn (handleLine line)
  loop h out
def main : IO Unit := do
  let out ← IO.getStdout
  loop (← IO.getStdin) out
  out.flush
"""


class LeanDriver:
    """batch line protocol: send all lines, get all answers.

    `modules` are the model modules whose `handle` functions serve the requests, e.g.
    ["SrModel.Adaptive"]; a small driver importing only those is generated under .lake/, so an
    unrelated model file that does not compile cannot break this check."""

    def __init__(self, modules):
        self.modules = list(modules)
        ok, log = lake_build(self.modules)
        if not ok:
            raise Infra("model does not build:\n" + log[-2000:])
        os.makedirs(os.path.join(LEAN, ".lake"), exist_ok=True)
        self.path = os.path.join(LEAN, ".lake", "drv_%s.lean" % "_".join(m.replace(".", "") for m in self.modules))
        src = DRIVER_TEMPLATE % {
            "imports": "\n".join("import " + m for m in self.modules),
            "mods": ", ".join(self.modules),
            "handlers": ", ".join(m + ".handle" for m in self.modules),
        }
        if not os.path.exists(self.path) or open(self.path).read() != src:
            with open(self.path, "w") as f:
                f.write(src)

    def ask(self, lines, timeout=1800):
        if not lines:
            return []
        data = "\n".join(lines) + "\n"
        p = subprocess.run(["lake", "env", "lean", "--run", self.path], cwd=LEAN, env=_env(), input=data,
                           stdout=subprocess.PIPE, stderr=subprocess.PIPE, text=True, timeout=timeout)
        out = p.stdout.split("\n")
        if out and out[-1] == "":
            out.pop()
        if p.returncode != 0 or len(out) != len(lines):
            raise Infra("lean driver: rc=%s, %d answers for %d lines\n%s\n%s" % (
                p.returncode, len(out), len(lines), p.stderr[-2000:], p.stdout[-500:]))
        return out


# ---------------------------------------------------------------------------
# float helpers for the line protocol
# ---------------------------------------------------------------------------
import struct


def f2bits(x):
    return struct.unpack("<Q", struct.pack("<d", float(x)))[0]


def bits2f(b):
    return struct.unpack("<d", struct.pack("<Q", int(b)))[0]


def close(a, b, rel=1e-9, abs_=1e-12):
    if a != a and b != b:
        return True
    if a == b:
        return True
    return abs(a - b) <= rel * max(abs(a), abs(b)) + abs_


class _SerialPool:
    """in-process stand-in for multiprocess.Pool (results in submission order)"""

    def __init__(self, n=None, *a, **k):
        self.n = n

    def __enter__(self):
        return self

    def __exit__(self, *a):
        return False

    def map(self, f, it, chunksize=None):
        return [f(x) for x in it]

    def imap(self, f, it, chunksize=1):
        return iter([f(x) for x in it])

    imap_unordered = imap

    def starmap(self, f, it, chunksize=None):
        return [f(*a) for a in it]

    def apply(self, f, args=(), kwds=None):
        return f(*args, **(kwds or {}))

    def close(self):
        pass

    def join(self):
        pass

    def terminate(self):
        pass


class serial_pools:
    """context manager: multiprocess.Pool -> in-process evaluation, for checks of properties that are not about
    process pools (C08 is).  srlife forks a pool per Picard iteration of the coupled solve; forking a process whose
    JAX runtime has started threads can deadlock, which would turn a check into a time-out."""

    def __enter__(self):
        import multiprocess
        self._mp, self._old = multiprocess, multiprocess.Pool
        multiprocess.Pool = _SerialPool
        return self

    def __exit__(self, *a):
        self._mp.Pool = self._old
        return False


def main(pid, run, replay=None):
    """entry point used by /verif/check"""
    import argparse
    ap = argparse.ArgumentParser()
    ap.add_argument("--tier", default=os.environ.get("VERIF_TIER", "quick"))
    ap.add_argument("--replay", default=None)
    args = ap.parse_args(sys.argv[2:])
    seed = int(os.environ.get("VERIF_SEED", "0") or 0)
    if args.replay:
        if replay is None:
            print("no replay for %s" % pid)
            return 2
        obj = json.load(open(args.replay))
        return replay(obj)
    ctx = Ctx(pid, args.tier, seed)
    try:
        level = run(ctx) or "proof"
        return ctx.finish(level)
    except Infra as e:
        print("INFRA: %s" % e)
        return 2
    except subprocess.TimeoutExpired as e:
        print("INFRA: timeout %s" % e)
        return 2
    except Exception:
        traceback.print_exc()
        print("INFRA: harness crashed")
        return 2
