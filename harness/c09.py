"""C09 — life responds correctly to rotation, permutation, offset, repetition, scaling and worse loads.

Lean: SrModel/Damage.lean (model, shared with C01), SrProofs/Damage.lean, SrProps/C09.lean (theorems).
Tie:  C01's correspondence (a reduced run of it here, on the base *and* the transformed inputs), plus
      metamorphic runs of the real `determine_life` (nthreads=1) on synthetic solved receivers:
        rot     random proper rotation Q applied to every stress and strain tensor (stored shear
                components are tensor components): life equal, 1e-8 relative
        perm    tubes / elements / quadrature points permuted, element and qp axes swapped: life equal, exactly
        offset  a constant strain tensor added at every time point (one tensor per material point):
                life equal, 1e-8 relative
        repeat  the same periodic day represented 1..4 times, lumped: life equal, 1e-8 relative
        scale   every per-cycle damage multiplied by l > 0 (real creep_damage / fatigue_damage arrays,
                real make_extrapolate + calculate_max_cycles called directly): life / l while both lives
                lie in (1, 1e6), 1e-8 relative; same call on the model (`dmg.max`)
        worse   stress tensor history of one point multiplied by g > 1, strain history of one point
                multiplied by g > 1 (ranges within the data: strains <= 1 %, stresses <= 300 MPa):
                life not larger
        tube    one more tube: life not larger (exact)
      In last-cycle mode a difference of one whole cycle is accepted only at a confirmed rounding tie.
Search: the relations above are the property; every failing pair is shrunk and written as a replay.
"""
import math
import os
import sys

sys.path.insert(0, os.path.dirname(os.path.abspath(__file__)))
import common
import damage_common as dc
import c01
import numpy as np

REL = 1e-8


# ---------------------------------------------------------------------------
# transformations of a case
# ---------------------------------------------------------------------------
def copy_case(case):
    c = dict(case)
    c["tubes"] = [dict(times=t["times"].copy(), stress=t["stress"].copy(), strain=t["strain"].copy(),
                       temp=t["temp"].copy()) for t in case["tubes"]]
    return c


def random_rotation(rng):
    npr = np.random.default_rng(rng.getrandbits(32))
    q, r = np.linalg.qr(npr.normal(size=(3, 3)))
    q = q * np.sign(np.diag(r))
    if np.linalg.det(q) < 0:
        q[:, 0] = -q[:, 0]
    return q


def _to_mat(c6):
    xx, yy, zz, yz, xz, xy = c6
    return np.stack([np.stack([xx, xy, xz], -1), np.stack([xy, yy, yz], -1), np.stack([xz, yz, zz], -1)], -2)


def _from_mat(M):
    return np.stack([M[..., 0, 0], M[..., 1, 1], M[..., 2, 2], M[..., 1, 2], M[..., 0, 2], M[..., 0, 1]], 0)


def rotate(case, Q):
    c = copy_case(case)
    Q = np.asarray(Q, dtype=float)
    for t in c["tubes"]:
        for k in ("stress", "strain"):
            M = _to_mat(t[k])
            t[k] = _from_mat(np.einsum("ia,...ab,jb->...ij", Q, M, Q))
    return c


def permute(case, tube_perm, elem_perms, qp_perms, swap):
    c = copy_case(case)
    tubes = []
    for ti in tube_perm:
        t = c["tubes"][ti]
        ep, qp = elem_perms[ti], qp_perms[ti]
        n = dict(times=t["times"])
        for k in ("stress", "strain"):
            a = t[k][:, :, ep, :][:, :, :, qp]
            n[k] = np.ascontiguousarray(a.transpose(0, 1, 3, 2)) if swap[ti] else a
        a = t["temp"][:, ep, :][:, :, qp]
        n["temp"] = np.ascontiguousarray(a.transpose(0, 2, 1)) if swap[ti] else a
        tubes.append(n)
    c["tubes"] = tubes
    return c


def offset(case, offs):
    """offs[ti]: array (6, ne, nq) added to the strain at every time point"""
    c = copy_case(case)
    for t, o in zip(c["tubes"], offs):
        t["strain"] = t["strain"] + np.asarray(o)[:, None, :, :]
    return c


def periodic_day(rng, material, regime):
    """a one-day case whose last sample equals its first (so that it can be tiled)"""
    c = dc.gen_case(rng, regime=regime, material=material, mode="lump", days=1, ntubes=rng.randint(1, 2),
                    period=rng.choice([24.0, 12.0, 10.0, 8.5]))
    for t in c["tubes"]:
        for k in ("stress", "strain"):
            t[k][:, -1] = t[k][:, 0]
        t["temp"][-1] = t["temp"][0]
    return c


curved_case = dc.curved_case


def repeat(case, k):
    c = copy_case(case)
    c["days"] = k
    for t in c["tubes"]:
        base = t["times"][:-1]
        t["times"] = np.concatenate([d * c["period"] + base for d in range(k)] + [[k * c["period"]]])
        for key in ("stress", "strain"):
            t[key] = np.concatenate([t[key][:, :-1]] * k + [t[key][:, :1]], axis=1)
        t["temp"] = np.concatenate([t["temp"][:-1]] * k + [t["temp"][:1]], axis=0)
    return c


def scale_point(case, ti, e, q, what, g):
    c = copy_case(case)
    c["tubes"][ti][what][:, :, e, q] *= g
    return c


def load_room(case, ti, e, q, what):
    """largest factor that keeps the point inside the data ranges (effective stress <= 300 MPa,
    pairwise equivalent strain range <= 1 %)"""
    t = case["tubes"][ti]
    a = t[what][:, :, e, q]                       # (6, nt)
    M = dc._dev(dc._tensor(a))
    if what == "stress":
        big = float(np.max(np.sqrt(1.5 * np.einsum("tij,tij->t", M, M))))
        lim = 300.0
    else:
        big = 0.0
        for i in range(M.shape[0]):
            d = M - M[i]
            big = max(big, float(np.max(np.sqrt(2.0 / 3.0 * np.einsum("tij,tij->t", d, d)))))
        lim = 0.01
    return math.inf if big == 0.0 else lim / big


def add_tube(case, tube):
    c = copy_case(case)
    c["tubes"].append(tube)
    return c


# ---------------------------------------------------------------------------
# comparing lives
# ---------------------------------------------------------------------------
def is_raise(x):
    return isinstance(x, str) and x.startswith("raise")


def life_key(x):
    return 0.0 if x == "zero" else (math.inf if x == "inf" else float(x))


def same_life(case_a, a, case_b, b, exact=False):
    if isinstance(a, str) or isinstance(b, str):
        return a == b
    if exact:
        return a == b
    if case_a["mode"] == "lump":
        return common.close(a, b, rel=REL, abs_=0.0)
    if abs(a - b) <= 1e-6:
        return True
    if abs(a - b) <= 1 + 1e-6:
        return c01.tie_at_integer(case_a, a, b) or c01.tie_at_integer(case_b, a, b)
    return False


def not_larger(case_a, new, old):
    """new <= old up to REL (and the integer tie in last mode)"""
    if is_raise(new) or is_raise(old):
        return is_raise(new) and is_raise(old)
    kn, ko = life_key(new), life_key(old)
    if kn <= ko:
        return True
    if math.isinf(kn):
        return False
    if case_a["mode"] == "lump":
        return kn <= ko * (1 + REL)
    return kn - ko <= 1e-6


def run_life(case):
    status, life = dc.real_life(case)
    return life if status == "ok" else status


# ---------------------------------------------------------------------------
# the relations (each returns list of (what, replay dict))
# ---------------------------------------------------------------------------
def rel_rot(case, Q):
    a = run_life(case)
    c2 = rotate(case, Q)
    b = run_life(c2)
    if not same_life(case, a, c2, b):
        return "life %r becomes %r in rotated axes" % (a, b), c2
    return None, c2


def rel_perm(case, tp, ep, qp, sw):
    a = run_life(case)
    c2 = permute(case, tp, ep, qp, sw)
    b = run_life(c2)
    if not same_life(case, a, c2, b, exact=True):
        return "life %r becomes %r after reordering tubes/elements/quadrature points" % (a, b), c2
    return None, c2


def rel_offset(case, offs):
    a = run_life(case)
    c2 = offset(case, offs)
    b = run_life(c2)
    if not same_life(case, a, c2, b):
        return "life %r becomes %r after adding a constant strain tensor" % (a, b), c2
    return None, c2


def rel_repeat(case, k):
    a = run_life(case)
    c2 = repeat(case, k)
    b = run_life(c2)
    if not same_life(case, a, c2, b):
        return "life %r with one represented day becomes %r with %d identical days (lumped)" % (a, b, k), c2
    return None, c2


def rel_worse(case, ti, e, q, what, g):
    a = run_life(case)
    c2 = scale_point(case, ti, e, q, what, g)
    b = run_life(c2)
    if isinstance(b, str) and b.startswith("raise"):
        return None, c2
    if not not_larger(case, b, a):
        return "life %r rises to %r when the %s history of tube %d point (%d,%d) is multiplied by %g" % (
            a, b, what, ti, e, q, g), c2
    return None, c2


def ladder_case(material, mode, s, period):
    """one hot material point held at a constant uniaxial (hoop) stress s for one day, no strain cycling"""
    tmax = dc.common_tmax() - 1.0
    times = np.array([0.0, 0.5 * period, period])
    stress = np.zeros((6, 3, 1, 1))
    stress[1] = s
    return dict(material=material, mode=mode, period=float(period), days=1, regime="ladder",
                tubes=[dict(times=times, stress=stress, strain=np.zeros((6, 3, 1, 1)), temp=np.full((3, 1, 1), tmax))])


def rupture_decreasing_between(m, s_lo, s_hi):
    """independent reading of the material file: is the Larson-Miller polynomial strictly decreasing in
    log10(stress) over [s_lo, s_hi] (sampled)?  Then rupture time decreases with stress there."""
    for L in np.linspace(math.log10(s_lo), math.log10(s_hi), 9):
        d = sum(b * k * L ** (k - 1) for b, k in zip(m["a"], m["n"]) if k != 0)
        if not d < 0.0:
            return False
    return True


def rel_ladder(material, mode, period, k):
    """almost unloaded hot standby: stress 256 * 2^-(k+1) against 256 * 2^-k MPa (down to 1e-4 MPa)"""
    m = dc.parse_material(material)
    s_hi, s_lo = 256.0 * 2.0 ** -k, 256.0 * 2.0 ** -(k + 1)
    if not rupture_decreasing_between(m, s_lo, s_hi):
        return "skip", None
    lo, hi = ladder_case(material, mode, s_lo, period), ladder_case(material, mode, s_hi, period)
    a, b = run_life(lo), run_life(hi)
    if is_raise(a) or is_raise(b):
        return None, hi
    if not not_larger(lo, b, a):
        return ("life %r at a constant hot stress of %g MPa rises to %r at %g MPa (%s, %s, day of %g h)"
                % (a, s_lo, b, s_hi, material, mode, period)), hi
    return None, hi


def mixed_pair(rng, material, mode):
    """yield two-point tubes (B, A): B carries comparable creep and fatigue damage per day (it sits near the knee of
    the interaction diagram and governs the life), A is almost purely fatigue with a LARGER damage sum.  With a
    concave envelope the point with the smaller damage sum can govern: adding A to B must never raise the life
    above B's, whatever the ratio of the sums.  Yields (case_B, case_A, case_both, g)."""
    c = dc.gen_case(rng, regime="crossing", material=material, mode=mode, days=1, ntubes=1, period=24.0)
    B = c01._sub_point(c, 0, 0, 0)
    B["tubes"][0] = {k: np.array(v, dtype=float, copy=True) for k, v in B["tubes"][0].items()}
    d = dc.indep_damages(B)[0]
    if d is None:
        return
    cB, fB = float(d[0][0, 0]), float(d[1][0, 0])
    if not (cB > 0 and fB > 0 and math.isfinite(cB) and math.isfinite(fB)):
        return
    f = 2.0 ** round(math.log2(fB / cB))            # creep damage is linear in the time scale
    B["tubes"][0]["times"] = B["tubes"][0]["times"] * f
    B["period"] = float(B["period"] * f)
    for g in (1.1, 1.15, 1.2, 1.25, 1.3, 1.35, 1.4, 1.5, 1.6, 1.75, 2.0, 2.5):
        A = copy_case(B)
        A["tubes"][0]["stress"] = A["tubes"][0]["stress"] * 2.0 ** -10
        A["tubes"][0]["strain"] = A["tubes"][0]["strain"] * g
        if load_room(A, 0, 0, 0, "strain") < 1.0:
            break
        both = copy_case(B)
        tb, ta = both["tubes"][0], A["tubes"][0]
        for k in ("stress", "strain"):
            tb[k] = np.concatenate([tb[k], ta[k]], axis=2)
        tb["temp"] = np.concatenate([tb["temp"], ta["temp"]], axis=1)
        yield B, A, both, g


_LB = {}


def rel_mixed(B, A, both):
    kb = id(B)
    if kb not in _LB:
        _LB.clear()
        _LB[kb] = run_life(B)
    lb, la, lboth = _LB[kb], run_life(A), run_life(both)
    if is_raise(lb) or is_raise(la) or is_raise(lboth):
        return None
    for name, single in (("the mixed creep-fatigue point", lb), ("the fatigue point", la)):
        if not not_larger(both, lboth, single):
            return ("a tube with both points has life %r, above the life %r of %s alone (%s, %s)"
                    % (lboth, single, name, both["material"], both["mode"]))
    return None


def rel_tube(case, tube):
    a = run_life(case)
    c2 = add_tube(case, tube)
    b = run_life(c2)
    if is_raise(a):
        return None, c2
    if is_raise(b) or life_key(b) > life_key(a):
        return "life %r rises to %r when a tube is added" % (a, b), c2
    return None, c2


def point_damages(case):
    """real creep_damage / fatigue_damage arrays: list over points of (Df list, Dc list)"""
    mat = dc.real_material(case["material"])
    rcv = dc.make_receiver(case)
    dm = dc.make_calculator(case["mode"])
    out = []
    for tube in rcv.tubes:
        Dc = dm.creep_damage(tube, mat, rcv).reshape(case["days"], -1).T
        Df = dm.fatigue_damage(tube, mat, rcv).reshape(case["days"], -1).T
        out.extend((np.array(f), np.array(c)) for f, c in zip(Df, Dc))
    return out


def real_max_cycles(material, mode, Df, Dc):
    mat = dc.real_material(material)
    dm = dc.make_calculator(mode)
    try:
        return dc.canon_life(dm.calculate_max_cycles(dm.make_extrapolate(np.asarray(Dc)),
                                                     dm.make_extrapolate(np.asarray(Df)), mat))
    except ValueError as e:
        return "raise " + str(e)[:60]


def rel_scale(material, Df, Dc, l):
    a = real_max_cycles(material, "lump", Df, Dc)
    b = real_max_cycles(material, "lump", np.asarray(Df) * l, np.asarray(Dc) * l)
    if is_raise(a) or is_raise(b):
        return ("calculate_max_cycles raised on non-negative damages: %r, %r" % (a, b)), (a, b)
    if isinstance(a, str) or isinstance(b, str):
        # outside the bracket on one side: only the order can be checked
        if l >= 1 and life_key(b) > life_key(a) or l <= 1 and life_key(b) < life_key(a):
            return "per-cycle damages x %g: life %r -> %r moves the wrong way" % (l, a, b), (a, b)
        return None, (a, b)
    if not common.close(b, a / l, rel=REL, abs_=0.0):
        return "per-cycle damages x %g: life %r -> %r, expected %r" % (l, a, b, a / l), (a, b)
    return None, (a, b)


# ---------------------------------------------------------------------------
def run(ctx):
    ctx.rule = ("metamorphic pairs on the real determine_life: base receivers as in C01 (crossing / zero / inf "
                "regimes, all shipped metallic materials, lump and last), transformed by random rotations, "
                "permutations, strain offsets, day repetition, damage scaling, load raising, an extra tube; a pair is "
                "non-trivial when the base life is finite; distinct = distinct (relation, base, parameters)")
    ctx.trusted = ["Lean 4 kernel + Mathlib (propext, Classical.choice, Quot.sound)",
                   "harness/c09.py, harness/c01.py, harness/damage_common.py",
                   "scipy.optimize.brentq contract; IEEE rounding (tolerance 1e-8 on lives)"]
    ctx.assumptions = ["monotonicity in loads is checked inside the data ranges only: cycle temperatures below every "
                       "material's last fatigue curve, strain ranges <= 1 %, effective stresses <= ~300 MPa",
                       "the repeated day is periodic (its last sample equals its first)"]
    thm_ok = common.lean_stage(ctx, [("SrProps.C09", "SrProps/C09.lean", "SrProps.C09")])
    drv = common.LeanDriver(["SrModel.Damage"])
    rng = ctx.rng
    mats = dc.metallic_materials()
    nbase = 36 if ctx.quick() else 240
    failures = []      # (relation, what, replay)
    corr_cases = []    # inputs also sent to the model
    counts = {}

    def note(rel, what, rep, key, nontrivial):
        counts[rel] = counts.get(rel, 0) + 1
        ctx.case((rel,) + tuple(key), nontrivial=nontrivial, tag=rel)
        if what:
            failures.append((rel, what, rep))

    # rotation on smooth non-proportional paths with few points (a max-range search restricted to the
    # instants where some stored component peaks is exact on random data and frame dependent here)
    for i in range(2 * len(mats) if ctx.quick() else 8 * len(mats)):
        base = curved_case(rng, mats[i % len(mats)])
        a = run_life(base)
        for r in range(2):
            Q = random_rotation(rng)
            what, c2 = rel_rot(base, Q)
            note("rot-curved", what, dict(kind="rot", case=dc.case_to_json(base), Q=Q.tolist()), (i, r), not isinstance(a, str))
    # a point with the smaller damage sum that governs (concave envelope): never screened out by a heavier point
    nmix = 0
    for i, mat in enumerate(mats):
        for rep_ in range(2 if ctx.quick() else 6):
            mode = ("lump", "last")[(i + rep_) % 2]
            for (B, A, both, g) in mixed_pair(rng, mat, mode):
                what = rel_mixed(B, A, both)
                nmix += 1
                note("mixed-points", what, dict(kind="mixed", B=dc.case_to_json(B), A=dc.case_to_json(A), both=dc.case_to_json(both)),
                     (mat, rep_, g), True)
    ctx.extra["mixed_point_pairs"] = nmix
    # light-load ladder: raising a small stress (well below 1 MPa included) never lengthens the life
    nlad = 0
    for i, mat in enumerate(mats):
        for k in (range(0, 20, 3) if ctx.quick() else range(20)):
            mode = ("lump", "last")[(i + k) % 2]
            period = rng.choice([24.0, 1.0e4, 1.0e7])
            what, c2 = rel_ladder(mat, mode, period, k)
            if what == "skip":
                continue
            nlad += 1
            note("worse-ladder", what, dict(kind="ladder", material=mat, mode=mode, period=period, k=k), (mat, k), True)
    ctx.extra["ladder_pairs"] = nlad
    for i in range(nbase):
        mat = mats[i % len(mats)]
        mode = ("lump", "last")[(i // len(mats)) % 2]
        regime = "crossing" if i % 5 else rng.choice(["zero", "inf"])
        per = rng.choice([1.0e8, 3.0e8]) if regime == "zero" else None
        base = dc.gen_case(rng, regime=regime, material=mat, mode=mode, period=per)
        a = run_life(base)
        fin = not isinstance(a, str)
        corr_cases.append(base)
        # rotation (two per base)
        for r in range(2):
            Q = random_rotation(rng)
            what, c2 = rel_rot(base, Q)
            note("rot", what, dict(kind="rot", case=dc.case_to_json(base), Q=Q.tolist()), (i, r), fin)
            if r == 0:
                corr_cases.append(c2)
        # permutation
        nt = len(base["tubes"])
        tp = list(range(nt)); rng.shuffle(tp)
        ep, qp, sw = [], [], []
        for t in base["tubes"]:
            _, ne, nq = t["temp"].shape
            e = list(range(ne)); rng.shuffle(e)
            q = list(range(nq)); rng.shuffle(q)
            ep.append(e); qp.append(q); sw.append(rng.random() < 0.5)
        what, c2 = rel_perm(base, tp, ep, qp, sw)
        note("perm", what, dict(kind="perm", case=dc.case_to_json(base), tp=tp, ep=ep, qp=qp, sw=sw), (i,), fin)
        # offset: one constant tensor per point, and one global tensor
        for r in range(2):
            offs = []
            glob = [rng.uniform(-3e-3, 3e-3) for _ in range(6)]
            for t in base["tubes"]:
                _, ne, nq = t["temp"].shape
                if r == 0:
                    offs.append(np.array(glob)[:, None, None] * np.ones((6, ne, nq)))
                else:
                    offs.append(np.array([[[rng.uniform(-3e-3, 3e-3) for _ in range(nq)] for _ in range(ne)]
                                          for _ in range(6)]))
            what, c2 = rel_offset(base, offs)
            note("offset", what, dict(kind="offset", case=dc.case_to_json(base), offs=[o.tolist() for o in offs]),
                 (i, r), fin)
        corr_cases.append(c2)
        # worse loads at one point
        ti = rng.randrange(nt)
        _, ne, nq = base["tubes"][ti]["temp"].shape
        e, q = rng.randrange(ne), rng.randrange(nq)
        for whatk in ("stress", "strain"):
            g = rng.choice([1.05, 1.2, 1.5])
            room = load_room(base, ti, e, q, whatk)
            if room <= 1.01:
                continue
            g = min(g, room)
            what, c2 = rel_worse(base, ti, e, q, whatk, g)
            note("worse-" + whatk, what, dict(kind="worse", case=dc.case_to_json(base), ti=ti, e=e, q=q,
                                               what=whatk, g=g), (i, whatk), fin)
        # one more tube
        extra = dc.gen_case(rng, regime=rng.choice(["crossing", "crossing", "inf"]), material=mat, mode=mode,
                            ntubes=1, days=base["days"], period=base["period"])["tubes"][0]
        what, c2 = rel_tube(base, extra)
        note("tube", what, dict(kind="tube", case=dc.case_to_json(c2)), (i,), fin)
        # scaling of the per-cycle damages (lumped), real arrays of this base
        if base["mode"] == "lump" and not isinstance(a, str):
            try:
                pts = point_damages(base)
            except ValueError:
                pts = []
            if not pts:
                continue
            for r in range(3):
                Df, Dc = pts[rng.randrange(len(pts))]
                l = 10 ** rng.uniform(-1.0, 1.0)
                what, ab = rel_scale(mat, Df, Dc, l)
                note("scale", what, dict(kind="scale", material=mat, Df=Df.tolist(), Dc=Dc.tolist(), l=l), (i, r),
                     not isinstance(ab[0], str) and not isinstance(ab[1], str))
    # repetition (lumped), periodic one-day bases
    nrep = 12 if ctx.quick() else 80
    for i in range(nrep):
        mat = mats[i % len(mats)]
        base = periodic_day(rng, mat, "crossing" if i % 4 else rng.choice(["zero", "inf"]))
        if i % 3 == 1:
            # so heavily loaded that the life (2-3 days) is shorter than the number of stored days of the repeats
            dc.scale_time_to_creep(base, rng.uniform(0.3, 0.45))
        a = run_life(base)
        for k in (2, 3, 4):
            what, c2 = rel_repeat(base, k)
            note("repeat", what, dict(kind="repeat", case=dc.case_to_json(base), k=k), (i, k), not isinstance(a, str))
        corr_cases.append(c2)

    # ---- reduced correspondence on base and transformed inputs ----
    reals = [dc.real_run(c) for c in corr_cases]
    answers = drv.ask([dc.lean_line(c) for c in corr_cases])
    mism = []
    for idx, (c, r, a) in enumerate(zip(corr_cases, reals, answers)):
        m = dc.parse_answer(a)
        if r["status"] != m["status"]:
            mism.append((idx, "status %s vs %s" % (r["status"], m["status"])))
        elif r["status"] == "ok":
            st = dc.lives_match(r["life"], m["life"], c["mode"])
            if st == "diff" or (st == "jump" and not c01.tie_at_integer(c, r["life"], m["life"])):
                mism.append((idx, "life real=%r model=%r" % (r["life"], m["life"])))
        ctx.case(("corr", idx), nontrivial=not isinstance(r.get("life", "x"), str), tag="correspondence")
    ctx.obligation("correspondence (reduced, on base and transformed inputs): determine_life == model",
                   not mism, "%d of %d disagree; first: %s" % (len(mism), len(corr_cases), mism[:1]))
    # scale relation on the model (Float) for the same kind of inputs
    lines, exp = [], []
    for _ in range(20 if ctx.quick() else 200):
        m = dc.parse_material(rng.choice(mats))
        f, cdam = 10 ** rng.uniform(-6, -2), 10 ** rng.uniform(-6, -2)
        l = 10 ** rng.uniform(-0.5, 0.5)
        for s in (1.0, l):
            lines.append("dmg.max lump %d %d %s %s" % (common.f2bits(m["x2"]), common.f2bits(m["y2"]),
                                                       dc._fs([f * s, f * s]), dc._fs([cdam * s, cdam * s])))
        exp.append(l)
    ans = drv.ask(lines)
    bad_model = []
    for k, l in enumerate(exp):
        a, b = dc.parse_life(ans[2 * k]), dc.parse_life(ans[2 * k + 1])
        if not isinstance(a, str) and not isinstance(b, str) and not common.close(b, a / l, rel=REL, abs_=0.0):
            bad_model.append((a, b, l))
    ctx.obligation("model (Float) scale relation", not bad_model, str(bad_model[:2]))
    by_rel = {}
    for rel, what, rep in failures:
        by_rel.setdefault(rel, []).append((what, rep))
    for rel in sorted(counts):
        ctx.obligation("metamorphic relation '%s' on the real code (%d pairs)" % (rel, counts[rel]),
                       rel not in by_rel, "%d pairs fail; first: %s" % (len(by_rel.get(rel, [])),
                                                                         by_rel.get(rel, [("", None)])[0][0]))
    ctx.extra["pairs"] = counts
    # ---- outcomes ----
    for rel in sorted(by_rel):
        what, rep = by_rel[rel][0]
        rep = shrink_replay(rep)
        ctx.violation("real determine_life: " + what, dict(rep, n_failing_pairs=len(by_rel[rel])),
                      signature="c09:" + rel)
    if not by_rel and (mism or bad_model or not thm_ok):
        whatv = "model and code disagree but no metamorphic relation fails on the real code" if (mism or bad_model) \
            else "a C09 theorem no longer checks"
        ctx.violation(whatv, {"mismatches": mism[:5], "model_scale": bad_model[:3],
                              "lean": ctx.extra.get("lean_errors"), "theorems": ctx.extra.get("broken_theorems"),
                              "correspondence": "harness/c09.py vs SrModel.Damage"}, no_input=True)
    return "proof"


# ---------------------------------------------------------------------------
def eval_replay(r):
    """re-run one relation; returns failure text or None"""
    k = r["kind"]
    if k == "scale":
        return rel_scale(r["material"], np.array(r["Df"]), np.array(r["Dc"]), r["l"])[0]
    if k == "mixed":
        return rel_mixed(dc.case_from_json(r["B"]), dc.case_from_json(r["A"]), dc.case_from_json(r["both"]))
    if k == "ladder":
        what = rel_ladder(r["material"], r["mode"], r["period"], r["k"])[0]
        return None if what == "skip" else what
    case = dc.case_from_json(r["case"])
    if k == "rot":
        return rel_rot(case, np.array(r["Q"]))[0]
    if k == "perm":
        return rel_perm(case, r["tp"], r["ep"], r["qp"], r["sw"])[0]
    if k == "offset":
        return rel_offset(case, [np.array(o) for o in r["offs"]])[0]
    if k == "repeat":
        return rel_repeat(case, r["k"])[0]
    if k == "worse":
        return rel_worse(case, r["ti"], r["e"], r["q"], r["what"], r["g"])[0]
    if k == "tube":
        base = dict(case)
        base["tubes"] = case["tubes"][:-1]
        return rel_tube(base, case["tubes"][-1])[0]
    return "unknown replay kind %s" % k


def shrink_replay(r):
    """keep one tube / one point when the relation still fails there"""
    k = r["kind"]
    if k not in ("rot", "offset", "repeat"):
        return r
    case = dc.case_from_json(r["case"])
    for ti, t in enumerate(case["tubes"]):
        _, ne, nq = t["temp"].shape
        for e in range(ne):
            for q in range(nq):
                small = c01._sub_point(case, ti, e, q)
                r2 = dict(r, case=dc.case_to_json(small))
                if k == "offset":
                    r2["offs"] = [np.array(r["offs"][ti])[:, e:e + 1, q:q + 1].tolist()]
                try:
                    if eval_replay(r2):
                        return r2
                except Exception:
                    pass
    return r


def replay(obj):
    r = obj["replay"]
    if "kind" not in r:
        print("replay names no input:", r)
        return 1
    what = eval_replay(r)
    if r["kind"] != "scale":
        c = dc.case_from_json(r["case"])
        print("relation %s; material %s, mode %s, %d day(s), tubes %s" % (
            r["kind"], c["material"], c["mode"], c["days"], [t["temp"].shape for t in c["tubes"]]))
    else:
        print("relation scale; material %s, Df=%s, Dc=%s, l=%r" % (r["material"], r["Df"], r["Dc"], r["l"]))
    if what:
        print("  FAILS:", what)
    print("property violated on this input" if what else "property holds on this input")
    return 1 if what else 0


if __name__ == "__main__":
    sys.exit(common.main("C09", run, replay))
