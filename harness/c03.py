"""C03 — tube stress solution is in equilibrium and agrees across 1D/2D/3D.

Lean: SrModel/Mesh.lean (node numbering, connectivity, pressure-facet rule), SrModel/Lame.lean
      (closed-form thick cylinder, consistent nodal pressure loads); theorems in SrProps/C03.lean
      (node_numbering, conn_wellformed, pressure_facets_spec, pressure_load_1d,
      consistent_load_resultant, pressure_normal_spec, pressure_resultant, lame_equilibrium,
      lame_compatibility, lame_axial_force).
Tie:  (a) exact: `Mesh` vs the real scikit-fem mesh objects built by `PythonTubeSolver.init_state`
      for a sweep of (nr, nt, nz): node at every grid position (recovered from the coordinates),
      `mesh.t`, the vertex sets of `mesh.boundaries["pressure"]` and of `mesh.boundary_facets()`;
      (b) 1e-9: `Lame.load1` / `Lame.nodeLoad` vs the real assembled external force vector.
Search (property predicate on the REAL code, independent of the model):
      (i)  assembled external force: support on the inner-surface nodes only, no axial component,
           radial resultant = p * nt * 2 r_i sin(pi/nt) cos(pi/nt) * h  (exact discrete value, see
           `pressure_resultant`), every loaded facet carries p * (its area) along its inward normal,
           1-D load = p at the inner node;  mesh well-formedness evaluated geometrically;
      (ii) real elastic solves through spring.TubeSpring / PythonTubeSolver.solve: stresses vs the
           Lean-evaluated closed form under refinement (ring means: observed order >= 1.8; pointwise:
           first-order mesh bound), 1D = 2D = 3D ring-mean stresses, force per area and
           stiffness*h/(E*A); a non-uniform (quadratic) radial temperature profile is compared across
           the abstractions AND, with pressure and axial extension superposed, against the
           thermo-elastic closed form of SrModel/LameThermal.lean (theorems thermal_* of SrProps/C03.lean,
           proved for an arbitrary profile T(r) with moment I(r)) under refinement (observed order 2).
"""
import math
import os
import sys

sys.path.insert(0, os.path.dirname(os.path.abspath(__file__)))
import numpy as np
import common

F2B = common.f2bits
B2F = common.bits2f


# ---------------------------------------------------------------------------
# building the real objects
# ---------------------------------------------------------------------------
def make_tube(ndim, g, T1=None):
    """Tube + NEML elastic material + solver for the case dict `g`.
    T1: nodal temperature over the nr radii at the end of the step (start is 0)."""
    from srlife import structural, receiver
    from neml import elasticity, models

    tube = receiver.Tube(g["r"], g["t"], g["h"], g["nr"], g["nt"], g["nz"])
    if ndim == 1:
        tube.make_1D(g["h"] / 2, 0.0)
    elif ndim == 2:
        tube.make_2D(g["h"] / 2)
    times = np.array([0.0, 1.0])
    tube.set_times(times)
    if g.get("pgrid", (g["nr"] + ndim) % 2 == 0):
        # the pressure history is tabulated on its own time axis (same number of points as the tube's, other
        # instants): it is a function of time, so p(1) = 4p/4 = p exactly as on the tube's own axis
        tube.set_pressure_bc(receiver.PressureBC(np.array([0.0, 4.0]), np.array([0.0, 4.0 * g.get("p", 0.0)])))
    else:
        tube.set_pressure_bc(receiver.PressureBC(times, np.array([0.0, g.get("p", 0.0)])))
    if T1 is None:
        T1 = np.full(g["nr"], g.get("dT", 0.0))
    # a uniform preheat at the first time: thermal strains are relative to the temperature at t0, so
    # this must change nothing
    T = np.zeros((2,) + tube.dim[:ndim]) + g.get("Tbase", 0.0)
    T[1] = T[1] + np.asarray(T1, dtype=float).reshape((g["nr"],) + (1,) * (ndim - 1))
    tube.add_results("temperature", T)
    E = g.get("E", 150000.0)
    if g.get("Eslope"):
        # temperature-dependent Young's modulus: g["E"] is its value at the END temperature of the (uniform) step,
        # the value at the start temperature differs by Eslope * dT; the closed forms use the end value
        from neml import interpolate
        Tn, Tf = g.get("Tbase", 0.0), g.get("Tbase", 0.0) + g.get("dT", 0.0)
        lo, hi = min(Tn, Tf), max(Tn, Tf)
        Eat = lambda T: g["E"] + g["Eslope"] * (T - Tf)
        E = interpolate.PiecewiseLinearInterpolate([-1.0e4, lo, hi, 1.0e4], [Eat(lo), Eat(lo), Eat(hi), Eat(hi)])
    emodel = elasticity.IsotropicLinearElasticModel(E, "youngs", g.get("nu", 0.3), "poissons")
    mat = models.SmallStrainElasticity(emodel, alpha=g.get("al", 0.0))
    solver = structural.PythonTubeSolver(verbose=False)
    return structural, tube, solver, mat


def grid_indices(ndim, g, p):
    """recover the grid position (i,j,k) of every node from its coordinates; None when a node is off-grid"""
    ri, ro = g["r"] - g["t"], g["r"]
    nr, nt, nz = g["nr"], g["nt"], g["nz"]
    dr = g["t"] / (nr - 1)
    out = []
    tol = 1e-9 * ro
    for n in range(p.shape[1]):
        if ndim == 1:
            r, j, k = abs(p[0, n]), 0, 0
        else:
            x, y = p[0, n], p[1, n]
            r = math.hypot(x, y)
            th = math.atan2(y, x) % (2 * math.pi)
            j = int(round(th / (2 * math.pi / nt))) % nt
            a = 2 * math.pi * j / nt
            if abs(x - r * math.cos(a)) > tol or abs(y - r * math.sin(a)) > tol:
                return None
            k = 0
            if ndim == 3:
                dz = g["h"] / (nz - 1)
                k = int(round(p[2, n] / dz))
                if abs(p[2, n] - k * dz) > tol:
                    return None
        i = int(round((r - ri) / dr))
        if abs(r - (ri + i * dr)) > tol or not (0 <= i < nr):
            return None
        out.append((i, j, k))
    return out


def fs(fl):
    """canonical facet set: sorted list of sorted vertex tuples"""
    return sorted(tuple(sorted(int(v) for v in f)) for f in fl)


def parse_facets(s):
    if s.strip() == "-":
        return []
    return [[int(v) for v in f.split(",")] for f in s.strip().split(";")]


def real_mesh(ndim, g):
    """the real mesh of an abstraction, canonicalised"""
    structural, tube, solver, mat = make_tube(ndim, g)
    state = solver.init_state(tube, mat)
    m = state.mesh
    idx = np.asarray(m.boundaries["pressure"], dtype=int)
    return dict(state=state, solver=solver, tube=tube, structural=structural,
                p=np.array(m.p), t=np.array(m.t), grid=grid_indices(ndim, g, np.array(m.p)),
                press=[list(m.facets[:, f]) for f in idx],
                bnd=[list(m.facets[:, f]) for f in m.boundary_facets()])


# ---------------------------------------------------------------------------
# predicate: mesh well-formedness + pressure facets, evaluated geometrically on the real mesh
# ---------------------------------------------------------------------------
def mesh_predicate(ndim, g, rm):
    """conn_wellformed and pressure_facets_spec stated on the real mesh (no model involved)"""
    bad = []
    nr, nt, nz = g["nr"], g["nt"], g["nz"]
    grid, t = rm["grid"], rm["t"]
    nn = {1: nr, 2: nr * nt, 3: nr * nt * nz}[ndim]
    ne = {1: nr - 1, 2: (nr - 1) * nt, 3: (nr - 1) * nt * (nz - 1)}[ndim]
    if grid is None:
        return ["a node of the real mesh is not on the (r,theta,z) grid"]
    if rm["p"].shape[1] != nn or len(set(grid)) != nn:
        bad.append("%d nodes at %d distinct grid positions, expected %d" % (rm["p"].shape[1], len(set(grid)), nn))
    if t.shape[1] != ne:
        bad.append("%d elements, expected %d" % (t.shape[1], ne))
    if t.size and (t.min() < 0 or t.max() >= rm["p"].shape[1]):
        bad.append("element vertex index outside 0..%d" % (rm["p"].shape[1] - 1))
        return bad
    seen = set()
    for e in range(t.shape[1]):
        verts = [grid[v] for v in t[:, e]]
        i0 = min(v[0] for v in verts)
        k0 = min(v[2] for v in verts)
        js = sorted(set(v[1] for v in verts))
        want = None
        if ndim == 1:
            want = {(i0, 0, 0), (i0 + 1, 0, 0)}
        else:
            # the two circumferential indices must be j and (j+1) mod nt
            j0 = None
            if len(js) == 2:
                if js[1] == js[0] + 1:
                    j0 = js[0]
                elif js[0] == 0 and js[1] == nt - 1:
                    j0 = js[1]
            if j0 is not None:
                ks = [k0] if ndim == 2 else [k0, k0 + 1]
                want = {(i, j, k) for i in (i0, i0 + 1) for j in (j0, (j0 + 1) % nt) for k in ks}
        if want is None or set(verts) != want or len(set(verts)) != len(verts):
            bad.append("element %d has vertices at grid positions %s: not the %d neighbours of one cell" % (
                e, verts, 2 ** ndim))
            if len(bad) > 3:
                break
            continue
        key = frozenset(verts)
        if key in seen:
            bad.append("element %d repeats an earlier element" % e)
        seen.add(key)
    used = set(int(v) for v in t.ravel())
    if len(used) != rm["p"].shape[1]:
        bad.append("%d nodes belong to no element" % (rm["p"].shape[1] - len(used)))
    # pressure facets
    sel = rm["press"]
    nsel = {1: 1, 2: nt, 3: nt * (nz - 1)}[ndim]
    bset = set(fs(rm["bnd"]))
    cells = set()
    for f in sel:
        gv = [grid[v] for v in f]
        if any(v[0] != 0 for v in gv):
            bad.append("pressure facet with nodes %s (grid %s) has a vertex off the inner radius" % (list(map(int, f)), gv))
        if tuple(sorted(int(v) for v in f)) not in bset:
            bad.append("pressure facet %s is not a boundary facet" % (list(map(int, f)),))
        cells.add(frozenset(gv))
        if len(bad) > 6:
            break
    if len(sel) != nsel or len(cells) != nsel:
        bad.append("%d pressure facets (%d distinct), the inner surface has %d" % (len(sel), len(cells), nsel))
    return bad


# ---------------------------------------------------------------------------
# predicate (i): the assembled external force vector
# ---------------------------------------------------------------------------
def external_force(ndim, g, rm):
    """assemble the real external force exactly as PythonSolver.residual does"""
    from skfem import asm, FacetBasis
    structural, state = rm["structural"], rm["state"]
    ps = structural.PythonSolver(state, state.copy(), rm["solver"].solver_options, set_strain=0.0)
    pv = state.pbasis.interpolate(state.pbasis.zeros() + g["p"])
    F = np.asarray(asm(ps.external, state.pbasis, pressure=pv)).ravel()
    nd = state.basis.nodal_dofs
    Fn = np.zeros((rm["p"].shape[1], 3))
    for c in range(ndim):
        Fn[:, c] = F[nd[c]]
    per_facet = []
    if ndim >= 2:
        # per-facet resultants: the unsummed element (facet) contributions of the same assembly
        # (LinearForm._assemble lays the data out as Nbfun blocks of one entry per facet)
        facets = np.asarray(state.pbasis.find, dtype=int)
        comp = np.zeros(F.shape[0], dtype=int)
        for c in range(ndim):
            comp[nd[c]] = c
        done = False
        try:
            data, rows, _, shape = ps.external._assemble(state.pbasis, pressure=pv)
            nb, nf = state.pbasis.Nbfun, len(facets)
            if data.size == nb * nf and shape[0] == F.shape[0]:
                chk = np.zeros(F.shape[0])
                np.add.at(chk, rows, data)
                if np.allclose(chk, F, rtol=1e-12, atol=1e-12 * (np.max(np.abs(F)) + 1e-300)):
                    data, rows = data.reshape(nb, nf), rows.reshape(nb, nf)
                    for k, f in enumerate(facets):
                        R = np.zeros(3)
                        np.add.at(R, comp[rows[:, k]], data[:, k])
                        per_facet.append((int(f), [int(v) for v in state.mesh.facets[:, f]], R))
                    done = True
        except Exception:
            done = False
        if not done:
            # fall back to assembling the same form on one-facet bases (slow: a sample of the facets)
            per_facet = []
            pick = list(facets[:4]) + list(facets[-4:])
            for f in sorted(set(int(v) for v in pick)):
                fb = FacetBasis(mesh=state.mesh, elem=state.pbasis.elem, intorder=state.qorder, facets=np.array([f]))
                pf = fb.interpolate(fb.zeros() + g["p"])
                Ff = np.asarray(asm(ps.external, fb, pressure=pf)).ravel()
                R = np.zeros(3)
                for c in range(ndim):
                    R[c] = Ff[nd[c]].sum()
                per_facet.append((int(f), [int(v) for v in state.mesh.facets[:, f]], R))
    return Fn, per_facet


def facet_area_normal(ndim, P, verts):
    """area of a flat facet given by its vertices and its unit normal pointing towards the tube axis
    (= out of the solid for an inner-surface facet)"""
    X = P[:, verts]
    if ndim == 2:
        d = X[:, 1] - X[:, 0]
        area = float(np.hypot(d[0], d[1]))
        n = np.array([-d[1], d[0], 0.0]) / area
        c = np.array([X[0].mean(), X[1].mean(), 0.0])
    else:
        cen = X.mean(axis=1)
        D = (X - cen[:, None]).T
        nn = None
        for a in range(1, D.shape[0]):
            cr = np.cross(D[0], D[a])
            if np.linalg.norm(cr) > 1e-9 * np.linalg.norm(D[0]) * np.linalg.norm(D[a]):
                nn = cr / np.linalg.norm(cr)
                break
        e1 = D[0] / np.linalg.norm(D[0])
        e2 = np.cross(nn, e1)
        order = np.argsort([math.atan2(np.dot(d, e2), np.dot(d, e1)) for d in D])
        Dc = D[order]
        acc = np.zeros(3)
        for a in range(len(Dc)):
            acc += np.cross(Dc[a], Dc[(a + 1) % len(Dc)])
        area = 0.5 * float(np.linalg.norm(acc))   # shoelace formula in the facet plane, any vertex order
        n = nn
        c = np.array([cen[0], cen[1], 0.0])
    if np.dot(n, c) > 0:
        n = -n
    return area, n


def load_predicate(ndim, g, rm, Fn, per_facet):
    """the property's statements about the pressure load, on the real assembled vector"""
    bad = []
    p = g["p"]
    ri, h = g["r"] - g["t"], g["h"]
    nt = g["nt"]
    P = rm["p"]
    Fmax = float(np.max(np.abs(Fn))) if Fn.size else 0.0
    if Fmax == 0.0:
        return ["external force vector is identically zero for p = %g" % p], {}
    if ndim == 1:
        rr = np.abs(P[0])
        inner = np.abs(rr - ri) < 1e-9 * g["r"]
        info = {"F": Fn[:, 0].tolist()}
        for n in range(P.shape[1]):
            want = p if inner[n] else 0.0
            if abs(Fn[n, 0] - want) > 1e-12 * abs(p):
                bad.append("1-D load at node %d (r=%.6g) is %.12g, expected %.12g" % (n, rr[n], Fn[n, 0], want))
        return bad, info
    rr = np.hypot(P[0], P[1])
    inner = np.abs(rr - ri) < 1e-9 * g["r"]
    off = [n for n in range(P.shape[1]) if not inner[n] and np.max(np.abs(Fn[n])) > 1e-12 * Fmax]
    if off:
        n = off[0]
        bad.append("pressure load on %d node(s) off the inner surface, e.g. node %d at r=%.6g z=%.6g: F=(%.6g, %.6g, %.6g)" % (
            len(off), n, rr[n], P[2, n] if ndim == 3 else 0.0, Fn[n, 0], Fn[n, 1], Fn[n, 2]))
    if ndim == 3:
        az = [n for n in range(P.shape[1]) if abs(Fn[n, 2]) > 1e-12 * Fmax]
        if az:
            n = az[0]
            bad.append("axial pressure-load component on %d node(s), e.g. node %d at r=%.6g z=%.6g: Fz=%.6g (sum Fz=%.6g)" % (
                len(az), n, rr[n], P[2, n], Fn[n, 2], float(Fn[:, 2].sum())))
    er = np.stack([P[0] / rr, P[1] / rr, 0 * rr], axis=1)
    radial = float(np.sum(Fn * er))
    delta = math.pi / nt
    hh = h if ndim == 3 else 1.0
    want = p * nt * 2.0 * ri * math.sin(delta) * math.cos(delta) * hh
    if abs(radial - want) > 1e-10 * abs(want):
        bad.append("radial resultant %.12g, expected p*nt*2*ri*sin(pi/nt)*cos(pi/nt)*h = %.12g" % (radial, want))
    net = Fn.sum(axis=0)
    if np.max(np.abs(net)) > 1e-9 * abs(want):
        bad.append("net pressure force (%.3g, %.3g, %.3g) is not zero for the closed ring" % tuple(net))
    tot = 0.0
    for f, verts, R in per_facet:
        area, n = facet_area_normal(ndim, P, verts)
        tot += float(np.linalg.norm(R))
        # n points out of the solid (towards the axis); the load is -p * n * area
        if np.max(np.abs(R + p * area * n)) > 1e-10 * abs(p) * area:
            bad.append("facet %d (nodes %s): resultant (%.6g, %.6g, %.6g), expected -p*area*n_out = (%.6g, %.6g, %.6g)" % (
                (f, verts) + tuple(R) + tuple(-p * area * n)))
            if len(bad) > 8:
                break
    disc_area = nt * 2.0 * ri * math.sin(delta) * hh
    if len(per_facet) == len(rm["press"]) and abs(tot - abs(p) * disc_area) > 1e-10 * abs(p) * disc_area:
        bad.append("sum of facet resultants %.12g, expected |p| x discretised inner area = %.12g" % (tot, abs(p) * disc_area))
    return bad, {"radial_resultant": radial, "expected": want, "sum_facet": tot, "p_x_area": abs(p) * disc_area}


# ---------------------------------------------------------------------------
# predicate (ii): real elastic solves
# ---------------------------------------------------------------------------
def solve_case(ndim, g, T1=None):
    """one real elastic step through spring.TubeSpring; returns polar stresses at the quadrature points"""
    from srlife import spring
    structural, tube, solver, mat = make_tube(ndim, g, T1)
    if g.get("direct"):
        # the per-step API driven as the upstream tests do: fresh state without a time index
        solver.setup_tube(tube)
        st0 = solver.init_state(tube, mat)
        solver.dump_state(tube, 0, st0)
        st = solver.solve(tube, 1, st0, g["d"])
        solver.dump_state(tube, 1, st)
        f, k = st.force, st.stiffness
    else:
        sp = spring.TubeSpring(tube, solver, mat)
        f, k = sp.force_and_stiffness(1, g["d"])
        sp.update_state(1)
        st = sp.state_np1
    X = st.basis.global_coordinates().value
    dx = np.array(st.basis.dx)
    q = tube.quadrature_results
    S = {n: np.array(q["stress_" + n][1]) for n in ("xx", "yy", "zz", "xy", "xz", "yz")}
    nr = g["nr"]
    if ndim == 1:
        rq = np.array(X[0])
        srr, stt, szz, srt = S["xx"], S["yy"], S["zz"], 0 * S["xx"]
        area = math.pi * (g["r"] ** 2 - (g["r"] - g["t"]) ** 2)
        w = dx * 2 * math.pi * rq
    else:
        x, y = np.array(X[0]), np.array(X[1])
        rq = np.hypot(x, y)
        c, s = x / rq, y / rq
        srr = S["xx"] * c * c + S["yy"] * s * s + 2 * S["xy"] * s * c
        stt = S["xx"] * s * s + S["yy"] * c * c - 2 * S["xy"] * s * c
        srt = (S["yy"] - S["xx"]) * s * c + S["xy"] * (c * c - s * s)
        szz = S["zz"]
        area = float(np.sum(dx)) / (g["h"] if ndim == 3 else 1.0)
        w = dx
    res = dict(rq=rq, srr=srr, stt=stt, szz=szz, srt=srt, sxz=S["xz"], syz=S["yz"], w=w, f=float(f), k=float(k),
               area=area)
    # weighted ring means (radial element layer i) and element means
    W = w.reshape(nr - 1, -1)
    for key in ("srr", "stt", "szz", "rq"):
        res["ring_" + key] = (res[key] * w).reshape(nr - 1, -1).sum(axis=1) / W.sum(axis=1)
    for key in ("srr", "stt", "szz", "srt"):
        res["elem_" + key] = (res[key] * w).sum(axis=1) / w.sum(axis=1)
    return res


def pscale(g):
    ri, ro = g["r"] - g["t"], g["r"]
    return max(abs(g["p"]) * (ro * ro + ri * ri) / (ro * ro - ri * ri), 1e-6 * g["E"] * 1e-3)


def lame_line(g, r):
    ri, ro = g["r"] - g["t"], g["r"]
    return "lame stress " + " ".join(str(F2B(v)) for v in (
        ri, ro, g["p"], g["E"], g["nu"], g["al"], g["dT"], g["d"] / g["h"], r))


def force_line(g):
    ri, ro = g["r"] - g["t"], g["r"]
    return "lame force " + " ".join(str(F2B(v)) for v in (
        ri, ro, g["p"], g["E"], g["nu"], g["al"], g["dT"], g["d"] / g["h"], math.pi, g["h"]))


class Batch:
    def __init__(self):
        self.lines, self.ans = [], None

    def add(self, line):
        self.lines.append(line)
        return len(self.lines) - 1

    def run(self, drv):
        self.ans = drv.ask(self.lines)

    def floats(self, i):
        return [B2F(v) for v in self.ans[i].strip().split(",")]


def gen_case(rng, sizes):
    r = rng.choice([5.0, 8.0, 10.0, 12.5, 20.0])
    t = r * rng.choice([0.05, 0.1, 0.15, 0.25])
    g = dict(r=r, t=t, h=rng.choice([2.5, 4.0, 5.0, 7.5]), E=rng.choice([70000.0, 150000.0, 210000.0]),
             nu=rng.choice([0.2, 0.25, 0.3, 0.35]), al=rng.choice([5e-6, 1e-5, 1.75e-5]),
             p=rng.choice([-20.0, 1.0, 7.5, 30.0, 100.0]), dT=rng.choice([-100.0, 0.0, 50.0, 250.0]))
    g["d"] = g["h"] * rng.choice([-1e-3, 2.5e-4, 2e-3])
    # uniform preheat at t0 (must not matter) and how the step is driven: through spring.TubeSpring
    # or through the per-step API from a fresh state created without a time index
    g["Tbase"] = rng.choice([0.0, 300.0, 650.0])
    g["direct"] = rng.random() < 0.5
    g.update(sizes)
    return g


# -- the comparisons of one solve family (they need Lean answers, so they come in two phases) ----
class RefineJob:
    """refinement against the closed form: ndim 1: nr = 6 -> 12 ; ndim 2: (6,24) -> (12,48)"""

    def __init__(self, ndim, g0, batch):
        self.ndim, self.g0 = ndim, dict(g0)
        self.levels = []
        sizes = [dict(nr=6, nt=24), dict(nr=12, nt=48)]
        for s in sizes:
            g = dict(g0)
            g.update(s)
            g["nz"] = 2
            res = solve_case(ndim, g)
            ri, ro = g["r"] - g["t"], g["r"]
            rmid = 0.5 * (np.linspace(ri, ro, g["nr"])[1:] + np.linspace(ri, ro, g["nr"])[:-1])
            mids = [batch.add(lame_line(g, float(r))) for r in rmid]
            pts = None
            if res["rq"].size <= 600:
                pts = [batch.add(lame_line(g, float(r))) for r in res["rq"].ravel()]
            self.levels.append((g, res, mids, pts))
        self.fidx = batch.add(force_line(self.levels[0][0]))

    def evaluate(self, batch):
        bad, info = [], {}
        sc = pscale(self.g0)
        errs, ferr = [], []
        F, K, A = batch.floats(self.fidx)
        for g, res, mids, pts in self.levels:
            L = np.array([batch.floats(i)[:3] for i in mids])
            e = max(float(np.max(np.abs(res["ring_srr"] - L[:, 0]))), float(np.max(np.abs(res["ring_stt"] - L[:, 1]))),
                    float(np.max(np.abs(res["ring_szz"] - L[:, 2]))))
            errs.append(e)
            ferr.append(abs(res["f"] / res["area"] - F / A))
            dr = g["t"] / (g["nr"] - 1)
            ri = g["r"] - g["t"]
            bound = 2.0 * (dr / ri + (math.pi / g["nt"] if self.ndim > 1 else 0.0)) * sc
            if pts is not None:
                Lp = np.array([batch.floats(i)[:3] for i in pts]).reshape(res["rq"].shape + (3,))
                ep = max(float(np.max(np.abs(res["srr"] - Lp[..., 0]))), float(np.max(np.abs(res["stt"] - Lp[..., 1]))),
                         float(np.max(np.abs(res["szz"] - Lp[..., 2]))), float(np.max(np.abs(res["srt"]))))
                info["pointwise_nr%d" % g["nr"]] = ep
                if ep > bound:
                    bad.append("%dD nr=%d nt=%d: pointwise stress error %.4g vs closed form exceeds the first-order mesh bound %.4g" % (
                        self.ndim, g["nr"], g["nt"], ep, bound))
            if e > 0.5 * bound:
                bad.append("%dD nr=%d nt=%d: ring-mean stress error %.4g vs closed form exceeds the mesh bound %.4g" % (
                    self.ndim, g["nr"], g["nt"], e, 0.5 * bound))
            kk = res["k"] * g["h"] / (g["E"] * res["area"])
            if abs(kk - 1.0) > 1e-8:
                bad.append("%dD nr=%d nt=%d: stiffness*h/(E*A) = %.12g, closed form 1" % (self.ndim, g["nr"], g["nt"], kk))
        floor = 1e-9 * max(sc, abs(F / A))
        ratio = errs[0] / max(errs[1], floor)
        info.update(err_coarse=errs[0], err_fine=errs[1], ratio=ratio, force_err=ferr)
        if errs[0] > floor and ratio < 2 ** 1.8:
            bad.append("%dD: ring-mean stress error vs closed form %.4g -> %.4g under refinement, ratio %.2f < 2^1.8" % (
                self.ndim, errs[0], errs[1], ratio))
        fs_ = max(abs(F / A), sc)
        if self.ndim == 1:
            # P1 axisymmetric: the integrated sigma_zz converges at second order
            if ferr[0] > 1e-9 * fs_ and ferr[0] / max(ferr[1], 1e-12 * fs_) < 2 ** 1.8:
                bad.append("1D: force/area error vs closed form %.4g -> %.4g, ratio < 2^1.8" % (ferr[0], ferr[1]))
            if ferr[0] > 2e-3 * fs_:
                bad.append("1D: force/area %.8g vs closed form %.8g" % (self.levels[0][1]["f"] / self.levels[0][1]["area"], F / A))
        else:
            # the linear field x is in the bilinear space: force/area of the polygonal tube is exact
            if max(ferr) > 1e-8 * fs_:
                bad.append("2D: force/area differs from closed form by %.4g (exact for the inscribed polygon)" % max(ferr))
        return bad, info


def profile_coeffs(g, a, b):
    """T(r) = a s + b s^2 with s = (r - ri)/t written as c0 + c1 r + c2 r^2"""
    ri, t = g["r"] - g["t"], g["t"]
    return -a * ri / t + b * ri * ri / t ** 2, a / t - 2 * b * ri / t ** 2, b / t ** 2


def lamet_line(g, cs, r):
    ri, ro = g["r"] - g["t"], g["r"]
    return "lamet stress " + " ".join(str(F2B(v)) for v in (
        ri, ro, g["p"], g["E"], g["nu"], g["al"], g["d"] / g["h"], cs[0], cs[1], cs[2], r))


def lamet_force_line(g, cs):
    ri, ro = g["r"] - g["t"], g["r"]
    return "lamet force " + " ".join(str(F2B(v)) for v in (
        ri, ro, g["p"], g["E"], g["nu"], g["al"], g["d"] / g["h"], cs[0], cs[1], cs[2], math.pi))


class ThermalRefineJob:
    """refinement against the thermo-elastic closed form of SrModel.LameThermal (pressure + axial extension + a
    quadratic radial temperature profile T = a s + b s^2): ndim 1: nr 6 -> 12; ndim 2: (6,24) -> (12,48)"""

    def __init__(self, ndim, g0, ab, batch):
        self.ndim, self.g0, self.ab = ndim, dict(g0), ab
        self.g0["dT"] = 0.0
        self.cs = profile_coeffs(self.g0, *ab)
        self.levels = []
        for s in (dict(nr=6, nt=24), dict(nr=12, nt=48)):
            g = dict(self.g0)
            g.update(s)
            g["nz"] = 2
            rs = np.linspace(0.0, 1.0, g["nr"])
            res = solve_case(ndim, g, ab[0] * rs + ab[1] * rs * rs)
            rn = np.linspace(g["r"] - g["t"], g["r"], g["nr"])
            mids = [batch.add(lamet_line(g, self.cs, float(r))) for r in 0.5 * (rn[1:] + rn[:-1])]
            self.levels.append((g, res, mids))
        self.fidx = batch.add(lamet_force_line(self.g0, self.cs))

    def evaluate(self, batch):
        bad, info = [], {}
        g0 = self.g0
        ri = g0["r"] - g0["t"]
        scT = g0["al"] * g0["E"] / (1.0 - g0["nu"]) * (abs(self.ab[0]) + abs(self.ab[1]))
        sc = max(pscale(g0), scT)
        F = batch.floats(self.fidx)[0]
        A = math.pi * (g0["r"] ** 2 - ri ** 2)
        errs, ferr = [], []
        for g, res, mids in self.levels:
            L = np.array([batch.floats(i)[:3] for i in mids])
            e = max(float(np.max(np.abs(res["ring_srr"] - L[:, 0]))), float(np.max(np.abs(res["ring_stt"] - L[:, 1]))),
                    float(np.max(np.abs(res["ring_szz"] - L[:, 2]))))
            errs.append(e)
            ferr.append(abs(res["f"] / res["area"] - F / A))
            dr = g["t"] / (g["nr"] - 1)
            bound = 0.5 * (dr / ri + (math.pi / g["nt"] if self.ndim > 1 else 0.0)) * sc
            if not e <= bound:
                bad.append("%dD nr=%d nt=%d, T(r) = %g s + %g s^2: ring-mean stress error %.4g vs thermo-elastic closed form "
                           "exceeds the mesh bound %.4g" % (self.ndim, g["nr"], g["nt"], self.ab[0], self.ab[1], e, bound))
        floor = 1e-9 * max(sc, abs(F / A))
        ratio = errs[0] / max(errs[1], floor)
        info.update(err_coarse=errs[0], err_fine=errs[1], ratio=ratio, force_err=ferr, scale=sc, profile=list(self.ab))
        if errs[0] > floor and ratio < 2 ** 1.5:
            bad.append("%dD, T(r) = %g s + %g s^2: ring-mean stress error vs thermo-elastic closed form %.4g -> %.4g under "
                       "refinement, ratio %.2f < 2^1.5" % (self.ndim, self.ab[0], self.ab[1], errs[0], errs[1], ratio))
        fs_ = max(abs(F / A), sc)
        if ferr[0] > 2e-2 * fs_ or ferr[1] > 1e-2 * fs_:
            bad.append("%dD, T(r): force/area %.8g (coarse) vs closed form %.8g" % (
                self.ndim, self.levels[0][1]["f"] / self.levels[0][1]["area"], F / A))
        if ferr[0] > 1e-7 * fs_ and ferr[0] / max(ferr[1], 1e-12 * fs_) < 2 ** 1.5:
            bad.append("%dD, T(r): force/area error vs closed form %.4g -> %.4g, ratio < 2^1.5" % (self.ndim, ferr[0], ferr[1]))
        return bad, info


class CrossJob:
    """1D vs 2D vs 3D on the same (nr, nt); uniform dT also against the closed form"""

    def __init__(self, g, T1, batch, nts=(12, 24)):
        self.g, self.T1 = dict(g), T1
        self.r1 = solve_case(1, g, T1)
        self.r2 = solve_case(2, g, T1)
        self.r3 = solve_case(3, g, T1)
        g2 = dict(g)
        g2["nt"] = 2 * g["nt"]
        self.g2 = g2
        self.r2f = solve_case(2, g2, T1)
        self.fidx = batch.add(force_line(g)) if T1 is None else None

    def evaluate(self, batch):
        g, bad, info = self.g, [], {}
        r1, r2, r3, r2f = self.r1, self.r2, self.r3, self.r2f
        nr, nt, nz = g["nr"], g["nt"], g["nz"]
        sc = max(pscale(g), float(np.max(np.abs(r1["srr"]))), float(np.max(np.abs(r1["stt"]))),
                 float(np.max(np.abs(r1["szz"]))))
        # 3D == 2D element by element (the 3-D solution does not vary along z)
        d32 = 0.0
        for key in ("elem_srr", "elem_stt", "elem_szz", "elem_srt"):
            a3 = r3[key].reshape(nr - 1, nt, nz - 1)
            a2 = r2[key].reshape(nr - 1, nt, 1)
            d32 = max(d32, float(np.max(np.abs(a3 - a2))))
        d32 = max(d32, float(np.max(np.abs(r3["sxz"]))), float(np.max(np.abs(r3["syz"]))))
        info["max_3D_minus_2D"] = d32
        if d32 > 1e-6 * sc:
            bad.append("3D and 2D element-mean stresses differ by %.4g (scale %.4g) on the same (nr,nt)" % (d32, sc))
        # axisymmetry of the 2-D solution
        spread = max(float(np.max(np.abs(r2[k].reshape(nr - 1, nt) - r2[k].reshape(nr - 1, nt)[:, :1])))
                     for k in ("elem_srr", "elem_stt", "elem_szz"))
        if spread > 1e-6 * sc or float(np.max(np.abs(r2["elem_srt"]))) > 1e-6 * sc:
            bad.append("2D solution of an axisymmetric problem varies around the ring by %.4g" % spread)
        # 1D vs 2D ring means: polygon error O((pi/nt)^2), must shrink when nt doubles
        def dist(a, b):
            return max(float(np.max(np.abs(a["ring_" + k] - b["ring_" + k]))) for k in ("srr", "stt", "szz"))
        d12, d12f = dist(r1, r2), dist(r1, r2f)
        dr = g["t"] / (nr - 1)
        # mesh tolerance: the inscribed polygon changes the stresses by about 0.25 (pi/nt)^2 of the stress
        # scale; with a radial temperature profile the two abstractions sample the wall differently, which
        # costs up to about 0.3 dr/r_i on thick walls (observed over several hundred random cases)
        tol = (0.5 * (math.pi / nt) ** 2 + 0.5 * dr / (g["r"] - g["t"])) * sc
        tolf = (0.5 * (math.pi / (2 * nt)) ** 2 + 0.5 * dr / (g["r"] - g["t"])) * sc
        info.update(d_1D_2D=d12, d_1D_2D_fine=d12f, tol=tol, scale=sc)
        if d12 > tol:
            bad.append("1D and 2D ring-mean stresses differ by %.4g at nt=%d, mesh tolerance %.4g" % (d12, nt, tol))
        if d12f > tolf:
            bad.append("1D and 2D ring-mean stresses differ by %.4g at nt=%d, mesh tolerance %.4g" % (d12f, 2 * nt, tolf))
        # axial force per unit area and stiffness
        fa = [r["f"] / r["area"] for r in (r1, r2, r3)]
        ka = [r["k"] * g["h"] / (g["E"] * r["area"]) for r in (r1, r2, r3)]
        info.update(force_per_area=fa, stiffness_h_over_EA=ka)
        fsc = max(abs(fa[0]), sc)
        if abs(fa[1] - fa[2]) > 1e-6 * fsc:
            bad.append("axial force per area: 2D %.10g vs 3D %.10g" % (fa[1], fa[2]))
        if abs(fa[0] - fa[1]) > 0.01 * fsc:
            bad.append("axial force per area: 1D %.8g vs 2D %.8g (more than 1%% of %.4g)" % (fa[0], fa[1], fsc))
        if max(abs(k - 1.0) for k in ka) > 1e-8:
            bad.append("stiffness*h/(E*A): 1D %.12g, 2D %.12g, 3D %.12g (elastic tube: 1)" % tuple(ka))
        if self.fidx is not None:
            F, K, A = batch.floats(self.fidx)
            if abs(fa[1] - F / A) > 1e-8 * fsc or abs(fa[0] - F / A) > 0.01 * fsc:
                bad.append("axial force per area 1D %.8g / 2D %.8g vs closed form %.8g" % (fa[0], fa[1], F / A))
            for r, nm in ((r1, "1D"), (r2, "2D"), (r3, "3D")):
                if abs(r["k"] - K * r["area"] / A) > 1e-8 * abs(K):
                    bad.append("%s stiffness %.10g vs closed form E*A/h %.10g" % (nm, r["k"], K * r["area"] / A))
        return bad, info


# ---------------------------------------------------------------------------
# the check
# ---------------------------------------------------------------------------
def mesh_sweep(ctx):
    """quick: nr 2..5, nt in {4,6,8,12,24}, nz 2..4 (84 meshes); thorough adds odd and intermediate nt, nr 6, nz 5"""
    if ctx.quick():
        nrs, nts, nzs = range(2, 6), (4, 6, 8, 12, 24), range(2, 5)
    else:
        nrs, nts, nzs = range(2, 7), (3, 4, 5, 6, 8, 12, 16, 24), range(2, 6)
    out = []
    for nr in nrs:
        out.append((1, nr, 1, 1))
        for nt in nts:
            out.append((2, nr, nt, 1))
            for nz in nzs:
                out.append((3, nr, nt, nz))
    # radially fine meshes (many thin layers): a surface tolerance tied to the wall thickness instead
    # of the element size would pick up the second layer there
    for nr in ((24, 45) if ctx.quick() else (12, 24, 33, 45, 64)):
        out.append((1, nr, 1, 1))
        out.append((2, nr, 4, 1))
        out.append((3, nr, 4, 2))
    return out


def geom_for(rng, nr, nt, nz):
    r = rng.choice([5.0, 10.0, 12.5])
    return dict(r=r, t=r * rng.choice([0.1, 0.2, 0.5]), h=rng.choice([2.5, 5.0, 8.0]), nr=nr, nt=nt, nz=max(nz, 2),
                p=rng.choice([3.0, 17.5, -4.0]))


def mesh_case(ndim, g, batch):
    """build the real mesh, queue the model requests; returns a closure data dict"""
    nr, nt, nz = g["nr"], g["nt"], g["nz"]
    try:
        rm = real_mesh(ndim, g)
    except Exception as e:  # a malformed mesh may already be rejected by scikit-fem
        return dict(error="%s: %s" % (type(e).__name__, str(e)[:200]))
    q = {}
    if ndim == 1:
        q["conn"] = batch.add("mesh conn1 %d" % nr)
        q["press"] = batch.add("mesh press1 %d" % nr)
    elif ndim == 2:
        q["nodes"] = batch.add("mesh nodes2 %d %d" % (nr, nt))
        q["conn"] = batch.add("mesh conn2 %d %d" % (nr, nt))
        q["press"] = batch.add("mesh press2 %d %d" % (nr, nt))
        q["inner"] = batch.add("mesh inner2 %d %d" % (nr, nt))
        q["bnd"] = batch.add("mesh bnd2 %d %d" % (nr, nt))
        q["count"] = batch.add("mesh count2 %d %d" % (nr, nt))
    else:
        q["nodes"] = batch.add("mesh nodes3 %d %d %d" % (nr, nt, nz))
        q["conn"] = batch.add("mesh conn3 %d %d %d" % (nr, nt, nz))
        q["press"] = batch.add("mesh press3 %d %d %d" % (nr, nt, nz))
        q["inner"] = batch.add("mesh inner3 %d %d" % (nt, nz))
        q["count"] = batch.add("mesh count3 %d %d %d" % (nr, nt, nz))
        if (nr - 1) * nt * (nz - 1) <= 120:
            q["bnd"] = batch.add("mesh bnd3 %d %d %d" % (nr, nt, nz))
    return dict(rm=rm, q=q)


def mesh_compare(ndim, g, mc, batch):
    """exact comparison model vs real mesh; returns list of differences"""
    diffs = []
    rm, q = mc["rm"], mc["q"]
    nr, nt, nz = g["nr"], g["nt"], g["nz"]
    grid = rm["grid"]
    if "nodes" in q:
        model = [int(v) for v in batch.ans[q["nodes"]].split(",")]
        if grid is None or len(set(grid)) != len(grid):
            diffs.append("real nodes are not a bijection onto the grid")
        else:
            inv = {gp: n for n, gp in enumerate(grid)}
            loops = [(i, j, k) for i in range(nr) for j in range(nt) for k in range(nz if ndim == 3 else 1)]
            real = [inv.get(gp, -1) for gp in loops]
            if real != model:
                bad = [(gp, a, b) for gp, a, b in zip(loops, real, model) if a != b][:2]
                diffs.append("node numbering: (grid, real, model) %s" % bad)
    real_conn = [[int(v) for v in rm["t"][:, e]] for e in range(rm["t"].shape[1])]
    model_conn = parse_facets(batch.ans[q["conn"]])
    if real_conn != model_conn:
        bad = [(e, a, b) for e, (a, b) in enumerate(zip(real_conn, model_conn)) if a != b][:2]
        diffs.append("connectivity (%d real / %d model elements): (element, real, model) %s" % (
            len(real_conn), len(model_conn), bad))
    real_press = fs(rm["press"])
    model_press = fs(parse_facets(batch.ans[q["press"]]))
    if real_press != model_press:
        extra = [f for f in real_press if f not in model_press][:2]
        miss = [f for f in model_press if f not in real_press][:2]
        diffs.append("pressure facets: %d real / %d by the model rule; real-only %s, model-only %s" % (
            len(real_press), len(model_press), extra, miss))
    if "inner" in q:
        model_inner = fs(parse_facets(batch.ans[q["inner"]]))
        if real_press != model_inner:
            extra = [f for f in real_press if f not in model_inner][:2]
            miss = [f for f in model_inner if f not in real_press][:2]
            diffs.append("pressure facets vs inner surface: real-only %s, inner-only %s" % (extra, miss))
    if "bnd" in q:
        if fs(rm["bnd"]) != fs(parse_facets(batch.ans[q["bnd"]])):
            diffs.append("boundary facets differ from the model's 'belongs to exactly one element'")
    if "count" in q:
        a, b = [int(v) for v in batch.ans[q["count"]].split()]
        if a != rm["p"].shape[1] or b != rm["t"].shape[1]:
            diffs.append("counts: real %d nodes %d elements, model %d %d" % (rm["p"].shape[1], rm["t"].shape[1], a, b))
    return diffs


def load_case(ndim, g, rm, batch):
    """queue the model's nodal loads for the inner-surface nodes"""
    Fn, per_facet = external_force(ndim, g, rm)
    q = {}
    if ndim == 1:
        q["load1"] = batch.add("lame load1 %d %d" % (g["nr"], F2B(g["p"])))
    elif rm["grid"] is not None:
        ri = g["r"] - g["t"]
        delta = math.pi / g["nt"]
        dz = g["h"] / (g["nz"] - 1)
        q["nodes"] = []
        for n, gp in enumerate(rm["grid"]):
            if gp[0] != 0:
                continue
            if ndim == 2:
                w = 1.0
            else:
                w = dz / 2 if gp[2] in (0, g["nz"] - 1) else dz
            th = math.atan2(rm["p"][1, n], rm["p"][0, n])
            q["nodes"].append((n, batch.add("lame node %d %d %d %d %d" % (
                F2B(g["p"]), F2B(ri), F2B(delta), F2B(th), F2B(w)))))
    return dict(Fn=Fn, per_facet=per_facet, q=q)


def load_compare(ndim, g, lc, batch):
    diffs = []
    Fn, q = lc["Fn"], lc["q"]
    sc = float(np.max(np.abs(Fn))) or 1.0
    if "load1" in q:
        model = batch.floats(q["load1"])
        if len(model) != Fn.shape[0] or any(not common.close(a, b, 1e-9, 1e-12 * sc) for a, b in zip(model, Fn[:, 0])):
            diffs.append("1-D load: real %s, model %s" % (Fn[:, 0].tolist(), model))
    for n, i in q.get("nodes", []):
        v = batch.floats(i)
        for c in range(3):
            if not common.close(v[c], Fn[n, c], 1e-9, 1e-9 * sc) or not common.close(v[c + 3], Fn[n, c], 1e-9, 1e-9 * sc):
                diffs.append("node %d load: real (%.9g, %.9g, %.9g), model nodeLoad (%.9g, %.9g, %.9g), closed (%.9g, %.9g, %.9g)" % (
                    (n,) + tuple(Fn[n]) + tuple(v)))
                break
        if len(diffs) > 3:
            break
    return diffs


def run(ctx):
    ctx.rule = ("mesh suite: every (dim, nr 2..5, nt in {4,6,8,12,24}, nz 2..4) with a random geometry (84 meshes; thorough: "
                "nr 2..6, nt in {3,4,5,6,8,12,16,24}, nz 2..5, 205 meshes; all "
                "non-trivial; the seam element and the coarse nt = 4..8 where the facet-midpoint rule fails are "
                "always present); load suite: the assembled external force of the same 84 meshes; "
                "solve suite: random (r,t,h,E,nu,alpha,p,dT,d) cases, refinement pairs in 1-D/2-D and "
                "1D/2D/3D on (nr,nt,nz)=(4,12,3), uniform dT and a radial T(r); refinement pairs with pressure + extension + a "
                "quadratic radial T(r) against the thermo-elastic closed form of SrModel.LameThermal; "
                "distinct = (suite, dim, sizes, case no.)")
    ctx.trusted = ["Lean 4 kernel + Mathlib (propext, Classical.choice, Quot.sound)",
                   "harness/c03.py (recovery of grid indices from coordinates, polar transformation of the stresses)",
                   "scikit-fem assembly of the quad/hex element integrals and NEML elasticity are exercised, not modelled",
                   "Float evaluation of SrModel.Lame / SrModel.LameThermal vs their real-number theorems (IEEE rounding)"]
    ctx.assumptions = ["nr >= 2, nt >= 3, nz >= 2 (pressure_facets_spec fails for nt = 2, shown by an example)",
                       "linear elastic material with constant E, nu, alpha; small strain"]
    thm_ok = common.lean_stage(ctx, [("SrProps.C03", "SrProps/C03.lean", "SrProps.C03")])
    drv = common.LeanDriver(["SrModel.Mesh", "SrModel.Lame", "SrModel.LameThermal"])
    rng = ctx.rng
    batch = Batch()

    # ---- phase 1: run the real code, queue model requests -------------------------------------
    meshes = []
    for (ndim, nr, nt, nz) in mesh_sweep(ctx):
        g = geom_for(rng, nr, nt, nz)
        mc = mesh_case(ndim, g, batch)
        lc = None
        if "rm" in mc:
            try:
                lc = load_case(ndim, g, mc["rm"], batch)
            except Exception as e:
                lc = dict(error="%s: %s" % (type(e).__name__, str(e)[:200]))
        meshes.append((ndim, g, mc, lc))

    ncases = 3 if ctx.quick() else 30
    jobs = []
    for c in range(ncases):
        g = gen_case(rng, dict(nr=6, nt=24, nz=2))
        # deterministic coverage of the driving mode and the preheat in every run
        g["direct"] = (c % 2 == 0)
        g["Tbase"] = [300.0, 650.0, 0.0][c % 3]
        if g["al"] * g["Tbase"] == 0.0 and c % 3 != 2:
            g["al"] = 1e-5
        for ndim in (1, 2):
            jobs.append(("refine", ndim, c, g, RefineJob, (ndim, g, batch)))
        gc = dict(g)
        gc.update(nr=4, nt=12, nz=3)
        jobs.append(("cross-uniform", 0, c, gc, CrossJob, (gc, None, batch)))
        rs = np.linspace(0.0, 1.0, gc["nr"])
        a, b = rng.choice([80.0, 150.0, -60.0]), rng.choice([0.0, 40.0, 90.0])
        T1 = a * rs + b * rs * rs
        gt = dict(gc)
        gt["T1"] = [float(v) for v in T1]
        jobs.append(("cross-T(r)", 0, c, gt, CrossJob, (gc, T1, batch)))
        # the same family against the thermo-elastic closed form (all abstractions could be wrong together)
        ab = (float(a), float(b))
        for ndim in ((1, 2) if (not ctx.quick() or c == 0) else (1 + c % 2,)):
            gr = dict(g)
            gr["ab"] = list(ab)
            jobs.append(("refine-T(r)", ndim, c, gr, ThermalRefineJob, (ndim, g, ab, batch)))
    # a step in which the free dofs are already in equilibrium at the starting guess: Poisson's ratio 0 (a
    # legal boundary value), no pressure, no temperature change, pure axial extension -- the reported force
    # and stiffness must still be those of the step (1D/2D and the single-layer 3-D mesh included)
    for c, nz in enumerate((3, 2)):
        gq = gen_case(rng, dict(nr=4, nt=12, nz=nz))
        gq.update(nu=0.0, p=0.0, dT=0.0, Tbase=[0.0, 300.0][c], direct=(c == 0))
        jobs.append(("cross-nu0-extension", 0, 100 + c, gq, CrossJob, (gq, None, batch)))
    # cooling to a temperature field that is exactly zero everywhere (temperatures measured from a zero reference):
    # the thermal-strain increment of that step is -alpha*T_n and must not be lost because "there is no temperature"
    gz = gen_case(rng, dict(nr=4, nt=12, nz=3))
    gz.update(Tbase=250.0, dT=-250.0, al=1e-5, direct=False)
    jobs.append(("cross-cool-to-zero", 0, 200, gz, CrossJob, (gz, None, batch)))
    # Young's modulus depends on temperature and the step changes the temperature: the elastic response is that of the
    # modulus at the END temperature (the closed forms use g["E"], the start value is 20 % off)
    ge = gen_case(rng, dict(nr=4, nt=12, nz=3))
    ge.update(Tbase=300.0, dT=250.0, al=1e-5, direct=False)
    ge["Eslope"] = -0.2 * ge["E"] / 250.0
    jobs.append(("cross-E(T)", 0, 300, ge, CrossJob, (ge, None, batch)))
    built = []
    for kind, ndim, c, g, cls, args in jobs:
        try:
            built.append((kind, ndim, c, g, cls(*args), None))
        except Exception as e:
            built.append((kind, ndim, c, g, None, "%s: %s" % (type(e).__name__, str(e)[:200])))

    batch.run(drv)

    # ---- phase 2: compare ---------------------------------------------------------------------
    mism, viol = [], []
    for ndim, g, mc, lc in meshes:
        key = ("mesh", ndim, g["nr"], g["nt"], g["nz"])
        sizes = dict(ndim=ndim, r=g["r"], t=g["t"], h=g["h"], nr=g["nr"], nt=g["nt"], nz=g["nz"], p=g["p"])
        if "error" in mc:
            ctx.case(key, tag="mesh/%dD/raised" % ndim)
            mism.append((sizes, "real mesh construction raised " + mc["error"]))
            viol.append(("mesh", "real mesh_tube/init_state raises for %dD nr=%d nt=%d nz=%d: %s" % (
                ndim, g["nr"], g["nt"], g["nz"], mc["error"]), sizes, "c03:mesh"))
            continue
        diffs = mesh_compare(ndim, g, mc, batch)
        pb = mesh_predicate(ndim, g, mc["rm"])
        ctx.case(key, tag="mesh/%dD" % ndim,
                 sample=dict(suite="mesh", sizes=sizes, pressure_facets=len(mc["rm"]["press"]), diffs=diffs))
        for d in diffs:
            mism.append((sizes, d))
        for b in pb[:3]:
            viol.append(("mesh", "real %dD mesh nr=%d nt=%d nz=%d: %s" % (ndim, g["nr"], g["nt"], g["nz"], b), sizes, "c03:mesh"))
        if lc is None:
            continue
        keyl = ("load", ndim, g["nr"], g["nt"], g["nz"])
        if "error" in lc:
            ctx.case(keyl, tag="load/%dD/raised" % ndim)
            viol.append(("load", "assembling the external force raises for %dD nr=%d nt=%d nz=%d: %s" % (
                ndim, g["nr"], g["nt"], g["nz"], lc["error"]), sizes, "c03:load"))
            continue
        ld = load_compare(ndim, g, lc, batch)
        lb, linfo = load_predicate(ndim, g, mc["rm"], lc["Fn"], lc["per_facet"])
        ctx.case(keyl, tag="load/%dD" % ndim, sample=dict(suite="load", sizes=sizes, info=linfo) if ndim == 3 else None)
        for d in ld:
            mism.append((sizes, "load: " + d))
        for b in lb[:3]:
            viol.append(("load", "real %dD pressure load (r=%g t=%g h=%g nr=%d nt=%d nz=%d p=%g): %s" % (
                ndim, g["r"], g["t"], g["h"], g["nr"], g["nt"], g["nz"], g["p"], b), sizes, "c03:load"))

    solve_info = []
    for kind, ndim, c, g, job, err in built:
        key = ("solve", kind, ndim, c)
        rep = dict(check="solve", kind=kind, ndim=ndim, case={k: v for k, v in g.items()})
        if err is not None:
            ctx.case(key, tag="solve/%s/raised" % kind)
            viol.append(("solve", "real solve raised (%s %s): %s" % (kind, "%dD" % ndim if ndim else "1D/2D/3D", err), rep, "c03:solve"))
            continue
        bad, info = job.evaluate(batch)
        ctx.case(key, tag="solve/%s%s" % (kind, "/%dD" % ndim if ndim else ""),
                 sample=dict(suite="solve", kind=kind, ndim=ndim, case=rep["case"], info=info))
        solve_info.append((kind, ndim, info))
        for b in bad[:3]:
            viol.append(("solve", "real elastic solve (%s, case r=%g t=%g h=%g E=%g nu=%g al=%g p=%g dT=%g d=%g): %s" % (
                kind, g["r"], g["t"], g["h"], g["E"], g["nu"], g["al"], g["p"], g["dT"], g["d"], b), rep, "c03:solve"))

    nmesh = len(meshes)
    ctx.exhaustive = False
    ctx.obligation("correspondence: SrModel.Mesh == real mesh objects (nodes, mesh.t, pressure facets, boundary facets; exact) "
                   "and SrModel.Lame loads == assembled external force (1e-9)", not mism,
                   "%d differences over %d meshes; first: %s" % (len(mism), nmesh, mism[:1]))
    nv = {k: sum(1 for v in viol if v[0] == k) for k in ("mesh", "load", "solve")}
    ctx.obligation("property predicate: real meshes are well formed and the pressure facets are the inner surface", nv["mesh"] == 0,
                   "%d failures; first: %s" % (nv["mesh"], [v[1] for v in viol if v[0] == "mesh"][:1]))
    ctx.obligation("property predicate: assembled pressure load (support, no axial component, resultant = p x discretised area)",
                   nv["load"] == 0, "%d failures; first: %s" % (nv["load"], [v[1] for v in viol if v[0] == "load"][:1]))
    ctx.obligation("property predicate: real elastic solves vs closed form under refinement and 1D = 2D = 3D",
                   nv["solve"] == 0, "%d failures; first: %s" % (nv["solve"], [v[1] for v in viol if v[0] == "solve"][:1]))
    ctx.extra["solve_summary"] = [dict(kind=k, ndim=n, **{a: b for a, b in i.items() if not isinstance(b, (list, dict))})
                                  for k, n, i in solve_info][:12]
    ctx.extra["meshes_compared"] = nmesh

    # ---- outcomes -----------------------------------------------------------------------------
    # smallest failing input of every distinct kind of failure (numbers masked), at most 6 per suite and dimension
    import re
    viol.sort(key=lambda v: (v[0], v[2].get("ndim", 0), v[2].get("nr", 0) * v[2].get("nt", 0) * v[2].get("nz", 0)))
    shown, per_kind = set(), {}
    for kind, what, rep, sig in viol:
        cat = (kind, rep.get("ndim"), rep.get("kind"), re.sub(r"[-+0-9.e]+", "#", what.split("): ", 1)[-1])[:48])
        kd = (kind, rep.get("ndim"), rep.get("kind"))
        if cat in shown or per_kind.get(kd, 0) >= 6:
            continue
        shown.add(cat)
        per_kind[kd] = per_kind.get(kd, 0) + 1
        r = dict(rep)
        r.setdefault("check", kind)
        ctx.violation(what, r, signature=sig)
    if not ctx.violations and (mism or not thm_ok):
        what = ("model and code disagree on %d mesh/load items but no real execution violates the property" % len(mism)) \
            if mism else "a C03 theorem no longer checks"
        ctx.violation(what, {"mismatches": mism[:5], "lean": ctx.extra.get("lean_errors"),
                             "theorems": ctx.extra.get("broken_theorems"),
                             "correspondence": "harness/c03.py vs SrModel.Mesh / SrModel.Lame"}, no_input=True)
    return "proof"


def replay(obj):
    r = obj["replay"]
    chk = r.get("check")
    if chk in ("mesh", "load"):
        g = dict(r=r["r"], t=r["t"], h=r["h"], nr=r["nr"], nt=r["nt"], nz=r["nz"], p=r["p"])
        ndim = r["ndim"]
        try:
            rm = real_mesh(ndim, g)
        except Exception as e:
            print("FAILS: real mesh construction raises: %r" % e)
            return 1
        bad = mesh_predicate(ndim, g, rm)
        Fn, pf = external_force(ndim, g, rm)
        lb, info = load_predicate(ndim, g, rm, Fn, pf)
        print("pressure facets (vertex lists):", [list(map(int, f)) for f in rm["press"]][:12])
        print("load info:", info)
        for b in bad + lb:
            print("  FAILS:", b)
        print("property holds on this input" if not (bad or lb) else "property violated on this input")
        return 1 if (bad or lb) else 0
    if chk == "solve":
        drv = common.LeanDriver(["SrModel.Mesh", "SrModel.Lame", "SrModel.LameThermal"])
        batch = Batch()
        g = dict(r["case"])
        T1 = g.pop("T1", None)
        if r["kind"] == "refine":
            job = RefineJob(r["ndim"], g, batch)
        elif r["kind"] == "refine-T(r)":
            ab = tuple(g.pop("ab"))
            job = ThermalRefineJob(r["ndim"], g, ab, batch)
        else:
            job = CrossJob(g, None if T1 is None else np.array(T1), batch)
        batch.run(drv)
        bad, info = job.evaluate(batch)
        print(info)
        for b in bad:
            print("  FAILS:", b)
        print("property holds on this input" if not bad else "property violated on this input")
        return 1 if bad else 0
    print("replay names no input:", list(r))
    return 1


if __name__ == "__main__":
    sys.exit(common.main("C03", run, replay))
