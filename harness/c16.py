"""C16 — saving and reloading a receiver changes nothing, including downstream results.

Lean: SrModel/H5.lean (model), SrProofs/H5.lean, SrProps/C16.lean (theorems).
Tie:  exact correspondence.  Random receivers (unsorted / numeric-looking / default panel, tube and
      flow-path names; stiffness options of every Python and numpy type; 1D/2D/3D abstractions with
      plane and angle; multipliers; T0; times as array / list / unset; the three result dictionaries
      filled or empty, with special float values; all four thermal BC kinds and PressureBC; flow paths,
      also with an empty panel list) are built through srlife's API, saved with the real
      `Receiver.save` to a temporary .h5 file, reloaded with the real `Receiver.load`, and the reloaded
      object — names in order, Python/numpy type of every scalar, dtype/shape/bit pattern of every
      array — is compared token by token with `loadReceiver (save r)` computed by the Lean model from the
      description of the ORIGINAL object.  The iteration order of every group of the real file is compared
      with the model's tree, and `convert_to_spring` on every option type with `convertToSpring`.
Search: the property itself on the real code, independent of the model: field-by-field equality of
      original vs reloaded (order included), `convert_to_spring` of every reloaded option gives the
      documented spring, and cheap downstream stages (thermal solve, creep-fatigue life, ceramic
      reliability) are bit-equal on original vs reloaded receivers.
"""
import math
import os
import sys
import tempfile

sys.path.insert(0, os.path.dirname(os.path.abspath(__file__)))
import common
import numpy as np

NAME_POOL = ["b", "a", "10", "2", "11", "Z", "z_1", "p-3", "100", "07", "x.y", "Tube", "tube", "9", "B2", "_"]
RESULT_NAMES = ["temperature", "stress_xx", "zeta", "alpha", "10", "2", "Beta", "mechanical_strain_zz", "_x"]
STRESS = ["stress_xx", "stress_yy", "stress_zz", "stress_yz", "stress_xz", "stress_xy"]
STRAIN = ["mechanical_strain_xx", "mechanical_strain_yy", "mechanical_strain_zz",
          "mechanical_strain_yz", "mechanical_strain_xz", "mechanical_strain_xy"]
SPECIAL = [0.0, -0.0, float("inf"), float("-inf"), float("nan"), 5e-324, 1.7976931348623157e308, 2.0 ** -1040, 1.0 / 3.0]


# --------------------------------------------------------------------------------------
# typed scalars:  spec form ["int", 5] / ["float", x] / ["npint", 5] / ["npfloat", x] / ["str", s] / ["bool", b]
# --------------------------------------------------------------------------------------
def mk_val(tv):
    k, v = tv
    if k == "int":
        return int(v)
    if k == "float":
        return float(v)
    if k == "npint":
        return np.int64(v)
    if k == "npfloat":
        return np.float64(v)
    if k == "str":
        return str(v)
    if k == "bool":
        return bool(v)
    if k == "npbool":
        return np.bool_(v)
    raise ValueError(k)


def enc_val(v):
    t = type(v)
    if t is bool:
        return "b:%d" % int(v)
    if t is int:
        return "i:%d" % v
    if t is float:
        return "f:%d" % common.f2bits(v)
    if t is str:
        return "s:" + v
    if t is np.bool_:
        return "B:%d" % int(v)
    if t is np.int64:
        return "I:%d" % int(v)
    if t is np.float64:
        return "F:%d" % common.f2bits(float(v))
    return "?:" + t.__name__


def enc_arr(a):
    if isinstance(a, list) and a and all(isinstance(x, str) for x in a):
        return "as:" + ",".join(a)
    a = np.asarray(a)
    sh = "x".join(str(s) for s in a.shape) if a.shape else "-"
    if a.dtype == np.float64:
        bits = a.reshape(-1).view(np.uint64)
        return "af:%s:%s" % (sh, ",".join(str(int(b)) for b in bits) if bits.size else "-")
    if a.dtype == np.int64:
        return "ai:%s:%s" % (sh, ",".join(str(int(b)) for b in a.reshape(-1)) if a.size else "-")
    return "a?:%s:%s" % (a.dtype, sh)


def enc_dict(d, f):
    out = [str(len(d))]
    for k, v in d.items():
        out.append(k)
        out.extend(f(v))
    return out


def bc_kind(bc):
    return {"HeatFluxBC": "HeatFlux", "FixedTempBC": "FixedTemp", "ConvectiveBC": "Convective",
            "FilmCoefficientConvectiveBC": "FilmCoefficientConvective"}.get(type(bc).__name__, "?" + type(bc).__name__)


def enc_thermal(bc):
    if bc is None:
        return ["none"]
    k = bc_kind(bc)
    if k in ("HeatFlux", "FixedTemp"):
        return ["some", k, enc_val(bc.r), enc_val(bc.h), enc_val(bc.nt), enc_val(bc.nz), enc_arr(bc.times), enc_arr(bc.data)]
    if k == "Convective":
        return ["some", k, enc_val(bc.r), enc_val(bc.h), enc_val(bc.nz), enc_arr(bc.times), enc_arr(bc.data)]
    if k == "FilmCoefficientConvective":
        return ["some", k, enc_val(bc.r), enc_val(bc.h), enc_val(bc.nz), enc_arr(bc.fluid_T), enc_arr(bc.film)]
    return ["some", k]


def enc_tube(t):
    out = ["tube", enc_val(t.r), enc_val(t.t), enc_val(t.h), enc_val(t.nr), enc_val(t.nt), enc_val(t.nz),
           enc_val(t.T0), enc_val(t.multiplier_val)]
    out.append(t.abstraction)
    if t.abstraction in ("2D", "1D"):
        out.append(enc_val(t.plane))
    if t.abstraction == "1D":
        out.append(enc_val(t.angle))
    out.append(enc_arr(t.times))
    for d in (t.results, t.quadrature_results, t.axial_results):
        out.extend(enc_dict(d, lambda a: [enc_arr(a)]))
    out.extend(enc_thermal(t.outer_bc))
    out.extend(enc_thermal(t.inner_bc))
    if t.pressure_bc is None:
        out.append("none")
    else:
        out.extend(["some", enc_arr(t.pressure_bc.times), enc_arr(t.pressure_bc.data)])
    return out


def enc_panel(p):
    return ["panel", enc_val(p.stiffness)] + enc_dict(p.tubes, enc_tube)


def enc_flow(f):
    panels = list(f["panels"])
    return ["flow", ("as:" + ",".join(panels)) if panels else "as:-", enc_arr(f["times"]), enc_arr(f["mass_flow"]),
            enc_arr(f["inlet_temp"])]


def enc_receiver(r):
    return ["receiver", enc_val(r.period), enc_val(r.days), enc_val(r.stiffness)] + \
        enc_dict(r.panels, enc_panel) + enc_dict(r.flowpaths, enc_flow)


# --------------------------------------------------------------------------------------
# generation (JSON-able specs, so that a failing input can be replayed)
# --------------------------------------------------------------------------------------
def gen_opt(rng, allow_bad=True):
    k = rng.choice(["disconnect", "rigid", "float", "int", "npfloat", "npint", "float", "int"] + (["bad"] if allow_bad else []))
    if k in ("disconnect", "rigid"):
        return ["str", k]
    if k == "bad":
        return ["str", rng.choice(["soft", "Rigid", "disconnected", "0"])]
    if k in ("int", "npint"):
        return [k, rng.choice([1, 5, 100, 1000, 123456789])]
    return [k, rng.choice([100.0, 2.5, 1.0e3, 0.125, rng.uniform(0.1, 1e4)])]


def gen_names(rng, n):
    used, out = set(), []
    for _ in range(n):
        if rng.random() < 0.35:
            out.append(None)
        else:
            c = [x for x in NAME_POOL if x not in used]
            nm = rng.choice(c)
            used.add(nm)
            out.append(nm)
    return out


def gen_floats(rng, n, specials):
    out = [rng.uniform(-1e3, 1e3) for _ in range(n)]
    if specials:
        for _ in range(max(1, n // 6)):
            out[rng.randrange(n)] = rng.choice(SPECIAL)
    return out


def gen_times(rng, n):
    t = [0.0]
    for _ in range(n - 1):
        t.append(t[-1] + rng.choice([0.25, 1.0, 2.5, rng.uniform(0.1, 10.0)]))
    return t


def gen_bc(rng, kind, radius, h):
    nt, nz, n = rng.randint(1, 4), rng.randint(2, 3), rng.randint(2, 3)
    spec = dict(kind=kind, r=radius, h=h, nt=nt, nz=nz, times=gen_times(rng, n))
    if kind in ("HeatFlux", "FixedTemp"):
        spec["data"] = np.array(gen_floats(rng, n * nt * nz, False)).reshape(n, nt, nz).tolist()
    elif kind == "Convective":
        spec["data"] = np.array(gen_floats(rng, n * nz, False)).reshape(n, nz).tolist()
    elif kind == "FilmCoefficientConvective":
        spec["fluid_T"] = gen_floats(rng, nz, False)
        spec["film"] = gen_floats(rng, nz, False)
    return spec


def gen_tube(rng):
    r = rng.choice([10.0, 2.5, rng.uniform(1.0, 30.0)])
    t = r * rng.choice([0.1, 0.25])
    h = rng.choice([100.0, 4.0, rng.uniform(1.0, 50.0)])
    nr, nt, nz = rng.randint(2, 4), rng.randint(1, 4), rng.randint(2, 3)
    ab = rng.choice(["3D", "2D", "1D"])
    spec = dict(r=["float", r], t=["float", t], h=rng.choice([["float", h], ["npfloat", h]]), nr=nr, nt=nt, nz=nz,
                T0=rng.choice([["float", rng.uniform(0, 900)], ["int", 300], ["float", 0.0]]),
                multiplier=rng.choice([["int", 1], ["int", rng.randint(2, 50)], ["npint", 7]]),
                abstraction=ab, plane=h * rng.choice([0.0, 0.5, 1.0, rng.random()]),
                angle=rng.choice([0.0, 1.0, -2.5, 7.0, rng.uniform(0, 6.28)]))
    # mostly short histories; sometimes lengths around a power of two (block-wise writers)
    ntime = rng.choice([1, 2, 3, 1, 2, 3, 2, 3, 32, 33, 65])
    tk = rng.choice(["array", "array", "list", "intlist", "unset"])
    spec["times_kind"] = tk
    has_results = tk != "unset"
    if tk == "intlist":
        spec["times"] = list(range(ntime))
    elif tk == "unset":
        spec["times"] = []
        ntime = 0
    else:
        spec["times"] = gen_times(rng, ntime)
    shape = {"3D": (ntime, nr, nt, nz), "2D": (ntime, nr, nt), "1D": (ntime, nr)}[ab]

    def names():
        k = rng.choice([0, 0, 1, 2, 3, 4])
        return rng.sample(RESULT_NAMES, k)
    spec["results"] = [[n, np.array(gen_floats(rng, int(np.prod(shape)), True)).reshape(shape).tolist()] for n in names()] if has_results else []
    qshape = (ntime, rng.randint(1, 3), rng.randint(1, 2))
    spec["quadrature"] = [[n, np.array(gen_floats(rng, int(np.prod(qshape)), True)).reshape(qshape).tolist()] for n in names()] if has_results else []
    spec["axial"] = [[n, np.array(gen_floats(rng, ntime * nz, True)).reshape(ntime, nz).tolist()] for n in names()] if has_results else []
    ok = rng.choice(["HeatFlux", "FixedTemp", None, None])
    ik = rng.choice(["HeatFlux", "FixedTemp", "Convective", "FilmCoefficientConvective", None])
    spec["outer"] = gen_bc(rng, ok, r, h) if ok else None
    spec["inner"] = gen_bc(rng, ik, r - t, h) if ik else None
    if rng.random() < 0.5:
        n = rng.randint(2, 4)
        ptimes = gen_times(rng, n)
        # a pressure history is a function of time given by samples: a repeated instant (a step) and samples
        # listed out of order are both accepted by PressureBC and must come back as they were
        u = rng.random()
        if u < 0.3:
            k = rng.randrange(1, n)
            ptimes[k] = ptimes[k - 1]
        elif u < 0.45:
            rng.shuffle(ptimes)
        spec["pressure"] = dict(times=ptimes, data=gen_floats(rng, n, False))
    else:
        spec["pressure"] = None
    return spec


def gen_receiver(rng, quick):
    npan = rng.choice([1, 2, 2, 3, 4]) if quick else rng.randint(1, 6)
    panels = []
    for nm in gen_names(rng, npan):
        ntube = rng.choice([0, 1, 2, 2, 3])
        tubes = [[tn, gen_tube(rng)] for tn in gen_names(rng, ntube)]
        panels.append(dict(name=nm, stiffness=gen_opt(rng), tubes=tubes))
    spec = dict(period=rng.choice([["float", 24.0], ["float", 8.5], ["int", 24], ["npfloat", 12.0]]),
                days=rng.choice([["int", 1], ["int", rng.randint(2, 9)], ["npint", 2]]),
                stiffness=gen_opt(rng), panels=panels, flowpaths=[])
    for nm in gen_names(rng, rng.choice([0, 1, 2, 3])):
        # panel references are resolved to real names at build time (defaults are only known then)
        k = rng.randint(0, npan)
        n = rng.randint(2, 3)
        spec["flowpaths"].append(dict(name=nm, pick=[rng.randrange(npan) for _ in range(k)], times=gen_times(rng, n),
                                      mass_flow=gen_floats(rng, n, False), inlet_temp=gen_floats(rng, n, False)))
    return spec


def build_bc(s):
    from srlife import receiver
    if s is None:
        return None
    times = np.array(s["times"], dtype=float)
    k = s["kind"]
    if k == "HeatFlux":
        return receiver.HeatFluxBC(s["r"], s["h"], s["nt"], s["nz"], times, np.array(s["data"], dtype=float))
    if k == "FixedTemp":
        return receiver.FixedTempBC(s["r"], s["h"], s["nt"], s["nz"], times, np.array(s["data"], dtype=float))
    if k == "Convective":
        return receiver.ConvectiveBC(s["r"], s["h"], s["nz"], times, np.array(s["data"], dtype=float))
    return receiver.FilmCoefficientConvectiveBC(s["r"], s["h"], s["nz"], np.array(s["fluid_T"], dtype=float),
                                                np.array(s["film"], dtype=float))


def build_tube(s):
    from srlife import receiver
    tube = receiver.Tube(mk_val(s["r"]), mk_val(s["t"]), mk_val(s["h"]), s["nr"], s["nt"], s["nz"],
                         T0=mk_val(s["T0"]), multiplier=mk_val(s["multiplier"]))
    if s["abstraction"] == "2D":
        tube.make_2D(s["plane"])
    elif s["abstraction"] == "1D":
        tube.make_1D(s["plane"], s["angle"])
    tk = s["times_kind"]
    if tk == "array":
        tube.set_times(np.array(s["times"], dtype=float))
    elif tk in ("list", "intlist"):
        tube.set_times(list(s["times"]))
    for n, d in s["results"]:
        tube.add_results(n, np.array(d, dtype=float))
    for n, d in s["quadrature"]:
        tube.add_quadrature_results(n, np.array(d, dtype=float))
    for n, d in s["axial"]:
        tube.add_axial_results(n, np.array(d, dtype=float))
    if s["outer"]:
        tube.set_bc(build_bc(s["outer"]), "outer")
    if s["inner"]:
        tube.set_bc(build_bc(s["inner"]), "inner")
    if s["pressure"]:
        tube.set_pressure_bc(receiver.PressureBC(np.array(s["pressure"]["times"], dtype=float),
                                                 np.array(s["pressure"]["data"], dtype=float)))
    return tube


def build(spec):
    from srlife import receiver
    rec = receiver.Receiver(mk_val(spec["period"]), mk_val(spec["days"]), mk_val(spec["stiffness"]))
    for p in spec["panels"]:
        panel = receiver.Panel(mk_val(p["stiffness"]))
        for tn, ts in p["tubes"]:
            panel.add_tube(build_tube(ts), tn)
        rec.add_panel(panel, p["name"])
    names = list(rec.panels.keys())
    for f in spec["flowpaths"]:
        rec.add_flowpath([names[i % len(names)] for i in f["pick"]], np.array(f["times"], dtype=float),
                         np.array(f["mass_flow"], dtype=float), np.array(f["inlet_temp"], dtype=float), name=f["name"])
    return rec


# --------------------------------------------------------------------------------------
# real save / load
# --------------------------------------------------------------------------------------
def roundtrip(rec, keep_tree=True):
    """real save to a temporary file, real load; returns (reloaded, tree-order string)"""
    import h5py
    from srlife import receiver
    fd, path = tempfile.mkstemp(suffix=".h5", prefix="verif_c16_")
    os.close(fd)
    os.remove(path)
    try:
        f = h5py.File(path, "w")
        try:
            rec.save(f)
        finally:
            f.close()
        tree = None
        if keep_tree:
            with h5py.File(path, "r") as f:
                tree = tree_order(f)
        f = h5py.File(path, "r")
        try:
            rel = receiver.Receiver.load(f)
        finally:
            f.close()
        return rel, tree
    finally:
        if os.path.exists(path):
            os.remove(path)


def tree_order(f):
    out = ["panels=" + ",".join(f["panels"]), "flowpaths=" + ",".join(f["flowpaths"])]
    for p in f["panels"]:
        tubes = f["panels"][p]["tubes"]
        out.append("panels/%s/tubes=%s" % (p, ",".join(tubes)))
        for t in tubes:
            for g in ("results", "quadrature_results", "axial_results"):
                if g in tubes[t]:
                    out.append("panels/%s/tubes/%s/%s=%s" % (p, t, g, ",".join(tubes[t][g])))
    return " ".join(out)


# --------------------------------------------------------------------------------------
# the property on the real objects (independent of the model)
# --------------------------------------------------------------------------------------
WIDEN = {int: np.int64, float: np.float64, bool: np.bool_}


def same_scalar(a, b):
    if isinstance(a, str) or isinstance(b, str):
        return type(a) is str and type(b) is str and a == b
    if not (type(b) is type(a) or type(b) is WIDEN.get(type(a))):
        return False
    if isinstance(a, (float, np.floating)):
        return common.f2bits(float(a)) == common.f2bits(float(b))
    return int(a) == int(b)


def same_array(a, b):
    if isinstance(a, list) and all(isinstance(x, str) for x in a):
        return list(b) == list(a)
    a = np.asarray(a)
    b = np.asarray(b)
    return isinstance(b, np.ndarray) and a.dtype == b.dtype and a.shape == b.shape and a.tobytes() == b.tobytes()


def diff_bc(where, a, b, out):
    if (a is None) != (b is None):
        out.append("%s: %s before, %s after" % (where, type(a).__name__, type(b).__name__))
        return
    if a is None:
        return
    if type(a) is not type(b):
        out.append("%s: reloaded as %s, was %s" % (where, type(b).__name__, type(a).__name__))
        return
    for fld in ("r", "h", "nt", "nz"):
        if hasattr(a, fld) and not (hasattr(b, fld) and same_scalar(getattr(a, fld), getattr(b, fld))):
            out.append("%s.%s: %r -> %r" % (where, fld, getattr(a, fld), getattr(b, fld, None)))
    for fld in ("times", "data", "fluid_T", "film"):
        if hasattr(a, fld) and not (hasattr(b, fld) and same_array(getattr(a, fld), getattr(b, fld))):
            out.append("%s.%s differs" % (where, fld))


def diff_tube(where, a, b, out):
    for fld in ("r", "t", "h", "nr", "nt", "nz", "T0", "multiplier_val", "abstraction"):
        if not same_scalar(getattr(a, fld), getattr(b, fld)):
            out.append("%s.%s: %r (%s) -> %r (%s)" % (where, fld, getattr(a, fld), type(getattr(a, fld)).__name__,
                                                      getattr(b, fld), type(getattr(b, fld)).__name__))
    if a.abstraction in ("2D", "1D"):
        if not (hasattr(b, "plane") and same_scalar(a.plane, b.plane)):
            out.append("%s.plane: %r -> %r" % (where, a.plane, getattr(b, "plane", "<missing>")))
    if a.abstraction == "1D":
        if not (hasattr(b, "angle") and same_scalar(a.angle, b.angle)):
            out.append("%s.angle: %r -> %r" % (where, a.angle, getattr(b, "angle", "<missing>")))
    if not same_array(a.times, b.times):
        out.append("%s.times differs: %r -> %r" % (where, a.times, b.times))
    for dn in ("results", "quadrature_results", "axial_results"):
        da, db = getattr(a, dn), getattr(b, dn)
        if set(da.keys()) != set(db.keys()):
            out.append("%s.%s names: %s -> %s" % (where, dn, sorted(da.keys()), sorted(db.keys())))
            continue
        for k in da:
            if not same_array(da[k], db[k]):
                out.append("%s.%s[%r] differs" % (where, dn, k))
    diff_bc(where + ".outer_bc", a.outer_bc, b.outer_bc, out)
    diff_bc(where + ".inner_bc", a.inner_bc, b.inner_bc, out)
    pa, pb = a.pressure_bc, b.pressure_bc
    if (pa is None) != (pb is None):
        out.append("%s.pressure_bc: presence changed" % where)
    elif pa is not None and not (same_array(pa.times, pb.times) and same_array(pa.data, pb.data)):
        out.append("%s.pressure_bc differs" % where)


def diff_receiver(a, b):
    out = []
    for fld in ("period", "days", "stiffness"):
        if not same_scalar(getattr(a, fld), getattr(b, fld)):
            out.append("receiver.%s: %r (%s) -> %r (%s)" % (fld, getattr(a, fld), type(getattr(a, fld)).__name__,
                                                            getattr(b, fld), type(getattr(b, fld)).__name__))
    if list(a.panels.keys()) != list(b.panels.keys()):
        out.append("panel names/order: %s -> %s" % (list(a.panels.keys()), list(b.panels.keys())))
    for pn in a.panels:
        if pn not in b.panels:
            continue
        pa, pb = a.panels[pn], b.panels[pn]
        if not same_scalar(pa.stiffness, pb.stiffness):
            out.append("panel %r stiffness: %r (%s) -> %r (%s)" % (pn, pa.stiffness, type(pa.stiffness).__name__,
                                                                   pb.stiffness, type(pb.stiffness).__name__))
        if list(pa.tubes.keys()) != list(pb.tubes.keys()):
            out.append("panel %r tube names/order: %s -> %s" % (pn, list(pa.tubes.keys()), list(pb.tubes.keys())))
        for tn in pa.tubes:
            if tn in pb.tubes:
                diff_tube("panel %r tube %r" % (pn, tn), pa.tubes[tn], pb.tubes[tn], out)
    if list(a.flowpaths.keys()) != list(b.flowpaths.keys()):
        out.append("flow-path names/order: %s -> %s" % (list(a.flowpaths.keys()), list(b.flowpaths.keys())))
    for fn in a.flowpaths:
        if fn not in b.flowpaths:
            continue
        fa, fb = a.flowpaths[fn], b.flowpaths[fn]
        if list(fa["panels"]) != list(fb["panels"]) or not all(isinstance(x, str) for x in fb["panels"]):
            out.append("flow path %r panels: %r -> %r" % (fn, fa["panels"], fb["panels"]))
        for k in ("times", "mass_flow", "inlet_temp"):
            if not same_array(fa[k], fb[k]):
                out.append("flow path %r %s differs" % (fn, k))
    return out


def spring_real(v):
    """canonical outcome of the real convert_to_spring on an option value"""
    from srlife import system, spring
    try:
        s = system.convert_to_spring(v, None, None)
    except ValueError as e:
        m = str(e)
        return "error:bad-string" if m.startswith("Special spring") else ("error:cannot-convert" if m.startswith("Cannot convert") else "error:" + m[:40])
    except Exception as e:
        return "exc:" + type(e).__name__
    if isinstance(s, str):
        return "special:" + s
    if isinstance(s, spring.LinearSpring):
        for attr in ("k", "stiffness", "K"):
            if hasattr(s, attr):
                k = getattr(s, attr)
                break
        else:
            k = v
        if isinstance(k, (bool, np.bool_)):
            return "linear:bool:%d" % int(k)
        if isinstance(k, (int, np.integer)):
            return "linear:int:%d" % int(k)
        return "linear:float:%d" % common.f2bits(float(k))
    return "other:" + type(s).__name__


def spring_documented(v):
    """what C16 / the docstrings promise for an option value"""
    if isinstance(v, str):
        return "special:" + v if v in ("disconnect", "rigid") else "error:bad-string"
    if isinstance(v, (bool, np.bool_)):
        return "linear:bool:%d" % int(v)
    if isinstance(v, (int, np.integer)):
        return "linear:int:%d" % int(v)
    return "linear:float:%d" % common.f2bits(float(v))


def options_of(rec):
    return [("receiver", rec.stiffness)] + [("panel %r" % n, p.stiffness) for n, p in rec.panels.items()]


def predicate(spec):
    """field-by-field equality and option conversion on one real receiver; list of (signature, message)"""
    bad = []
    try:
        rec = build(spec)
    except Exception as e:
        raise common.Infra("generator produced a receiver srlife rejects: %s: %s" % (type(e).__name__, e))
    try:
        rel, _ = roundtrip(rec, keep_tree=False)
    except Exception as e:
        return [("c16:load-fails", "save/load raised %s: %s" % (type(e).__name__, str(e)[:160]))]
    for d in diff_receiver(rec, rel):
        sig = "c16:order" if "names/order" in d else "c16:field"
        bad.append((sig, d))
    for (wa, va), (wb, vb) in zip(options_of(rec), options_of(rel)):
        doc = spring_documented(va)
        got_a, got_b = spring_real(va), spring_real(vb)
        if got_b != doc or got_a != doc:
            bad.append(("c16:option", "%s stiffness %r (%s): convert_to_spring gives %s in memory and %s after reload (%s); documented %s"
                        % (wa, va, type(va).__name__, got_a, got_b, type(vb).__name__, doc)))
    return bad


# --------------------------------------------------------------------------------------
# downstream stages: original vs reloaded, bit-equal
# --------------------------------------------------------------------------------------
def gen_downstream(rng, kind):
    """JSON-able description of a small downstream problem"""
    if kind == "thermal":
        ab = rng.choice(["1D", "2D"])
        nr, nt, nz = rng.randint(3, 5), rng.randint(3, 6), rng.randint(2, 3)
        times = gen_times(rng, rng.randint(2, 4))
        r, t, h = 10.0, 1.0, 100.0
        inner = rng.choice(["FixedTemp", "FilmCoefficientConvective", "Convective", "HeatFlux"])
        outer = rng.choice(["HeatFlux", "FixedTemp"])

        def bc(kind, rad):
            bnt, bnz, n = rng.randint(1, 5), rng.randint(2, 3), len(times)
            s = dict(kind=kind, r=rad, h=h, nt=bnt, nz=bnz, times=times)
            if kind == "HeatFlux":
                s["data"] = np.array([rng.uniform(0.0, 2.0) for _ in range(n * bnt * bnz)]).reshape(n, bnt, bnz).tolist()
            elif kind == "FixedTemp":
                s["data"] = np.array([rng.uniform(300.0, 900.0) for _ in range(n * bnt * bnz)]).reshape(n, bnt, bnz).tolist()
            elif kind == "Convective":
                s["data"] = np.array([rng.uniform(300.0, 900.0) for _ in range(n * bnz)]).reshape(n, bnz).tolist()
            else:
                s["fluid_T"] = [rng.uniform(300.0, 900.0) for _ in range(bnz)]
                s["film"] = [rng.uniform(0.1, 4.0) for _ in range(bnz)]
            return s
        return dict(stage="thermal", names=rng.sample(NAME_POOL, 2), abstraction=ab, nr=nr, nt=nt, nz=nz, times=times,
                    T0=rng.choice([["float", 300.0], ["int", 300]]), plane=rng.choice([0.0, 50.0, 100.0, 37.5]),
                    angle=rng.choice([0.0, 1.0, 4.0]), inner=bc(inner, r - t), outer=bc(outer, r),
                    stiffness=gen_opt(rng, False), k=rng.uniform(5, 40), alpha=rng.uniform(1, 20), film=rng.uniform(0.1, 4.0))
    days = 1 if kind == "ceramic" else rng.randint(1, 2)
    period = rng.choice([24.0, 8.5])
    npan = rng.randint(1, 3)
    panels = []
    per_all = rng.randint(2, 4)
    for pn in rng.sample(NAME_POOL, npan):
        tubes = []
        for tn in rng.sample(NAME_POOL, rng.randint(1, 3)):
            # the ceramic stage stacks per-tube histories: same number of steps in every tube
            per = per_all if kind == "ceramic" else rng.randint(2, 4)
            times = [0.0]
            for d in range(days):
                offs = sorted(rng.uniform(0.05, 0.95) * period for _ in range(per - 1))
                times += [d * period + o for o in offs] + [(d + 1) * period]
            n = len(times)
            nr = rng.randint(2, 3)
            ne, nq = nr - 1, rng.randint(1, 2)
            if kind == "ceramic":
                stress = [[rng.uniform(-40.0, 160.0) for _ in range(n * ne * nq)] for _ in range(6)]
                temp = [rng.uniform(800.0, 1300.0) for _ in range(n * ne * nq)]
            else:
                stress = [[rng.uniform(-80.0, 80.0) for _ in range(n * ne * nq)] for _ in range(6)]
                temp = [rng.uniform(700.0, 900.0) for _ in range(n * ne * nq)]
            strain = [[rng.uniform(-2e-3, 2e-3) for _ in range(n * ne * nq)] for _ in range(6)]
            order = list(range(13))
            rng.shuffle(order)
            tubes.append(dict(name=tn, times=times, nr=nr, ne=ne, nq=nq, stress=stress, strain=strain, temp=temp,
                              multiplier=rng.randint(1, 20), order=order))
        panels.append(dict(name=pn, stiffness=gen_opt(rng, False), tubes=tubes))
    return dict(stage=kind, period=period, days=days, panels=panels, stiffness=gen_opt(rng, False),
                material=rng.choice(["740H", "316H", "A230"]) if kind == "damage" else "SiC",
                time=rng.choice([100.0, 1000.0, 0.0]))


def build_downstream(d):
    from srlife import receiver
    if d["stage"] == "thermal":
        rec = receiver.Receiver(24.0, 1, mk_val(d["stiffness"]))
        panel = receiver.Panel("rigid")
        tube = receiver.Tube(10.0, 1.0, 100.0, d["nr"], d["nt"], d["nz"], T0=mk_val(d["T0"]))
        if d["abstraction"] == "1D":
            tube.make_1D(d["plane"], d["angle"])
        else:
            tube.make_2D(d["plane"])
        tube.set_times(np.array(d["times"], dtype=float))
        tube.set_bc(build_bc(d["inner"]), "inner")
        tube.set_bc(build_bc(d["outer"]), "outer")
        panel.add_tube(tube, d["names"][1])
        rec.add_panel(panel, d["names"][0])
        return rec
    rec = receiver.Receiver(d["period"], d["days"], mk_val(d["stiffness"]))
    for p in d["panels"]:
        panel = receiver.Panel(mk_val(p["stiffness"]))
        for t in p["tubes"]:
            tube = receiver.Tube(10.0, 1.0, 100.0, t["nr"], 4, 2, multiplier=t["multiplier"])
            tube.make_1D(50.0, 0.0)
            n = len(t["times"])
            tube.set_times(np.array(t["times"], dtype=float))
            fields = [(STRESS[i], t["stress"][i]) for i in range(6)] + [(STRAIN[i], t["strain"][i]) for i in range(6)] + \
                     [("temperature", t["temp"])]
            for i in t["order"]:     # insertion order of the result fields is arbitrary
                tube.add_quadrature_results(fields[i][0], np.array(fields[i][1], dtype=float).reshape(n, t["ne"], t["nq"]))
            panel.add_tube(tube, t["name"])
        rec.add_panel(panel, p["name"])
    return rec


_mat_cache = {}


def run_stage(d, rec):
    """the downstream stage on a receiver; returns a bytes/str fingerprint of everything it returns"""
    from srlife import thermal, materials, damage, library, solverparams
    if d["stage"] == "thermal":
        mat = materials.ConstantThermalMaterial("m", d["k"], d["alpha"])
        fluid = materials.ConstantFluidMaterial({"m": d["film"]})
        out = []
        for tube in rec.tubes:
            T = thermal.FiniteDifferenceImplicitThermalSolver().solve(tube, mat, fluid)
            out.append(np.asarray(T, dtype=float).tobytes())
        return b"|".join(out)
    key = (d["stage"], d["material"])
    if key not in _mat_cache:
        _mat_cache[key] = library.load_damage(d["material"], "base" if d["stage"] == "damage" else "cares")
    mat = _mat_cache[key]
    if d["stage"] == "damage":
        try:
            life = damage.TimeFractionInteractionDamage(solverparams.ParameterSet()).determine_life(rec, mat, nthreads=1)
        except ValueError as e:
            return "ValueError:" + str(e)[:60]
        return "life:%d" % common.f2bits(float(life))
    res = damage.PIAModel(solverparams.ParameterSet()).determine_reliability(rec, mat, d["time"], nthreads=1)
    return b"|".join(np.asarray(res[k], dtype=float).tobytes() for k in ("tube_reliability", "panel_reliability", "overall_reliability"))


def downstream_check(d):
    """-> None when the stage gives bit-equal results on the original and the reloaded receiver, else a message"""
    try:
        rec = build_downstream(d)
    except Exception as e:
        raise common.Infra("downstream generator: %s: %s" % (type(e).__name__, e))
    try:
        rel, _ = roundtrip(rec, keep_tree=False)
    except Exception as e:
        return "save/load raised %s: %s" % (type(e).__name__, str(e)[:120])
    try:
        a = run_stage(d, rec)
    except Exception as e:
        raise common.Infra("downstream stage fails on the in-memory receiver: %s: %s" % (type(e).__name__, e))
    try:
        b = run_stage(d, rel)
    except Exception as e:
        return "%s stage runs on the in-memory receiver but raises %s on the reloaded one: %s" % (d["stage"], type(e).__name__, str(e)[:120])
    if a != b:
        return "%s stage result differs between the in-memory and the reloaded receiver (%s vs %s)" % (
            d["stage"], a if isinstance(a, str) else "%d bytes" % len(a), b if isinstance(b, str) else "%d bytes" % len(b))
    # a second generation: save the reloaded receiver (now holding the stage's results) and reload again
    try:
        rel2, _ = roundtrip(rel, keep_tree=False)
        df = diff_receiver(rel, rel2)
    except Exception as e:
        return "re-saving the reloaded receiver after the %s stage raised %s: %s" % (d["stage"], type(e).__name__, str(e)[:120])
    if df:
        return "re-saved results file differs after the %s stage: %s" % (d["stage"], df[0])
    return None


# --------------------------------------------------------------------------------------
def run(ctx):
    quick = ctx.quick()
    rng = ctx.rng
    ctx.rule = ("random receivers built through srlife's API: 1-4 panels with 0-3 tubes, names drawn unsorted from a pool with "
                "numeric-looking names >= 10 and srlife's default numbering, options of type str/float/int/np.float64/np.int64 "
                "(also invalid strings), 3D/2D/1D abstraction with plane and angle, times array/list/int list/unset, 0-4 "
                "fields per result dictionary with inf/nan/-0.0/denormal entries, every BC kind, 0-3 flow paths (also with no panel); "
                "distinct = distinct receiver; non-trivial = at least one tube. Plus every option type through convert_to_spring, "
                "and downstream stages (thermal 1D/2D, creep-fatigue life, ceramic reliability) on original vs reloaded")
    ctx.trusted = ["Lean 4 kernel + Mathlib (propext, Classical.choice, Quot.sound)",
                   "correspondence harness harness/c16.py (typed canonical description of a receiver)",
                   "h5py type coercions are tabulated in SrModel/H5.lean and checked here on every run"]
    ctx.assumptions = ["names are HDF5 link names (non-empty, no '/', not '.'); a name containing '/' does not round-trip (reported)",
                       "option values are str/int/float/np.int64/np.float64; a Python bool option reloads as np.bool_ which "
                       "convert_to_spring rejects (bool_option_witness; reported)",
                       "the re-validation done by constructors/setters on load is not modelled (deterministic in unchanged fields)"]
    thm_ok = common.lean_stage(ctx, [("SrProps.C16", "SrProps/C16.lean", "SrProps.C16")])
    drv = common.LeanDriver(["SrModel.H5"])

    # ---------------- round trips ----------------
    n_rec = 120 if quick else 800
    specs = [gen_receiver(rng, quick) for _ in range(n_rec)]
    lines, reals, trees = [], [], []
    load_fail = []
    for i, spec in enumerate(specs):
        try:
            rec = build(spec)
        except Exception as e:
            raise common.Infra("generator produced a receiver srlife rejects: %s: %s" % (type(e).__name__, e))
        toks = enc_receiver(rec)
        lines.append("c16 rt " + " ".join(toks))
        lines.append("c16 tree " + " ".join(toks))
        try:
            rel, tree = roundtrip(rec)
            reals.append(" ".join(enc_receiver(rel)))
            trees.append(tree)
        except Exception as e:
            reals.append("raised %s: %s" % (type(e).__name__, str(e)[:100]))
            trees.append(None)
            load_fail.append(i)
    answers = drv.ask(lines)
    mism, tmism = [], []
    for i, spec in enumerate(specs):
        model, mtree = answers[2 * i].strip(), answers[2 * i + 1].strip()
        ntube = sum(len(p["tubes"]) for p in spec["panels"])
        kinds = sorted({(t[1][w] or {}).get("kind", "none") for p in spec["panels"] for t in p["tubes"] for w in ("outer", "inner")})
        ctx.case(("rt", i, lines[2 * i][:200]), nontrivial=ntube > 0,
                 tag="panels=%d/tubes=%d/flow=%d" % (len(spec["panels"]), ntube, len(spec["flowpaths"])),
                 sample={"panels": [p["name"] for p in spec["panels"]], "tubes": ntube, "bc_kinds": kinds,
                         "options": [spec["stiffness"]] + [p["stiffness"] for p in spec["panels"]],
                         "model==real": model == reals[i]})
        if model != reals[i]:
            mism.append((i, first_diff(model, reals[i])))
        if trees[i] is not None and mtree != trees[i].strip():
            tmism.append((i, first_diff(mtree, trees[i])))
    ctx.obligation("correspondence: real load(save(r)) == model loadReceiver (save r), typed, token by token",
                   not mism, "%d mismatches of %d; first: %s" % (len(mism), n_rec, mism[:1]))
    ctx.obligation("correspondence: iteration order of every group of the real HDF5 file == model tree",
                   not tmism, "%d mismatches of %d; first: %s" % (len(tmism), n_rec, tmism[:1]))

    # ---------------- convert_to_spring on every option type ----------------
    opt_vals = [1, 5, -3, 0, 2.5, 0.0, float("inf"), np.int64(7), np.float64(3.5), True, False, np.bool_(True),
                "disconnect", "rigid", "soft", "Rigid", "", "1.0"]
    opt_vals = [v for v in opt_vals if not (isinstance(v, str) and v == "")]
    sreal = [spring_real(v) for v in opt_vals]
    sans = drv.ask(["c16 spring " + enc_val(v) for v in opt_vals])
    smism = [(repr(v), type(v).__name__, r, a) for v, r, a in zip(opt_vals, sreal, sans) if r != a.strip()]
    for v, r in zip(opt_vals, sreal):
        ctx.case(("spring", repr(v), type(v).__name__), nontrivial=True, tag="spring/" + r.split(":")[0],
                 sample={"option": repr(v), "type": type(v).__name__, "real": r})
    ctx.obligation("correspondence: convert_to_spring on every option type == model convertToSpring", not smism,
                   "%d mismatches of %d; first: %s" % (len(smism), len(opt_vals), smism[:1]))

    # ---------------- the property on the real code ----------------
    pred_bad = []
    for i, spec in enumerate(specs):
        for sig, msg in predicate(spec):
            pred_bad.append((sig, msg, spec))
    ctx.obligation("property predicate: original vs reloaded field by field (order, types up to widening, bit patterns), "
                   "options convert as documented", not pred_bad,
                   "%d failures; first: %s" % (len(pred_bad), [(p[0], p[1]) for p in pred_bad[:1]]))
    stages = (["thermal"] * 4 + ["damage"] * 4 + ["ceramic"] * 3) if quick else (["thermal"] * 30 + ["damage"] * 30 + ["ceramic"] * 20)
    down_bad = []
    for k, st in enumerate(stages):
        d = gen_downstream(rng, st)
        msg = downstream_check(d)
        ctx.case(("down", k, st), nontrivial=True, tag="downstream/" + st, sample={"stage": st, "result": msg or "bit-equal"})
        if msg:
            down_bad.append((msg, d))
    ctx.obligation("property predicate: downstream stage bit-equal on original vs reloaded (thermal solve, life, reliability)",
                   not down_bad, "%d of %d; first: %s" % (len(down_bad), len(stages), [m[0] for m in down_bad[:1]]))
    ctx.extra["receivers_validated_against_impl"] = n_rec
    ctx.extra["downstream_cases"] = len(stages)

    # ---------------- known corner: names that are not HDF5 link names ----------------
    slash = slash_name_probe()
    ctx.extra["slash_name_probe"] = slash
    ctx.case(("slash-probe",), tag="probe/name-with-slash", sample={"suite": "panel name 'a/b'", "result": slash})
    if slash:
        ctx.violation("real Receiver.save/load: " + slash, {"what": "slash-probe", "panel_name": "a/b"},
                      signature="c16:hdf5-path-name")

    # ---------------- outcomes ----------------
    reported = set()
    for sig, msg, spec in pred_bad:
        if sig in reported:
            continue
        reported.add(sig)
        ctx.violation("real Receiver.save/load: " + msg, {"what": "receiver", "spec": shrink(spec, sig)}, signature=sig)
    if down_bad:
        msg, d = down_bad[0]
        ctx.violation("real save/load + downstream: " + msg, {"what": "downstream", "case": d}, signature="c16:downstream")
    if not (pred_bad or down_bad) and (mism or tmism or smism or not thm_ok):
        what = "a C16 theorem no longer checks" if not thm_ok else \
            "model and code disagree (%d receivers, %d trees, %d option conversions) but no real execution violates the property" \
            % (len(mism), len(tmism), len(smism))
        ctx.violation(what, {"receivers": mism[:3], "specs": [specs[m[0]] for m in mism[:1]], "trees": tmism[:3], "springs": smism[:5],
                             "lean": ctx.extra.get("lean_errors"), "theorems": ctx.extra.get("broken_theorems"),
                             "correspondence": "harness/c16.py vs SrModel.H5"}, no_input=True)
    return "proof"


def slash_name_probe():
    """a panel name containing '/' is turned into nested HDF5 groups by save; returns a failure text or None"""
    import tempfile
    from srlife import receiver
    d = tempfile.mkdtemp(prefix="c16s")
    try:
        fn = os.path.join(d, "s.h5")
        r = receiver.Receiver(24.0, 1, "rigid")
        r.add_panel(receiver.Panel(1.0), "a/b")
        try:
            r.save(fn)
            r2 = receiver.Receiver.load(fn)
            if list(r2.panels.keys()) != ["a/b"]:
                return "panel name 'a/b' reloads as %r" % (list(r2.panels.keys()),)
            return None
        except Exception as e:  # noqa: BLE001
            return "a receiver with a panel named 'a/b' cannot be saved and reloaded: %s: %s" % (type(e).__name__, e)
    finally:
        import shutil
        shutil.rmtree(d, ignore_errors=True)


def first_diff(a, b):
    ta, tb = a.split(" "), b.split(" ")
    for k, (x, y) in enumerate(zip(ta, tb)):
        if x != y:
            return "token %d: model %s | real %s (context: %s)" % (k, x[:60], y[:60], " ".join(tb[max(0, k - 3):k])[:80])
    return "lengths %d vs %d; tail: %s | %s" % (len(ta), len(tb), " ".join(ta[len(tb):][:4])[:80], " ".join(tb[len(ta):][:4])[:80])


def shrink(spec, sig):
    """drop panels / tubes / flow paths while the same kind of failure persists"""
    import copy

    def fails(s):
        try:
            return any(x[0] == sig for x in predicate(s))
        except Exception:
            return False
    cur = copy.deepcopy(spec)
    changed = True
    while changed:
        changed = False
        for pi in range(len(cur["panels"])):
            if len(cur["panels"]) > 1:
                c = copy.deepcopy(cur)
                del c["panels"][pi]
                if fails(c):
                    cur, changed = c, True
                    break
            for ti in range(len(cur["panels"][pi]["tubes"])):
                c = copy.deepcopy(cur)
                del c["panels"][pi]["tubes"][ti]
                if fails(c):
                    cur, changed = c, True
                    break
            if changed:
                break
        if not changed and cur["flowpaths"]:
            c = copy.deepcopy(cur)
            c["flowpaths"].pop()
            if fails(c):
                cur, changed = c, True
    return cur


def replay(obj):
    r = obj["replay"]
    if r.get("what") == "receiver":
        bad = predicate(r["spec"])
        rec = build(r["spec"])
        print("receiver: panels %s, options %s" % (list(rec.panels.keys()), [repr(v) for _, v in options_of(rec)]))
        for sig, msg in bad[:12]:
            print("  FAILS [%s]: %s" % (sig, msg))
        print("property holds on this input" if not bad else "property violated on this input (%d differences)" % len(bad))
        return 1 if bad else 0
    if r.get("what") == "downstream":
        msg = downstream_check(r["case"])
        print("downstream stage %s: %s" % (r["case"]["stage"], msg or "bit-equal on original and reloaded"))
        print("property holds on this input" if not msg else "property violated on this input")
        return 1 if msg else 0
    print("replay names no input:", {k: r[k] for k in r if k != "specs"})
    return 1


if __name__ == "__main__":
    sys.exit(common.main("C16", run, replay))
