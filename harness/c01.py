"""C01 — metallic life is the envelope crossing of the worst material point.

Lean: SrModel/Damage.lean (model), SrProofs/Damage.lean, SrProps/C01.lean (theorems).
Tie:  correspondence.  Synthetic solved receivers (1-3 tubes, 1-4 elements x 1-4 quadrature points,
      2-12 time points per day, 1-3 days, every shipped metallic damage material, modes lump/last,
      regimes outside-at-1 / crossing / inside-at-1e6, plus cycle-window and temperature-range error
      paths) are built as real receiver.Tube objects; `creep_damage`, `fatigue_damage`, `id_cycles`,
      `single_cycles` and `determine_life(nthreads=1)` of the real code are compared with the model
      evaluated on Float by the Lean driver.  Tolerances: damages and lumped lives 1e-9 relative;
      last-cycle lives 1e-6 absolute (brentq converges onto an integer jump), a difference of one
      whole cycle is accepted only when an independent evaluation shows the envelope test at the
      disputed integer to be within 1e-9 of equality (rounding tie) and is counted separately.
Search: the property itself on the real code, independent of the model: per-cycle damages are
      recomputed with deviator-based numpy formulas, then `inside_envelope` of the real material is
      evaluated just below / just above the returned life for every point (all inside below, one
      outside above; 0 <=> one cycle outside; inf <=> 1e6 cycles inside), plus the closedness of the
      envelope at (0,1), the knee and (1,0).
"""
import math
import os
import sys

sys.path.insert(0, os.path.dirname(os.path.abspath(__file__)))
import common
import damage_common as dc
import numpy as np

TOL = 1e-9


# ---------------------------------------------------------------------------
# the property predicate on the real code
# ---------------------------------------------------------------------------
def _margin(m, f, c):
    if f < m["x2"]:
        bound = 1.0 + (m["y2"] - 1.0) * f / m["x2"]
    else:
        bound = m["y2"] * (1.0 - f) / (1.0 - m["x2"])
    return (bound - c) / max(1.0, abs(c), abs(bound))


def point_states(case, N, damages):
    """for every point: (tube, point, margin, real inside_envelope) after N cycles, damages recomputed
    independently"""
    m = dc.parse_material(case["material"])
    mat = dc.real_material(case["material"])
    out = []
    for ti, d in enumerate(damages):
        Dc, Df = d
        for p in range(Dc.shape[1]):
            f = dc.indep_extrap(Df[:, p], N, case["mode"])
            c = dc.indep_extrap(Dc[:, p], N, case["mode"])
            real = bool(mat.inside_envelope("cfinteraction", f, c))
            out.append((ti, p, _margin(m, f, c), real, f, c))
    return out


def life_predicate(case, status, life):
    """returns list of failure strings (empty = property holds on this execution)"""
    bad = []
    windows = [dc.indep_windows(t["times"], case["period"], case["days"]) for t in case["tubes"]]
    if any(w is None for w in windows):
        if status != "raise cycles":
            bad.append("times are not compatible with days/period but the code returned %s" % (life,))
        return bad
    m = dc.parse_material(case["material"])
    hot = any(float(np.max(t["temp"][w[d]:w[d + 1]])) > m["Tmax"]
              for t, w in zip(case["tubes"], windows) for d in range(case["days"]))
    if hot:
        if status != "raise temp":
            bad.append("a cycle temperature exceeds the fatigue table but the code returned %s" % (life,))
        return bad
    if status != "ok":
        bad.append("valid input but the code raised: %s" % status)
        return bad
    damages = dc.indep_damages(case)

    def all_inside(N):
        st = point_states(case, N, damages)
        outs = [s for s in st if s[2] < -TOL]
        disagree = [s for s in st if abs(s[2]) > TOL and s[3] != (s[2] > 0)]
        return st, outs, disagree

    def some_outside(N):
        st = point_states(case, N, damages)
        return st, [s for s in st if s[2] <= TOL]

    def fmt(s):
        return "tube %d point %d (f=%.6g, c=%.6g, margin %.3g)" % (s[0], s[1], s[4], s[5], s[2])

    if life == "zero":
        st, outs = some_outside(1.0)
        if not outs:
            bad.append("life 0 but every point is inside the envelope after one cycle; closest %s"
                       % fmt(min(st, key=lambda s: s[2])))
    elif life == "inf":
        st, outs, dis = all_inside(1e6)
        if outs:
            bad.append("life unbounded but %s is outside after 1e6 cycles" % fmt(outs[0]))
    else:
        if not (1.0 - 1e-9 <= life <= 1e6 * (1 + 1e-9)):
            bad.append("finite life %r outside [1, 1e6]" % life)
        if case["mode"] == "lump":
            below, above = life * (1 - 1e-7), life * (1 + 1e-7)
        else:
            k = round(life)
            if abs(life - k) > 1e-6:
                bad.append("last-cycle life %r is not at an integer jump" % life)
            below, above = k - 0.5, k + 0.5
        if below >= 1.0:
            st, outs, dis = all_inside(below)
            if outs:
                bad.append("just below the reported life (N=%.9g of %.9g) %s is outside"
                           % (below, life, fmt(outs[0])))
        st, outs = some_outside(above)
        if not outs:
            bad.append("just above the reported life (N=%.9g of %.9g) every point is still inside; closest %s"
                       % (above, life, fmt(min(st, key=lambda s: s[2]))))
    # the real envelope test must agree with the polyline away from rounding distance
    for N in (1.0, 1e6):
        st, outs, dis = all_inside(N)
        if dis:
            bad.append("inside_envelope disagrees with the polyline (0,1)-(x2,y2)-(1,0) at %s" % fmt(dis[0]))
            break
    return bad


def envelope_boundary(name):
    """closed envelope: the three vertices are inside, the next float above them is outside"""
    m = dc.parse_material(name)
    mat = dc.real_material(name)
    bad = []
    for f, c in ((0.0, 1.0), (m["x2"], m["y2"]), (1.0, 0.0), (0.0, 0.0)):
        if not mat.inside_envelope("cfinteraction", f, c):
            bad.append((f, c, "a point of the envelope itself is reported outside"))
        up = math.nextafter(c, math.inf) if c > 0 else 1e-300
        if (f, c) != (0.0, 0.0) and mat.inside_envelope("cfinteraction", f, up):
            bad.append((f, up, "a point just above the envelope is reported inside"))
    return bad


def tie_at_integer(case, a, b):
    """last mode, |a-b| = 1: is the envelope test of some point at one of the two integers within
    1e-9 of equality?"""
    damages = dc.indep_damages(case)
    for n in {round(a), round(b), round(a) - 1, round(b) - 1}:
        if n >= 1 and any(abs(s[2]) <= TOL for s in point_states(case, float(n), damages)):
            return True
    return False


# ---------------------------------------------------------------------------
# shrinking a failing case
# ---------------------------------------------------------------------------
def _sub_tubes(case, idx):
    c = dict(case)
    c["tubes"] = [case["tubes"][i] for i in idx]
    return c


def _sub_point(case, ti, e, q):
    c = dict(case)
    t = case["tubes"][ti]
    c["tubes"] = [dict(times=t["times"], stress=t["stress"][:, :, e:e + 1, q:q + 1],
                       strain=t["strain"][:, :, e:e + 1, q:q + 1], temp=t["temp"][:, e:e + 1, q:q + 1])]
    return c


def shrink(case, fails):
    """smaller case on which `fails(case)` is still non-empty"""
    best = case
    if len(case["tubes"]) > 1:
        for i in range(len(case["tubes"])):
            c = _sub_tubes(case, [i])
            if fails(c):
                best = c
                break
    if len(best["tubes"]) == 1:
        t = best["tubes"][0]
        _, ne, nq = t["temp"].shape
        if ne * nq > 1:
            for e in range(ne):
                for q in range(nq):
                    c = _sub_point(best, 0, e, q)
                    if fails(c):
                        return c
    return best


def real_fails(case):
    status, life = dc.real_life(case)
    return life_predicate(case, status, life)


# ---------------------------------------------------------------------------
# case plan
# ---------------------------------------------------------------------------
def special_cases(rng, mats):
    out = []
    # periods whose float multiples are not exact multiples: id_cycles must raise (or not) exactly
    for per in (0.1, 7.3, 1.0 / 3.0, 0.7):
        c = dc.gen_case(rng, regime="crossing", material=rng.choice(mats), period=per, days=3, ntubes=1)
        c["tag"] = "odd-period"
        out.append(c)
    for per in (0.1, 0.7):
        c = dc.gen_case(rng, regime="crossing", material=rng.choice(mats), period=per, days=2, ntubes=1)
        c["tag"] = "odd-period-2days"
        out.append(c)
    # receiver.days one more / one less than the represented days
    for delta in (1, -1):
        c = dc.gen_case(rng, regime="crossing", material=rng.choice(mats), days=2, ntubes=1)
        c["days"] = c["days"] + delta
        c["tag"] = "days-mismatch"
        out.append(c)
    # an interior time point that is itself a multiple of the period (extra cycle boundary)
    c = dc.gen_case(rng, regime="crossing", material=rng.choice(mats), days=2, ntubes=1, period=24.0)
    t = c["tubes"][0]
    t["times"] = np.array(sorted(set(list(t["times"]))))
    c["period"] = 12.0
    c["tag"] = "period-halved"
    out.append(c)
    # temperature above the fatigue table of the material
    for name in (mats[0], mats[-1]):
        c = dc.gen_case(rng, regime="crossing", material=name, ntubes=2)
        m = dc.parse_material(name)
        tt = c["tubes"][-1]["temp"]
        tt[min(1, tt.shape[0] - 2), 0, 0] = m["Tmax"] + 5.0
        c["tag"] = "hot"
        out.append(c)
    # temperature exactly at the last table value; the very last time point (no cycle) may be hotter
    c = dc.gen_case(rng, regime="crossing", material=mats[0], ntubes=1)
    m = dc.parse_material(mats[0])
    c["tubes"][0]["temp"][0, 0, 0] = m["Tmax"]
    c["tubes"][0]["temp"][-1, :, :] = m["Tmax"] + 50.0
    c["tag"] = "table-edge"
    out.append(c)
    # one interval per day (a fatigue window of one time point: range 0 -> cut-off)
    for mode in ("lump", "last"):
        c = dc.gen_case(rng, regime="crossing", material=rng.choice(mats), mode=mode, days=3, ntubes=1)
        nt = 4
        t = dc.gen_tube(rng, "crossing", nt, 2, 2, dc.common_tmax())
        t["times"] = np.array([0.0, 1.0, 2.0, 3.0]) * c["period"]
        c["tubes"] = [t]
        c["tag"] = "one-interval-days"
        out.append(c)
    return out


def plan(ctx):
    mats = dc.metallic_materials()
    n = 144 if ctx.quick() else 1500
    cases = []
    k = 0
    combos = [(mat, mode, reg) for reg in dc.REGIMES for mode in ("lump", "last") for mat in mats]
    while len(cases) < n:
        mat, mode, reg = combos[k % len(combos)]
        k += 1
        per = ctx.rng.choice([1.0e8, 3.0e8]) if reg == "zero" else None
        c = dc.gen_case(ctx.rng, regime=reg, material=mat, mode=mode, period=per)
        c["tag"] = "random"
        cases.append(c)
    cases.extend(special_cases(ctx.rng, mats))
    # smooth non-proportional strain paths on one or two points (the all-pairs range search matters here:
    # on random data every instant is an extremum of some stored component)
    for i in range(len(mats) if ctx.quick() else 6 * len(mats)):
        c = dc.curved_case(ctx.rng, mats[i % len(mats)])
        c["tag"] = "curved"
        cases.append(c)
    for i in range(2 * len(mats) if ctx.quick() else 10 * len(mats)):
        c = dc.short_life_case(ctx.rng, mats[i % len(mats)], ("last", "lump")[(i // len(mats)) % 2])
        c["tag"] = "short-life"
        cases.append(c)
    for i in range(len(mats) if ctx.quick() else 4 * len(mats)):
        c = dc.tail_case(ctx.rng, mats[i % len(mats)], ("lump", "last")[i % 2])
        c["tag"] = "tail-after-last-boundary"
        cases.append(c)
    # an interaction diagram with the knee off the diagonal (all shipped knees are symmetric): fatigue and creep axes
    # are not interchangeable
    for i in range(4 if ctx.quick() else 24):
        c = dc.gen_case(ctx.rng, regime="crossing", material=mats[i % len(mats)] + "@knee", mode=("lump", "last")[i % 2])
        c["tag"] = "asymmetric-knee"
        cases.append(c)
    for i in range(len(mats) if ctx.quick() else 6 * len(mats)):
        c = dc.bracket_case(ctx.rng, mats[i % len(mats)])
        c["tag"] = "day-brackets"
        cases.append(c)
    # fatigue-dominated lives of a few cycles (appended last: the random stream of the families above is unchanged)
    for i in range(len(mats) if ctx.quick() else 6 * len(mats)):
        c = dc.fatigue_short_case(ctx.rng, mats[i % len(mats)])
        c["tag"] = "fatigue-dominated-short-life"
        cases.append(c)
    return cases


# ---------------------------------------------------------------------------
# run
# ---------------------------------------------------------------------------
def run(ctx):
    ctx.rule = ("synthetic solved receivers: material x mode x regime cycled over all shipped metallic materials, "
                "sizes/time grids/fields random (see module docstring), plus id_cycles / temperature-range error "
                "paths; a case is non-trivial when the receiver has a finite life or takes an error path; "
                "distinct = distinct generated inputs")
    ctx.trusted = ["Lean 4 kernel + Mathlib (propext, Classical.choice, Quot.sound)",
                   "harness/c01.py + harness/damage_common.py (generator, canonicalisation, independent numpy formulas)",
                   "scipy.optimize.brentq returns a point within its tolerance of the sign change (replaced by the closed "
                   "form / integer bisection in the model)",
                   "IEEE rounding between the Float and the real instance of the model",
                   "multiprocess.Pool.imap returns results in order"]
    ctx.assumptions = ["per-cycle damages are non-negative (dt >= 0, tR > 0, Nf > 0)",
                       "fatigue-curve temperatures of a material are distinct; exponents n are naturals",
                       "the 'poly' extrapolation mode is outside the property",
                       "cycle windows are half-open [inds[i], inds[i+1]) for fatigue, as coded"]
    thm_ok = common.lean_stage(ctx, [("SrProps.C01", "SrProps/C01.lean", "SrProps.C01")])
    drv = common.LeanDriver(["SrModel.Damage"])
    cases = plan(ctx)
    reals = [dc.real_run(c) for c in cases]
    answers = drv.ask([dc.lean_line(c) for c in cases])

    mism, jumps, pred_bad = [], 0, []
    regimes = {"zero": 0, "inf": 0, "finite": 0, "raise cycles": 0, "raise temp": 0}
    for idx, (c, r, a) in enumerate(zip(cases, reals, answers)):
        m = dc.parse_answer(a)
        what = []
        # --- correspondence -------------------------------------------------
        if r["status"] != m["status"]:
            what.append("status real=%s model=%s" % (r["status"], m["status"]))
        elif r["status"] == "ok":
            st = dc.lives_match(r["life"], m["life"], c["mode"])
            if st == "jump" and tie_at_integer(c, r["life"], m["life"]):
                jumps += 1
            elif st != "same":
                what.append("determine_life real=%r model=%r" % (r["life"], m["life"]))
            for ti, (rt, mt) in enumerate(zip(r["tubes"], m["tubes"])):
                if "error" in rt:
                    what.append("tube %d raised %s although determine_life returned" % (ti, rt["error"]))
                    continue
                if rt["inds"] != mt["inds"]:
                    what.append("tube %d cycle windows real=%s model=%s" % (ti, rt["inds"], mt["inds"]))
                    continue
                for nm in ("Dc", "Df"):
                    ra = rt[nm].reshape(c["days"], -1).T.reshape(-1)
                    ma = mt[nm]
                    if len(ra) != len(ma) or any(not common.close(x, y, rel=1e-9, abs_=0.0) for x, y in zip(ra, ma)):
                        worst = max(zip(ra, ma), key=lambda xy: abs(xy[0] - xy[1]) / max(abs(xy[0]), 1e-300))
                        what.append("tube %d %s real=%r model=%r" % (ti, nm, worst[0], worst[1]))
                st = dc.lives_match(rt["life"], mt["life"], c["mode"])
                if st == "diff" or (st == "jump" and not tie_at_integer(dc_sub(c, ti), rt["life"], mt["life"])):
                    what.append("tube %d single_cycles real=%r model=%r" % (ti, rt["life"], mt["life"]))
        if what:
            mism.append((idx, what))
        # --- property predicate on the real execution --------------------------
        pb = life_predicate(c, r["status"], r.get("life"))
        if pb:
            pred_bad.append((idx, pb))
        reg = r["status"] if r["status"] != "ok" else (r["life"] if isinstance(r["life"], str) else "finite")
        regimes[reg] = regimes.get(reg, 0) + 1
        ctx.case(idx, nontrivial=(reg not in ("inf",)),
                 tag="%s/%s/%s/%s" % (c["material"], c["mode"], c.get("tag", ""), reg),
                 sample={"material": c["material"], "mode": c["mode"], "days": c["days"], "period": c["period"],
                         "tubes": [list(t["temp"].shape) for t in c["tubes"]], "real": r.get("life", r["status"]),
                         "model": m.get("life", m["status"])})
    ctx.extra["regimes"] = regimes
    ctx.notes.append("regime 'outside after one cycle' is reached with cycle periods of 1e8-3e8 h at 60-80 MPa "
                     "components and temperatures just below the lowest last fatigue-curve temperature; the code "
                     "attaches no physical range to the period")
    ctx.extra["integer_jump_ties_accepted"] = jumps
    ctx.notes.append("last-cycle mode: %d case(s) differed by one whole cycle at a confirmed rounding tie" % jumps)
    ctx.obligation("correspondence: creep_damage, fatigue_damage, id_cycles, single_cycles, determine_life == model "
                   "(1e-9 rel; last mode 1e-6 abs, +-1 only at confirmed ties)",
                   not mism, "%d of %d cases disagree; first: %s" % (len(mism), len(cases), mism[:1]))
    need = ("zero", "inf", "finite", "raise cycles", "raise temp")
    ctx.obligation("every regime exercised (0, finite crossing, unbounded, both error paths)",
                   all(regimes.get(k, 0) > 0 for k in need), str(regimes))
    ctx.obligation("property predicate on every real determine_life (independent damages, real inside_envelope)",
                   not pred_bad, "%d executions violate; first: %s" % (len(pred_bad), pred_bad[:1]))
    env_bad = []
    for name in dc.metallic_materials():
        for f, cc, why in envelope_boundary(name):
            env_bad.append((name, f, cc, why))
        ctx.case(("env", name), nontrivial=True, tag="envelope-boundary")
    ctx.obligation("envelope is closed at (0,1), the knee and (1,0) for every material", not env_bad, str(env_bad[:2]))

    # ---- outcomes ----
    if pred_bad:
        idx, pb = pred_bad[0]
        small = shrink(cases[idx], real_fails)
        pb2 = real_fails(small) or pb
        ctx.violation("real determine_life: " + pb2[0],
                      {"kind": "life", "case": dc.case_to_json(small), "failures": pb2,
                       "n_failing_cases": len(pred_bad)}, signature="c01:life")
    if env_bad:
        name, f, cc, why = env_bad[0]
        ctx.violation("real inside_envelope(%s): %s at f=%r c=%r" % (name, why, f, cc),
                      {"kind": "envelope", "material": name, "f": f, "c": cc, "why": why}, signature="c01:envelope")
    if not pred_bad and not env_bad and (mism or not thm_ok):
        whatv = ("model and code disagree on %d cases but no execution violates the property" % len(mism)) if mism \
            else "a C01 theorem no longer checks"
        ctx.violation(whatv, {"mismatches": [(i, w[:3]) for i, w in mism[:5]],
                              "first_case": dc.case_to_json(cases[mism[0][0]]) if mism else None,
                              "lean": ctx.extra.get("lean_errors"), "theorems": ctx.extra.get("broken_theorems"),
                              "correspondence": "harness/c01.py vs SrModel.Damage"}, no_input=True)
    return "proof"


def dc_sub(case, ti):
    return _sub_tubes(case, [ti])


def replay(obj):
    r = obj["replay"]
    if r.get("kind") == "envelope":
        mat = dc.real_material(r["material"])
        got = bool(mat.inside_envelope("cfinteraction", r["f"], r["c"]))
        print("inside_envelope(%s, f=%r, c=%r) = %s   (%s)" % (r["material"], r["f"], r["c"], got, r["why"]))
        bad = envelope_boundary(r["material"])
        for b in bad:
            print("  FAILS:", b)
        print("property violated on this input" if bad else "property holds on this input")
        return 1 if bad else 0
    if r.get("kind") != "life":
        print("replay names no input:", {k: r[k] for k in r if k != "first_case"})
        return 1
    case = dc.case_from_json(r["case"])
    status, life = dc.real_life(case)
    print("material %s, mode %s, %d day(s), period %g, tubes %s" % (
        case["material"], case["mode"], case["days"], case["period"], [t["temp"].shape for t in case["tubes"]]))
    print("real determine_life:", life if status == "ok" else status)
    pb = life_predicate(case, status, life)
    for b in pb:
        print("  FAILS:", b)
    print("property holds on this input" if not pb else "property violated on this input")
    return 1 if pb else 0


if __name__ == "__main__":
    sys.exit(common.main("C01", run, replay))
