"""C04 — receiver spring system is in equilibrium for every connection option.

Lean: SrModel/Spring.lean (model), SrProofs/Spring.lean, SrProps/C04.lean (theorems).
Tie:  (T) exact correspondence on topology: real `SpringSystemSolver.make_network` ->
      `remove_rigid` / `split_disconnect` (= `reduce_graph`) with STUB tube springs (a dummy tube
      solver: linear thermal bar, no FEM) against the model's `buildNetwork` / `reduce`:
      built network, representative of every node (from networkx' `contraction` attribute),
      components as sorted node lists, edge kinds, BC nodes, `validate_solve` verdict, free/fixed
      dofs, raised error kind.  Exhaustive over all 3^(1+P) option assignments, P <= 3
      (quick: P <= 2), 1..3 tubes per panel, numeric options of type float/int/np.float64/np.int64.
      (G) the same on random hand-built multigraphs (error branches of remove_rigid, the filters
      of split_disconnect).
      (A) assembly: real `fj`/`RJ` on every reduced component at a random displacement vector
      against the model's `assembleF`/`assembleJ` on Float (1e-9 relative).
Search (property predicate on the real code, independent of the model): real `solve_all` on every
      subproblem with random stiffness / thermal growth per stub tube: completes; force balance of
      every free manifold body; rigid => same top displacement; disconnected tube == stand-alone
      solution; numeric connection force == k * relative displacement; displacements == an
      independent direct-stiffness solution built from the un-reduced description.
      (F) a smaller sample through the full `SpringSystemSolver.solve` with real 1-D elastic FEM tubes.
"""
import itertools
import os
import sys
from fractions import Fraction

sys.path.insert(0, os.path.dirname(os.path.abspath(__file__)))
import common
import numpy as np

TIMES = [0.0, 0.4, 1.0]
NUMTYPES = ["float", "int", "np.float64", "np.int64"]
ERRMAP = [("rigid link across a spring", "rigidAcrossSpring"), ("merge two nodes with BCs", "twoBCs"),
          ("deleting BC", "deletingBC"), ("must be springs", "notSprings"),
          ("at least one fixed BC", "noFixedBC"), ("fully connected", "notConnected")]


def errkind(e):
    msg = str(e)
    for pat, kind in ERRMAP:
        if pat in msg:
            return kind
    return "other:%s:%s" % (type(e).__name__, msg[:80])


# ---------------------------------------------------------------------------
# option encoding (JSON-able):  ["str", "rigid"] | ["float", 100.0] | ["np.int64", 7] ...
# ---------------------------------------------------------------------------
def mk_opt(enc):
    kind, v = enc
    if kind == "str":
        return v
    return {"float": float, "int": int, "np.float64": np.float64, "np.int64": np.int64}[kind](v)


def opt_letter(enc):
    return {"disconnect": "d", "rigid": "r"}[enc[1]] if enc[0] == "str" else "s"


def opt_lean(enc):
    if enc[0] == "str":
        return opt_letter(enc)
    fr = Fraction(float(enc[1]))
    return "s%d/%d" % (fr.numerator, fr.denominator)


def opt_val(enc):
    return None if enc[0] == "str" else float(enc[1])


def rand_num(rng, typ=None):
    typ = typ or rng.choice(NUMTYPES)
    if typ in ("int", "np.int64"):
        return [typ, int(rng.choice([1, 2, 5, 10]) * 10 ** rng.randint(1, 4))]
    return [typ, float(10 ** rng.uniform(1.0, 5.0))]


def enc_of(letter, rng, typ=None):
    return {"d": ["str", "disconnect"], "r": ["str", "rigid"]}.get(letter) or rand_num(rng, typ)


def describe(desc):
    return "recv=%s panels=%s" % (opt_letter(desc["recv"]) if desc["recv"][0] == "str" else "%s(%s)" % (desc["recv"][1], desc["recv"][0]),
                                  ",".join("%s:%d" % (opt_letter(o) if o[0] == "str" else "%s(%s)" % (o[1], o[0]), n)
                                           for o, n in desc["panels"]))


# ---------------------------------------------------------------------------
# the stub tube solver: a linear thermal bar  force = k (d - dth * t),  stiffness = k
# ---------------------------------------------------------------------------
class BarState:
    def __init__(self, force=0.0, stiffness=0.0, d=0.0):
        self.force, self.stiffness, self.d = force, stiffness, d


class StubTubeSolver:
    """implements the TubeSolver interface used by spring.TubeSpring"""

    def setup_tube(self, tube):
        tube._verif_dump = {}
        tube._verif_calls = 0

    def init_state(self, tube, mat, i=None):
        return BarState()

    def dump_state(self, tube, i, state):
        tube._verif_dump[i] = (state.d, state.force)

    def solve(self, tube, i, state_n, d):
        tube._verif_calls += 1
        k = tube._verif_k
        return BarState(k * (d - tube._verif_dth * tube.times[i]), k, d)


MULTS = [3, 1, 2, 1, 4]


def build_model(desc):
    from srlife import receiver
    model = receiver.Receiver(1.0, 1, mk_opt(desc["recv"]))
    tubes = []
    for (opt, n) in desc["panels"]:
        panel = receiver.Panel(mk_opt(opt))
        for _ in range(n):
            # tube multipliers are bookkeeping for thermal/flow/damage stages: the spring system must ignore them
            t = receiver.Tube(5.0, 0.5, 2.5, 2, 1, 1, multiplier=MULTS[len(tubes) % len(MULTS)])
            t.set_times(np.array(desc.get("times", TIMES)))
            t._verif_id = len(tubes)
            t._verif_k = desc["k"][len(tubes)]
            t._verif_dth = desc["dth"][len(tubes)]
            panel.add_tube(t)
            tubes.append(t)
        model.add_panel(panel)
    return model, tubes


def make_network(desc):
    from srlife import system
    model, tubes = build_model(desc)
    net = system.SpringSystemSolver(verbose=False).make_network(model, None, StubTubeSolver())
    return net, tubes


def edge_kind(obj):
    from srlife import spring
    if isinstance(obj, str):
        return {"disconnect": "d", "rigid": "r"}.get(obj, "?" + obj)
    if isinstance(obj, spring.TubeSpring):
        return "t%d" % obj.tube._verif_id
    if isinstance(obj, spring.LinearSpring):
        fr = Fraction(float(obj.k))
        return "s%d/%d" % (fr.numerator, fr.denominator)
    return "?" + type(obj).__name__


def canon_net(g):
    nodes = sorted(int(n) for n in g.nodes)
    edges = sorted((min(int(i), int(j)), max(int(i), int(j)), edge_kind(e["object"])) for i, j, e in g.edges(data=True))
    bcs = sorted(int(n) for n in g.nodes if "bc" in g.nodes[n] and g.nodes[n]["bc"][0] == "displacement")
    return (tuple(nodes), tuple(edges), tuple(bcs))


def contracted_members(attrs):
    out = []
    for v, a in (attrs.get("contraction") or {}).items():
        out.append(int(v))
        out.extend(contracted_members(a))
    return out


def real_rep(g, nnodes):
    rep = {}
    for n in g.nodes:
        rep[int(n)] = int(n)
        for m in contracted_members(g.nodes[n]):
            rep[m] = int(n)
    return [rep.get(n, -1) for n in range(nnodes)]


def canon_components(subs):
    comps = []
    for s in subs:
        nodes, edges, bcs = canon_net(s)
        try:
            s.validate_solve()
            valid = "ok"
        except RuntimeError as e:
            valid = errkind(e)
        try:
            _, free, _, fixed, _ = s.dof_maps(1)
            free, fixed = tuple(int(x) for x in free), tuple(int(x) for x in fixed)
        except Exception as e:  # noqa
            free, fixed = ("dof_maps:" + errkind(e),), ()
        comps.append((nodes, edges, bcs, valid, free, fixed))
    return sorted(comps)


def real_topology(desc):
    """what the real code does: built network, representatives, reduced components / error kind"""
    net, _ = make_network(desc)
    built = canon_net(net)
    out = {"built": built}
    try:
        net.remove_rigid()
        out["rep"] = real_rep(net, len(built[0]))
        subs = net.split_disconnect()
        out["comps"] = canon_components(subs)
        out["err"] = None
        # reduce_graph itself (one call) gives the same thing
        net2, _ = make_network(desc)
        out["same_as_reduce_graph"] = canon_components(net2.reduce_graph()) == out["comps"]
    except RuntimeError as e:
        out["err"] = errkind(e)
    return out


def parse_nats(s):
    return tuple() if s == "-" else tuple(int(x) for x in s.split(","))


def parse_edges(s):
    if s == "-":
        return tuple()
    res = []
    for item in s.split(","):
        i, j, k = item.split("-", 2)
        res.append((min(int(i), int(j)), max(int(i), int(j)), k, int(i) < int(j)))
    return tuple(sorted(res))


def parse_answer(ans):
    """model answer -> same shape as real_topology; also reports tube-edge orientation"""
    parts = ans.split(" ")
    out = {"err": None, "raw": ans}
    if parts[0] == "err":
        out["err"] = parts[1]
        return out
    if parts[0] != "ok":
        out["err"] = "model:" + ans
        return out
    comps = []
    oriented = True
    if parts[1] != "-":
        for c in parts[1].split("|"):
            nodes, edges, bcs, valid, free, fixed = c.split(";")
            es = parse_edges(edges)
            oriented = oriented and all(e[3] for e in es if e[2].startswith("t"))
            comps.append((parse_nats(nodes), tuple(e[:3] for e in es), parse_nats(bcs), valid, parse_nats(free), parse_nats(fixed)))
    out["comps"] = sorted(comps)
    out["oriented"] = oriented
    for p in parts[2:]:
        if p.startswith("rep="):
            out["rep"] = list(parse_nats(p[4:]))
        if p.startswith("net="):
            nodes, edges, bcs = p[4:].split(";")
            out["built"] = (parse_nats(nodes), tuple(e[:3] for e in parse_edges(edges)), tuple(sorted(parse_nats(bcs))))
    return out


def lean_line(desc):
    return "c04 %s %s" % (opt_lean(desc["recv"]), ",".join("%s:%d" % (opt_lean(o), n) for o, n in desc["panels"]) or "-")


def topo_diff(real, model):
    """list of differences between real and model topology"""
    d = []
    if real["err"] != model["err"]:
        return ["outcome: real %s, model %s" % (real["err"] or "ok", model["err"] or "ok")]
    if "built" in model and real["built"] != model["built"]:
        d.append("built network differs: real %s model %s" % (real["built"], model["built"]))
    if real["err"] is None:
        if real["rep"] != model["rep"]:
            d.append("representatives differ: real %s model %s" % (real["rep"], model["rep"]))
        if real["comps"] != model["comps"]:
            d.append("components differ: real %s model %s" % (real["comps"], model["comps"]))
        if not real.get("same_as_reduce_graph", True):
            d.append("reduce_graph() differs from remove_rigid(); split_disconnect()")
    return d


# ---------------------------------------------------------------------------
# independent direct-stiffness solution from the UN-REDUCED description
# ---------------------------------------------------------------------------
def direct_solution(desc, t_final=None):
    """numbering by the documented rule (0; panel; top; bottom), rigid links eliminated as
    constraints (union of nodes), disconnects absent, bottoms fixed at 0.
    returns (d per node or None when undetermined, cls per node, springs, tube records)"""
    t_final = desc.get("times", TIMES)[-1] if t_final is None else t_final
    parent = {}

    def find(x):
        while parent.get(x, x) != x:
            x = parent[x]
        return x

    def union(a, b):
        a, b = find(a), find(b)
        if a != b:
            parent[max(a, b)] = min(a, b)

    springs = []  # (a, b, k, growth)  internal force on a: k (d_a - d_b - growth)
    fixed_nodes, tubes = [], []
    cn, tid = 1, 0
    recv = desc["recv"]
    for (opt, n) in desc["panels"]:
        P = cn
        cn += 1
        if recv == ["str", "rigid"]:
            union(0, P)
        elif recv[0] != "str":
            springs.append((0, P, float(recv[1]), 0.0, "recv"))
        for _ in range(n):
            T, B = cn, cn + 1
            cn += 2
            if opt == ["str", "rigid"]:
                union(P, T)
            elif opt[0] != "str":
                springs.append((P, T, float(opt[1]), 0.0, "panel"))
            springs.append((T, B, desc["k"][tid], desc["dth"][tid] * t_final, "tube%d" % tid))
            tubes.append({"id": tid, "panel": P, "top": T, "bot": B, "opt": opt})
            fixed_nodes.append(B)
            tid += 1
    nn = cn
    cls = [find(x) for x in range(nn)]
    fixed = set(cls[b] for b in fixed_nodes)
    # classes connected to a fixed class through springs
    adj = {}
    for a, b, k, g, _ in springs:
        adj.setdefault(cls[a], set()).add(cls[b])
        adj.setdefault(cls[b], set()).add(cls[a])
    seen, stack = set(fixed), list(fixed)
    while stack:
        x = stack.pop()
        for y in adj.get(x, ()):
            if y not in seen:
                seen.add(y)
                stack.append(y)
    free = sorted(c for c in seen if c not in fixed)
    idx = {c: k for k, c in enumerate(free)}
    K = np.zeros((len(free), len(free)))
    f = np.zeros(len(free))
    for a, b, k, g, _ in springs:
        ca, cb = cls[a], cls[b]
        if ca not in seen:
            continue
        for (x, y, sg) in ((ca, cb, 1.0), (cb, ca, -1.0)):
            if x in idx:
                K[idx[x], idx[x]] += k
                if y in idx:
                    K[idx[x], idx[y]] -= k
                f[idx[x]] += sg * k * g
    sol = np.linalg.solve(K, f) if len(free) else np.zeros(0)
    dcls = {c: 0.0 for c in fixed}
    dcls.update({c: float(sol[idx[c]]) for c in free})
    d = [dcls.get(cls[x]) for x in range(nn)]
    return d, cls, springs, tubes


def real_solution(desc):
    """run the real reduce_graph + solve_all; returns dict with node displacements and tube records"""
    net, tubes = make_network(desc)
    subs = net.reduce_graph()
    dnode = {}
    for s in subs:
        s.solve_all()
        for n in s.nodes:
            val = float(s.displacements[s.dmap[n]])
            dnode[int(n)] = val
            for m in contracted_members(s.nodes[n]):
                dnode[m] = val
    return {"subs": subs, "d": dnode, "tubes": tubes}


def predicate(desc, want_subs=False):
    """the property itself on a real execution; list of failures (empty = holds)"""
    bad = []
    nt = len(desc.get("times", TIMES)) - 1
    try:
        r = real_solution(desc)
    except Exception as e:  # completes?
        bad.append("system solve does not complete: %s: %s" % (type(e).__name__, str(e)[:100]))
        return (bad, None) if want_subs else bad
    d_dir, cls, springs, trecs = direct_solution(desc)
    dr = r["d"]
    dscale = max([abs(x) for x in d_dir if x is not None] + [1e-300])
    tol_d = 1e-8 * dscale
    # 1. the solved nodes are exactly the nodes the direct solution determines; displacements equal
    for n, dd in enumerate(d_dir):
        if dd is None and n in dr:
            bad.append("node %d is solved for although it is not connected to any fixed node" % n)
        if dd is not None and n not in dr:
            bad.append("node %d (connected to a tube) has no displacement in any solved sub-network" % n)
        if dd is not None and n in dr and abs(dr[n] - dd) > tol_d:
            bad.append("displacement of node %d is %.12g, direct-stiffness solution %.12g" % (n, dr[n], dd))
    # what every tube saw and reported
    fscale = 1e-300
    seen = {}
    for t, rec in zip(r["tubes"], trecs):
        if nt not in t._verif_dump:
            bad.append("tube %d has no result stored for the last step" % rec["id"])
            continue
        seen[rec["id"]] = t._verif_dump[nt]
        fscale = max(fscale, abs(seen[rec["id"]][1]), abs(t._verif_k * t._verif_dth))
    for a, b, k, g, what in springs:
        if a in dr and b in dr and not what.startswith("tube"):
            fscale = max(fscale, abs(k * (dr[a] - dr[b])))
    tol_f = 1e-8 * fscale
    if bad:
        return (bad, r) if want_subs else bad
    for rec in trecs:
        dh, fh = seen[rec["id"]]
        T, B, P = rec["top"], rec["bot"], rec["panel"]
        # 2. the displacement handed to the tube is top minus bottom
        if abs(dh - (dr[T] - dr[B])) > tol_d:
            bad.append("tube %d was given displacement %.12g but d_top - d_bottom = %.12g" % (rec["id"], dh, dr[T] - dr[B]))
        if rec["opt"] == ["str", "rigid"]:
            # 3. rigidly connected tubes share one top displacement (that of the panel node)
            if abs(dh - dr[P]) > tol_d:
                bad.append("tube %d is rigidly connected but its top moves %.12g, the panel node %.12g" % (rec["id"], dh, dr[P]))
        elif rec["opt"] == ["str", "disconnect"]:
            # 4. a disconnected tube behaves as if solved alone: free thermal growth, no force
            alone = desc["dth"][rec["id"]] * desc.get("times", TIMES)[-1]
            if abs(dh - alone) > 1e-8 * max(abs(alone), 1e-300) or abs(fh) > tol_f:
                bad.append("tube %d is disconnected but moves %.12g with force %.6g (alone: %.12g, 0)" % (rec["id"], dh, fh, alone))
        else:
            # 5. a numeric connection carries k * relative displacement ( = what the tube reports)
            kp = float(rec["opt"][1])
            if abs(kp * (dr[T] - dr[P]) + fh) > tol_f:
                bad.append("panel link of tube %d: k*(d_top-d_panel) = %.9g but the tube carries %.9g" % (rec["id"], kp * (dr[T] - dr[P]), -fh))
    # 6. force balance of every free manifold body (rigid groups are one body)
    bal = {}
    for a, b, k, g, what in springs:
        if a not in dr or b not in dr:
            continue
        f = seen[int(what[4:])][1] if what.startswith("tube") else k * (dr[a] - dr[b])
        bal[cls[a]] = bal.get(cls[a], 0.0) + f
        bal[cls[b]] = bal.get(cls[b], 0.0) - f
    fixedc = set(cls[rec["bot"]] for rec in trecs)
    for c, f in sorted(bal.items()):
        if c not in fixedc and abs(f) > tol_f:
            bad.append("free node %d is not in force balance: sum of spring forces %.6g (scale %.6g)" % (c, f, fscale))
    return (bad, r) if want_subs else bad


def alone_check(desc, tid):
    """really solve tube `tid` alone (its own one-tube receiver) and return its top displacement"""
    d1 = {"recv": ["str", "disconnect"], "panels": [[["str", "disconnect"], 1]], "k": [desc["k"][tid]],
          "dth": [desc["dth"][tid]], "times": desc.get("times", TIMES)}
    r = real_solution(d1)
    return r["tubes"][0]._verif_dump[len(d1["times"]) - 1][0]


# ---------------------------------------------------------------------------
# assembly correspondence: real fj / RJ vs the model on Float
# ---------------------------------------------------------------------------
def rj_cases(desc, rng):
    """request lines and real values for every sub-network of a fresh (unsolved) reduced network"""
    net, _ = make_network(desc)
    out = []
    for sub in net.reduce_graph():
        sub.i = len(desc.get("times", TIMES)) - 1
        sub.dmap, sub.free, sub.forces, sub.fixed, sub.fixed_displacements = sub.dof_maps(sub.i)
        out.append(rj_case(sub, rng))
    return out


def rj_case(sub, rng):
    """one request line and the real values for a sub-network with its dof maps set"""
    n = len(sub.nodes)
    dall = np.array([rng.uniform(-1e-2, 1e-2) for _ in range(n)])
    dall[sub.dmap[sub.fixed]] = sub.fixed_displacements
    t = sub.times[sub.i]
    items, F, J = [], np.zeros(n), np.zeros((n, n))
    for i, j, e in sub.edges(data=True):
        obj = e["object"]
        k, g = (obj.tube._verif_k, obj.tube._verif_dth * t) if hasattr(obj, "tube") else (float(obj.k), 0.0)
        items.append("%d:%d:%d:%d" % (sub.dmap[i], sub.dmap[j], common.f2bits(k), common.f2bits(g)))
        fe, je, _ = sub.fj(dall, i, j, e)
        F += fe
        J += je
    R, Jff = sub.RJ(dall[sub.dmap[sub.free]])
    line = "c04rj %d %s %s" % (n, ",".join(items), ",".join(str(common.f2bits(x)) for x in dall))
    return line, {"F": F, "J": J, "R": R, "Jff": Jff, "free": sub.dmap[sub.free]}


def rj_compare(real, ans):
    fs, js = ans.split(" ")
    F = np.array([common.bits2f(x) for x in fs.split(",")])
    n = len(F)
    J = np.array([common.bits2f(x) for x in js.split(",")]).reshape(n, n)
    sc = max(np.abs(real["F"]).max(), 1e-300)
    scj = max(np.abs(real["J"]).max(), 1e-300)
    free = real["free"]
    errs = [np.abs(F - real["F"]).max() / sc, np.abs(J - real["J"]).max() / scj,
            (np.abs(F[free] - real["R"]).max() / sc) if len(free) else 0.0,
            (np.abs(J[free, :][:, free] - real["Jff"]).max() / scj) if len(free) else 0.0]
    return max(errs)


# ---------------------------------------------------------------------------
# generic multigraphs (error branches of remove_rigid, filters of split_disconnect)
# ---------------------------------------------------------------------------
def generic_case(rng):
    nn = rng.randint(2, 6)
    ne = rng.randint(1, 7)
    edges = []
    ntube = 0
    for _ in range(ne):
        i = rng.randrange(nn)
        j = rng.randrange(nn)
        if i == j:
            continue
        k = rng.choice(["d", "r", "r", "s", "t"])
        if k == "s":
            k = "s%d/1" % rng.randint(1, 9)
        if k == "t":
            k = "t%d" % ntube
            ntube += 1
        edges.append((i, j, k))
    bcs = sorted(n for n in range(nn) if rng.random() < 0.3)
    return {"nodes": list(range(nn)), "edges": edges, "bcs": bcs}


def generic_real(case):
    from srlife import spring, receiver
    g = spring.SpringNetwork()
    for n in case["nodes"]:
        g.add_node(n)
    for i, j, k in case["edges"]:
        if k[0] == "t":
            t = receiver.Tube(5.0, 0.5, 2.5, 2, 1, 1)
            t.set_times(np.array(TIMES))
            t._verif_id, t._verif_k, t._verif_dth = int(k[1:]), 1.0, 0.0
            obj = spring.TubeSpring(t, StubTubeSolver(), None)
        elif k[0] == "s":
            obj = spring.LinearSpring(float(Fraction(k[1:])))
        else:
            obj = {"d": "disconnect", "r": "rigid"}[k]
        g.add_edge(i, j, object=obj)
    for n in case["bcs"]:
        g.displacement_bc(n, lambda t: 0.0)
    g.set_times(np.array(TIMES))
    out = {}
    try:
        g.remove_rigid()
        out["rep"] = real_rep(g, len(case["nodes"]))
        out["comps"] = canon_components(g.split_disconnect())
        out["err"] = None
    except RuntimeError as e:
        out["err"] = errkind(e)
    return out


def generic_line(case):
    return "c04net %s %s %s" % (",".join(map(str, case["nodes"])),
                                ",".join("%d-%d-%s" % e for e in case["edges"]) or "-",
                                ",".join(map(str, case["bcs"])) or "-")


# ---------------------------------------------------------------------------
# full SpringSystemSolver.solve with real 1-D elastic FEM tubes
# ---------------------------------------------------------------------------
def fem_model(desc):
    from srlife import receiver
    model = receiver.Receiver(1.0, 1, mk_opt(desc["recv"]))
    tubes = []
    times = np.array(desc.get("times", [0.0, 1.0]))
    for (opt, n) in desc["panels"]:
        panel = receiver.Panel(mk_opt(opt))
        for _ in range(n):
            t = receiver.Tube(5.0, 0.5, FEM_H, 3, 4, 2, multiplier=MULTS[len(tubes) % len(MULTS)])
            t.make_1D(t.h / 2, 0.0)
            t.set_times(times)
            dT = desc["dT"][len(tubes)]
            T = np.zeros((len(times), 3))
            for k, tt in enumerate(times):
                T[k, :] = dT * tt
            t.add_results("temperature", T)
            pr = (desc.get("p") or [0.0] * (len(tubes) + 1))[len(tubes)]
            t.set_pressure_bc(receiver.PressureBC(times, pr * times))
            panel.add_tube(t)
            tubes.append(t)
        model.add_panel(panel)
    return model, tubes


ALPHA = 1.0e-5
EMOD = 150000.0
FEM_H = 2.5
FEM_AREA = np.pi * (5.0 ** 2 - 4.5 ** 2)


def fem_material():
    from neml import elasticity, models
    emodel = elasticity.IsotropicLinearElasticModel(EMOD, "youngs", 0.3, "poissons")
    return models.SmallStrainElasticity(emodel, alpha=ALPHA)


_PGROW = {}


def pressure_growth(pr):
    """axial growth of the free FEM tube under internal pressure `pr` alone (Poisson contraction of the discretised
    wall), measured on the real tube solver driven directly (no spring, no system solver): an elastic tube is the
    bar F(d) = k (d - d_free) with k = E A / H, so d_free = -F(0) / k"""
    if pr == 0.0:
        return 0.0
    if pr not in _PGROW:
        from srlife import receiver, structural
        t = receiver.Tube(5.0, 0.5, FEM_H, 3, 4, 2)
        t.make_1D(t.h / 2, 0.0)
        times = np.array([0.0, 1.0])
        t.set_times(times)
        t.add_results("temperature", np.zeros((2, 3)))
        t.set_pressure_bc(receiver.PressureBC(times, pr * times))
        solver = structural.PythonTubeSolver(verbose=False)
        st0 = solver.init_state(t, fem_material())
        st1 = solver.solve(t, 1, st0, 0.0)
        _PGROW[pr] = -float(st1.force) / (EMOD * FEM_AREA / FEM_H)
    return _PGROW[pr]


def fem_run(desc, keep=None):
    """full system solve; returns per-tube (axial strain, axial stress) at the last step.
    keep: a dict carried between calls; when given, the SAME receiver, tube, material, tube-solver and
    system-solver objects are solved again with desc's connection options set in place (an option study)"""
    from srlife import system, structural
    if keep is not None and "model" in keep:
        model, tubes, mat, ssolver, sys_solver = keep["model"], keep["tubes"], keep["mat"], keep["ssolver"], keep["sys"]
        model.stiffness = mk_opt(desc["recv"])
        for panel, (opt, n) in zip(model.panels.values(), desc["panels"]):
            panel.stiffness = mk_opt(opt)
    else:
        model, tubes = fem_model(desc)
        mat, ssolver, sys_solver = fem_material(), structural.PythonTubeSolver(verbose=False), system.SpringSystemSolver(verbose=False)
        if keep is not None:
            keep.update(model=model, tubes=tubes, mat=mat, ssolver=ssolver, sys=sys_solver)
    sys_solver.solve(model, mat, ssolver, nthreads=1)
    res = []
    for t in tubes:
        ezz = t.quadrature_results["strain_zz"][-1]
        szz = t.quadrature_results["stress_zz"][-1]
        res.append((float(np.mean(ezz)), float(np.mean(szz)), float(np.ptp(ezz))))
    return res


def fem_predicate(desc, keep=None):
    bad = []
    try:
        res = fem_run(desc, keep)
    except Exception as e:
        return ["full system solve with FEM tubes does not complete: %s: %s" % (type(e).__name__, str(e)[:100])], None
    tid = 0
    # independent direct-stiffness solution: an elastic tube under uniform temperature and no pressure
    # is the bar k = E A / H with free growth alpha dT H; its axial strain is d_top / H
    dd = dict(desc)
    dd["k"] = [EMOD * FEM_AREA / FEM_H] * len(desc["dT"])
    prs = desc.get("p") or [0.0] * len(desc["dT"])
    dd["dth"] = [ALPHA * x * FEM_H + pressure_growth(pr) for x, pr in zip(desc["dT"], prs)]
    d_dir, _, _, trecs = direct_solution(dd)
    for rec in trecs:
        want = d_dir[rec["top"]] / FEM_H
        if abs(res[rec["id"]][0] - want) > 1e-6 * abs(want) + 1e-12:
            bad.append("FEM tube %d has axial strain %.12g, direct-stiffness solution %.12g" % (rec["id"], res[rec["id"]][0], want))
    for (opt, n) in desc["panels"]:
        first = tid
        for _ in range(n):
            ezz, szz, spread = res[tid]
            if opt == ["str", "disconnect"]:
                # alone: free thermal growth, uniform temperature => no axial stress
                free = ALPHA * desc["dT"][tid] * desc.get("times", [0.0, 1.0])[-1] + pressure_growth(prs[tid]) / FEM_H
                # (under pressure the discretised sigma_zz is uniform only to mesh accuracy: the strain carries the test)
                if abs(ezz - free) > 1e-6 * abs(free) + 1e-12 or (prs[tid] == 0.0 and abs(szz) > 1e-6 * EMOD * abs(free) + 1e-9):
                    bad.append("FEM tube %d is disconnected but has axial strain %.9g (free growth %.9g), stress %.6g" % (tid, ezz, free, szz))
            if opt == ["str", "rigid"] and abs(ezz - res[first][0]) > 1e-7 * max(abs(ezz), 1e-12):
                bad.append("FEM tubes %d and %d are rigidly connected but have axial strains %.9g / %.9g" % (first, tid, res[first][0], ezz))
            tid += 1
    return bad, res


# ---------------------------------------------------------------------------
def gen_desc(rng, letters, ntubes, types=None):
    """letters: recv letter + one per panel"""
    types = types or [None] * len(letters)
    nt = sum(ntubes)
    return {"recv": enc_of(letters[0], rng, types[0]),
            "panels": [[enc_of(l, rng, ty), n] for l, ty, n in zip(letters[1:], types[1:], ntubes)],
            "k": [float(10 ** rng.uniform(2.0, 5.0)) for _ in range(nt)],
            "dth": [float(rng.choice([-1, 1]) * 10 ** rng.uniform(-3.0, -2.0)) for _ in range(nt)],
            "times": TIMES}


def run(ctx):
    ctx.rule = ("(T/S) every option assignment in {disconnect, rigid, numeric}^(1+P) x every tube count in "
                "{1,2,3}^P for P<=2 (thorough: P<=3; quick: 150 random P=3 cases), numeric options cycling "
                "through float/int/np.float64/np.int64 with random values, random stub-tube stiffness and "
                "thermal growth; plus random assignments with 0..4 tubes per panel and P<=5; "
                "(G) random multigraphs with 2-6 nodes and up to 7 edges; "
                "(A) one random displacement vector per reduced component; (F) all 27 assignments, 2 panels x "
                "1 FEM tube. non-trivial = at least one rigid or disconnect option; distinct = distinct "
                "(assignment, tube counts, numeric types)")
    ctx.trusted = ["Lean 4 kernel + Mathlib (propext, Classical.choice, Quot.sound)",
                   "correspondence harness harness/c04.py (stub tube solver in place of the FEM tube; canonical forms)",
                   "networkx edge/component iteration order is not modelled (canonical forms are compared)",
                   "numpy.linalg.solve in newton and in the independent direct-stiffness solution"]
    ctx.assumptions = ["at least one tube in the receiver (make_network raises ValueError without any tube)",
                       "stub tubes are linear thermal bars; Newton convergence for nonlinear tubes is C17",
                       "forces are well above the absolute Newton tolerance (1e-4) of SpringSystemSolver"]
    thm_ok = common.lean_stage(ctx, [("SrProps.C04", "SrProps/C04.lean", "SrProps.C04")])
    drv = common.LeanDriver(["SrModel.Spring"])
    rng = ctx.rng

    # ---- case generation ---------------------------------------------------
    descs = []
    maxP = 2 if ctx.quick() else 3
    tcount = 0
    for P in range(1, maxP + 1):
        for ntubes in itertools.product((1, 2, 3), repeat=P):
            for letters in itertools.product("drs", repeat=P + 1):
                types = []
                for l in letters:
                    types.append(NUMTYPES[tcount % 4] if l == "s" else None)
                    tcount += (l == "s")
                descs.append(("exhaustive", gen_desc(rng, letters, ntubes, types)))
    n_exh = len(descs)
    if ctx.quick():
        # a sample of the P = 3 assignments (thorough does all of them)
        for _ in range(150):
            letters = [rng.choice("drs") for _ in range(4)]
            descs.append(("sampleP3", gen_desc(rng, letters, [rng.randint(1, 3) for _ in range(3)])))
    for _ in range(100 if ctx.quick() else 600):
        P = rng.randint(1, 5)
        ntubes = [rng.randint(0, 4) for _ in range(P)]
        if sum(ntubes) == 0:
            ntubes[rng.randrange(P)] = 1
        letters = [rng.choice("drs") for _ in range(P + 1)]
        descs.append(("random", gen_desc(rng, letters, ntubes)))

    # ---- (T) topology correspondence --------------------------------------
    answers = drv.ask([lean_line(d) for _, d in descs])
    mism, unoriented = [], []
    for (suite, d), ans in zip(descs, answers):
        real = real_topology(d)
        model = parse_answer(ans)
        letters = opt_letter(d["recv"]) + "".join(opt_letter(o) for o, _ in d["panels"])
        key = (letters, tuple(n for _, n in d["panels"]), tuple(x[0] for x in [d["recv"]] + [o for o, _ in d["panels"]]))
        ctx.case(("T",) + key, nontrivial=("d" in letters or "r" in letters),
                 tag="topology/%s/P%d" % (suite, len(d["panels"])),
                 sample={"suite": "topology", "input": describe(d), "real_components": str(real.get("comps"))[:300], "model": ans[:300]})
        diff = topo_diff(real, model)
        if diff:
            mism.append((d, diff))
        if model.get("err") is None and not model.get("oriented", True):
            unoriented.append(d)
    ctx.obligation("correspondence (T): make_network/remove_rigid/split_disconnect/validate_solve/dof_maps == "
                   "buildNetwork/reduce/validateSolve/dofMaps (exhaustive P<=%d + random)" % maxP,
                   not mism, "%d mismatches of %d; first: %s" % (len(mism), len(descs), [(describe(m[0]), m[1]) for m in mism[:1]]))
    ctx.extra["topology_cases"] = len(descs)
    ctx.extra["topology_exhaustive_cases"] = n_exh

    # ---- (G) generic multigraphs -------------------------------------------
    gcases = [generic_case(rng) for _ in range(1000 if ctx.quick() else 5000)]
    ganswers = drv.ask([generic_line(c) for c in gcases])
    gmism, gerr_kinds = [], 0
    for c, ans in zip(gcases, ganswers):
        real = generic_real(c)
        model = parse_answer(ans)
        nrig = sum(1 for e in c["edges"] if e[2] == "r")
        ctx.case(("G", generic_line(c)), nontrivial=nrig > 0,
                 tag="generic/%s" % ("ok" if real["err"] is None else "raises"))
        if (real["err"] is None) != (model["err"] is None):
            gmism.append((c, "outcome: real %s model %s" % (real["err"], model["err"])))
        elif real["err"] is None:
            if real["comps"] != model["comps"] or real["rep"] != model["rep"]:
                gmism.append((c, "real %s / %s model %s / %s" % (real["comps"], real["rep"], model["comps"], model["rep"])))
        elif real["err"] != model["err"]:
            # which of several possible errors is raised first depends on networkx' edge order,
            # which is not modelled: exact only when there is a single rigid edge
            if nrig == 1:
                gmism.append((c, "error kind: real %s model %s" % (real["err"], model["err"])))
            else:
                gerr_kinds += 1
    ctx.obligation("correspondence (G): remove_rigid/split_disconnect on random multigraphs == model (outcome, "
                   "components, representatives, error kind)", not gmism,
                   "%d mismatches of %d; first: %s; %d multi-rigid cases raise a different (order-dependent) error kind"
                   % (len(gmism), len(gcases), gmism[:1], gerr_kinds))

    # ---- (S) property predicate on the real solve + (A) assembly correspondence
    pred_bad, rj_lines, rj_real, alone_bad = [], [], [], []
    for suite, d in descs:
        bad, r = predicate(d, want_subs=True)
        letters = opt_letter(d["recv"]) + "".join(opt_letter(o) for o, _ in d["panels"])
        ctx.case(("S", letters, tuple(n for _, n in d["panels"]), tuple(d["k"])), nontrivial=("d" in letters or "r" in letters),
                 tag="solve/%s/P%d" % (suite, len(d["panels"])))
        if bad:
            pred_bad.append((d, bad))
            continue
        # disconnected tubes against a real stand-alone solve (first disconnected tube of the case)
        tid = 0
        for o, n in d["panels"]:
            if o == ["str", "disconnect"] and n > 0:
                a = alone_check(d, tid)
                got = r["tubes"][tid]._verif_dump[len(d["times"]) - 1][0]
                if abs(a - got) > 1e-9 * max(abs(a), 1e-300):
                    alone_bad.append((d, ["tube %d disconnected: top displacement %.12g, solved alone %.12g" % (tid, got, a)]))
                break
            tid += n
    pred_bad += alone_bad
    rj_crash = []
    for suite, d in descs:
        try:
            for line, real in rj_cases(d, rng):
                rj_lines.append(line)
                rj_real.append((d, real))
        except Exception as e:  # noqa
            rj_crash.append((d, "%s: %s" % (type(e).__name__, str(e)[:100])))
    ctx.obligation("property predicate on every real solve (completes, balance, rigid, alone, k*dd, direct stiffness)",
                   not pred_bad, "%d cases violate; first: %s" % (len(pred_bad), [(describe(p[0]), p[1][:2]) for p in pred_bad[:1]]))
    rj_ans = drv.ask(rj_lines)
    rj_bad = []
    worst = 0.0
    for (d, real), ans, line in zip(rj_real, rj_ans, rj_lines):
        err = rj_compare(real, ans)
        worst = max(worst, err)
        ctx.case(("A", line), nontrivial=True, tag="assembly")
        if not err <= 1e-9:
            rj_bad.append((d, err, line))
    rj_bad += [(d, float("inf"), msg) for d, msg in rj_crash]
    ctx.obligation("correspondence (A): real fj/RJ == assembleF/assembleJ on Float (rel 1e-9)", not rj_bad,
                   "%d of %d differ (%d could not be evaluated), worst relative difference %.3g; first: %s"
                   % (len(rj_bad), len(rj_lines), len(rj_crash), worst, [(describe(x[0]), x[1]) for x in rj_bad[:1]]))

    # ---- (F) full system solve with FEM tubes -----------------------------
    fem_bad = []
    fem_descs = []
    for letters in itertools.product("drs", repeat=3):
        fd = {"recv": enc_of(letters[0], rng), "panels": [[enc_of(l, rng), 1] for l in letters[1:]],
              "dT": [float(rng.uniform(50.0, 300.0)) for _ in range(2)], "times": [0.0, 1.0],
              "p": [rng.choice([0.0, 4.0, 16.0]) for _ in range(2)]}
        fem_descs.append(fd)
    if not ctx.quick():
        for _ in range(20):
            P = rng.randint(1, 3)
            nts = [rng.randint(1, 2) for _ in range(P)]
            fem_descs.append({"recv": enc_of(rng.choice("drs"), rng), "panels": [[enc_of(rng.choice("drs"), rng), n] for n in nts],
                              "dT": [float(rng.uniform(50.0, 300.0)) for _ in range(sum(nts))], "times": [0.0, 1.0],
                              "p": [rng.choice([0.0, 4.0, 16.0]) for _ in range(sum(nts))]})
    for fd in fem_descs:
        bad, _ = fem_predicate(fd)
        letters = opt_letter(fd["recv"]) + "".join(opt_letter(o) for o, _ in fd["panels"])
        ctx.case(("F", letters, tuple(n for _, n in fd["panels"])), nontrivial=True, tag="fem/" + letters[0])
        if bad:
            fem_bad.append((fd, bad))
    # option study: ONE receiver (same tube, material and solver objects) re-solved with the connection options
    # changed in place; every re-solve must be as exact as the first solve of a fresh model
    n_sweeps = 2 if ctx.quick() else 8
    for k in range(n_sweeps):
        nts = [rng.randint(1, 2) for _ in range(2)]
        dT = [float(rng.uniform(50.0, 300.0)) for _ in range(sum(nts))]
        prs_k = [rng.choice([0.0, 8.0]) for _ in range(sum(nts))]
        keep = {}
        seq = [rng.choice(["rrr", "srs", "ssr", "drs", "rsd", "sss", "rdr"]) for _ in range(4)]
        hist = []
        for j, letters in enumerate(seq):
            fd = {"recv": enc_of(letters[0], rng), "panels": [[enc_of(l, rng), n] for l, n in zip(letters[1:], nts)],
                  "dT": dT, "times": [0.0, 1.0], "p": prs_k}
            fd["history"] = list(hist)       # the earlier solves of the same receiver object, for the replay
            hist.append({k_: v_ for k_, v_ in fd.items() if k_ != "history"})
            fem_descs.append(fd)
            bad, _ = fem_predicate(fd, keep)
            ctx.case(("F-resolve", k, j, letters, tuple(nts)), nontrivial=True, tag="fem-resolve/%d" % j)
            if bad:
                fem_bad.append((fd, ["re-solve %d of one receiver object (options set in place, sequence %s): %s" % (j, seq, b) for b in bad]))
                break
    ctx.obligation("property predicate on SpringSystemSolver.solve with 1-D elastic FEM tubes (completes; "
                   "disconnected = free growth; rigid = equal strain)", not fem_bad,
                   "%d of %d violate; first: %s" % (len(fem_bad), len(fem_descs), [(describe(p[0]), p[1][:2]) for p in fem_bad[:1]]))
    ctx.exhaustive = True
    ctx.extra["solve_cases"] = len(descs)
    ctx.extra["assembly_cases"] = len(rj_lines)
    ctx.extra["fem_cases"] = len(fem_descs)

    # ---- outcomes ------------------------------------------------------------
    def size(d):
        return (len(d["panels"]), sum(n for _, n in d["panels"]))

    if pred_bad or fem_bad:
        if pred_bad:
            pred_bad.sort(key=lambda x: size(x[0]))
            d, bad = pred_bad[0]
            ctx.violation("real spring system solve (stub tubes), %s: %s" % (describe(d), bad[0]),
                          {"suite": "stub", "desc": d, "failures": bad, "n_failing_cases": len(pred_bad)},
                          signature="c04:" + bad[0].split(":")[0][:40])
        else:
            d, bad = fem_bad[0]
            ctx.violation("SpringSystemSolver.solve (FEM tubes), %s: %s" % (describe(d), bad[0]),
                          {"suite": "fem", "desc": d, "failures": bad, "n_failing_cases": len(fem_bad)},
                          signature="c04fem:" + bad[0].split(":")[0][:40])
    elif mism or gmism or rj_bad or not thm_ok:
        if mism:
            what = "model and code disagree on the reduced network of %d inputs but no solve violates the property" % len(mism)
        elif gmism:
            what = "model and code disagree on %d hand-built networks (not reachable from make_network)" % len(gmism)
        elif rj_bad:
            what = "model and code disagree on the assembled force/Jacobian of %d sub-networks" % len(rj_bad)
        else:
            what = "a C04 theorem no longer checks"
        ctx.violation(what, {"topology_mismatches": [(m[0], m[1]) for m in mism[:3]],
                             "generic_mismatches": gmism[:3], "assembly_mismatches": [(x[0], x[1], x[2]) for x in rj_bad[:3]],
                             "lean": ctx.extra.get("lean_errors"), "theorems": ctx.extra.get("broken_theorems"),
                             "correspondence": "harness/c04.py vs SrModel.Spring"}, no_input=True)
    return "proof"


def replay(obj):
    r = obj["replay"]
    if "desc" not in r:
        print("replay names no input:", r)
        return 1
    d = r["desc"]
    print("input:", describe(d))
    if r.get("suite") == "fem":
        keep = {} if d.get("history") else None
        for hprev in d.get("history", []):
            print("earlier solve of the same receiver object:", describe(hprev), "->", fem_predicate(hprev, keep)[0] or "ok")
        bad, res = fem_predicate(d, keep)
        print("per-tube (axial strain, axial stress, spread):", res)
    else:
        print("tube stiffness:", d["k"], "thermal growth:", d["dth"])
        bad = predicate(d)
        if not bad:
            tid = 0
            for o, n in d["panels"]:
                if o == ["str", "disconnect"] and n > 0:
                    a = alone_check(d, tid)
                    print("tube %d solved alone: %.12g" % (tid, a))
                tid += n
        try:
            print("real reduced network:", real_topology(d).get("comps"))
        except Exception as e:  # noqa
            print("real reduce_graph raises:", e)
    for b in bad:
        print("  FAILS:", b)
    print("property holds on this input" if not bad else "property violated on this input")
    return 1 if bad else 0


if __name__ == "__main__":
    sys.exit(common.main("C04", run, replay))
