"""Harness-side shim (never installed into /repo or site-packages).

scikit-fem 3.2.0 declares a dataclass field with a numpy.ndarray default, which
Python >= 3.11 rejects ("mutable default ... use default_factory").  That is a
third-party incompatibility of the sandbox, not srlife behaviour, so the harness
relaxes the check while importing: dataclasses._get_field is re-created from
its own source with the hashability test switched off.
"""
import dataclasses as _dc
import inspect as _inspect

try:
    _src = _inspect.getsource(_dc._get_field)
    if "f.default.__class__.__hash__ is None" in _src:
        _src = _src.replace("f.default.__class__.__hash__ is None", "False")
        _ns = {}
        exec(compile(_src, "<verif-shim dataclasses._get_field>", "exec"), _dc.__dict__, _ns)
        _dc._get_field = _ns["_get_field"]
except Exception:  # pragma: no cover - the shim must never break an import
    pass
