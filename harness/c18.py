"""C18 — film coefficient follows the documented correlation and is physically admissible.

Lean: SrModel/Fluid.lean (model), SrProofs/Fluid.lean, SrProps/C18.lean (theorems over the reals),
      Gen/FluidData.lean (REGENERATED on every run by gen/gen_fluid.py from the XML data files and the
      signature defaults of ThermalFluidMaterial.__init__).
Tie:  (a) translator self-check: the constants the Lean driver prints from Gen.FluidData equal, exactly,
      the attributes of the objects `library.load_thermal_fluid` builds (float(Fraction) == attribute);
      (b) correspondence of T_effective / reynolds / prandtl / nusselt / film_coefficient / cp / rho / mu / k
      between the real jax code (float64) and the model on `Float`, relative tolerance 1e-10 (both
      sides evaluate the same formula in binary64; association order is the same, but XLA may
      contract a*b+c and its log/pow differ from libm's in the last digits), for all shipped
      (file, variant) and random polynomial fluids, temperatures inside / outside / on the edge of
      the window, velocities 0 … 1e10 mm/h, radii 0.1 … 100, and the neighbourhood of the cut-off
      (including Re == cutoff exactly on exactly-representable fluids);
      (c) the laminar switch alone (`nusseltOf`) at the real code's own Reynolds/Prandtl numbers.
Search: the property predicate itself, evaluated on the real code against an independent numpy
      computation: finite, > 0, >= film_min, == max(Nu k(T)/(2r), film_min); Re < cutoff => Nu ==
      laminar_value; Re >= cutoff => Nu ~ Gnielinski(Re, Pr) with Re, Pr from the polynomials at the
      clipped temperature; nusselt(T) == nusselt(clip T); non-decreasing in u on turbulent sweeps.
"""
import os
import sys
import math

sys.path.insert(0, os.path.dirname(os.path.abspath(__file__)))
sys.path.insert(0, os.path.join(os.path.dirname(os.path.dirname(os.path.abspath(__file__))), "gen"))
import common
from common import REPO
import numpy as np
from fractions import Fraction

REL = 1e-10  # correspondence tolerance (relative), see module docstring
SCALARS = ["film_min", "T_max", "T_min", "laminar_cutoff", "laminar_value"]


# ---------------------------------------------------------------------------
# fluids
# ---------------------------------------------------------------------------
def make_fluid(spec):
    """real object from a JSON-able spec"""
    from srlife import library
    from srlife.thermohydraulics import thermalfluid
    if spec["kind"] == "shipped":
        return library.load_thermal_fluid(spec["file"], spec["variant"])
    return thermalfluid.PolynomialThermalFluidMaterial(
        np.array(spec["cp"]), np.array(spec["rho"]), np.array(spec["mu"]), np.array(spec["k"]),
        **spec["scalars"])


def fluid_numbers(mat):
    """what the object actually holds (floats)"""
    return {"cp": [float(x) for x in np.asarray(mat.cp_poly)], "rho": [float(x) for x in np.asarray(mat.rho_poly)],
            "mu": [float(x) for x in np.asarray(mat.mu_poly)], "k": [float(x) for x in np.asarray(mat.k_poly)],
            "film_min": float(mat.film_min), "T_max": float(mat.T_max), "T_min": float(mat.T_min),
            "laminar_cutoff": float(mat.laminar_cutoff), "laminar_value": float(mat.laminar_value)}


def random_fluid(rng, wild=False):
    def poly(scale):
        deg = rng.choice([0, 1, 1, 2, 2, 3, 4])
        c0 = scale * 10 ** rng.uniform(-1, 1)
        cs = [c0]
        # higher-order terms small enough to keep the property positive on a window of ~2000 K
        for d in range(1, deg + 1):
            amp = 0.3 / deg if not wild else 3.0
            cs.append(rng.uniform(-amp, amp) * c0 / 2000.0 ** d)
        return list(reversed(cs))  # numpy order
    tmin = rng.choice([0.0, rng.uniform(-100, 700)])
    tmax = rng.choice([2000.0, tmin + rng.uniform(50, 1500)])
    return {"kind": "poly",
            "cp": poly(0.3), "rho": poly(1e-6), "mu": poly(5e-2 if rng.random() < 0.5 else 1e-4),
            "k": poly(3e-4 if rng.random() < 0.5 else 3e-5),
            "scalars": {"film_min": 10 ** rng.uniform(-10, -3), "T_max": tmax, "T_min": tmin,
                        "laminar_cutoff": rng.choice([2000.0, 2300.0, rng.uniform(1100, 5000)]),
                        "laminar_value": rng.choice([4.01, 3.66, rng.uniform(1, 10)])}}


def exact_fluid(rng):
    """all properties constant powers of two: Re = 2^a * u * 2 * r / 2^b is computed exactly"""
    cut = rng.choice([2000.0, 2048.0, 2300.0, 3000.0])
    return {"kind": "poly", "cp": [2.0 ** rng.randint(-3, 1)], "rho": [2.0 ** rng.randint(-3, 3)],
            "mu": [2.0 ** rng.randint(-3, 3)], "k": [2.0 ** rng.randint(-3, 1)],
            "scalars": {"film_min": 1e-8, "T_max": 2000.0, "T_min": 0.0, "laminar_cutoff": cut,
                        "laminar_value": 4.01}}


# ---------------------------------------------------------------------------
# real code and independent reference
# ---------------------------------------------------------------------------
def run_real(mat, T, u, r):
    """evaluate the real methods on arrays; returns dict of numpy arrays"""
    T, u, r = np.asarray(T, float), np.asarray(u, float), np.asarray(r, float)
    te = np.asarray(mat.T_effective(T))
    out = {"teff": te,
           "re": np.asarray(mat.reynolds(mat.T_effective(T), u, r)),
           "pr": np.asarray(mat.prandtl(mat.T_effective(T))),
           "nu": np.asarray(mat.nusselt(T, u, r)),
           "film": np.asarray(mat.film_coefficient(T, u, r)),
           "cp": np.asarray(mat.cp(T)), "rho": np.asarray(mat.rho(T)),
           "mu": np.asarray(mat.mu(T)), "k": np.asarray(mat.k(T)),
           "nu_clip": np.asarray(mat.nusselt(np.asarray(mat.T_effective(T)), u, r))}
    return {k: np.broadcast_to(v, T.shape).astype(float) for k, v in out.items()}


def gnielinski_np(re, pr):
    with np.errstate(all="ignore"):
        L = 0.79 * np.log(re) - 1.64
        f = 1.0 / (L * L)
        return (f / 8.0) * (re - 1000.0) * pr / (1.0 + 12.7 * np.sqrt(f / 8.0) * (np.cbrt(pr) ** 2 - 1.0))


def reference(num, T, u, r):
    """independent numpy computation of the documented correlation from the coefficient lists"""
    T, u, r = np.asarray(T, float), np.asarray(u, float), np.asarray(r, float)
    with np.errstate(all="ignore"):
        te = np.maximum(np.minimum(T, num["T_max"]), num["T_min"])
        rho, mu = np.polyval(num["rho"], te), np.polyval(num["mu"], te)
        k, cp = np.polyval(num["k"], te), np.polyval(num["cp"], te)
        re = rho * u * 2.0 * r / mu
        pr = cp * mu / k
        gn = gnielinski_np(re, pr)
        nu = np.where(re < num["laminar_cutoff"], num["laminar_value"], gn)
        film = np.maximum(nu * np.polyval(num["k"], T) / (2.0 * r), num["film_min"])
        # a property counts as (numerically) positive when it is not the result of a cancellation:
        # p(T) > 1e-6 * sum |c_i| |T|^i  (otherwise its last digits depend on a*b+c contraction)
        wellpos = np.ones(np.shape(te), bool)
        wellcond = np.ones(np.shape(te), bool)
        for nm, val in (("rho", rho), ("mu", mu), ("k", k), ("cp", cp)):
            wellpos &= val > 1e-6 * np.polyval(np.abs(num[nm]), np.abs(te))
            wellcond &= np.abs(val) > 1e-6 * np.polyval(np.abs(num[nm]), np.abs(te))
    return {"teff": te, "re": re, "pr": pr, "gn": gn, "nu": nu, "film": film, "wellpos": wellpos, "wellcond": wellcond,
            "rho_e": rho, "mu_e": mu, "k_e": k, "cp_e": cp, "k_raw": np.polyval(num["k"], T)}


def rel_close(a, b, rel):
    if a != a and b != b:
        return True
    if a == b:
        return True
    if math.isinf(a) or math.isinf(b):
        return False
    return abs(a - b) <= rel * max(abs(a), abs(b))


def predicate_point(num, real, ref, i, T, u, r, shipped=False):
    """the property at one input; returns list of failure strings (empty = holds).
    `real`/`ref` are dicts of arrays, `i` the index.  For a shipped fluid the positivity of the
    four properties at the clipped temperature is itself required (it is a theorem about the data)."""
    bad = []
    g = lambda d, k: float(d[k][i])
    cut, lam, fmin = num["laminar_cutoff"], num["laminar_value"], num["film_min"]
    film, nu, re, pr = g(real, "film"), g(real, "nu"), g(real, "re"), g(real, "pr")
    physical = bool(ref["wellpos"][i]) and math.isfinite(g(ref, "k_raw"))
    if shipped and not physical:
        bad.append("shipped fluid: a property is not positive at the clipped temperature %r: cp=%r rho=%r mu=%r k=%r" % (
            g(ref, "teff"), g(ref, "cp_e"), g(ref, "rho_e"), g(ref, "mu_e"), g(ref, "k_e")))
    # Reynolds / Prandtl are formed from the polynomials at the clipped temperature
    if not rel_close(g(real, "teff"), g(ref, "teff"), 0.0):
        bad.append("T_effective(%r) = %r, clip to the window gives %r" % (T, g(real, "teff"), g(ref, "teff")))
    if physical:
        if not rel_close(re, g(ref, "re"), 1e-12):
            bad.append("reynolds = %r, rho*u*2r/mu at the clipped temperature = %r" % (re, g(ref, "re")))
        if not rel_close(pr, g(ref, "pr"), 1e-12):
            bad.append("prandtl = %r, cp*mu/k at the clipped temperature = %r" % (pr, g(ref, "pr")))
    # the switch, decided on the code's own Reynolds number
    if re < cut:
        if nu != lam:
            bad.append("Re = %r < cutoff %r but Nu = %r is not the laminar value %r" % (re, cut, nu, lam))
    elif re >= cut and physical:
        gn = float(gnielinski_np(np.float64(re), np.float64(pr)))
        if not rel_close(nu, gn, 1e-9):
            bad.append("Re = %r >= cutoff %r but Nu = %r, Gnielinski(Re, Pr=%r) = %r" % (re, cut, nu, pr, gn))
    # clipping for the correlation
    if g(real, "nu_clip") != nu and not (nu != nu and g(real, "nu_clip") != g(real, "nu_clip")):
        bad.append("nusselt(T=%r) = %r differs from nusselt(clip T = %r) = %r" % (T, nu, g(ref, "teff"), g(real, "nu_clip")))
    # admissibility
    if (physical or shipped) and u >= 0 and math.isfinite(u) and r > 0:
        if not math.isfinite(film):
            bad.append("film coefficient %r is not finite" % film)
        elif not film > 0:
            bad.append("film coefficient %r is not positive" % film)
        elif film < fmin:
            bad.append("film coefficient %r is below the floor %r" % (film, fmin))
        expect = max(nu * g(ref, "k_raw") / (2.0 * r), fmin)
        if math.isfinite(expect) and not rel_close(film, expect, 1e-12):
            bad.append("film coefficient %r is not max(Nu*k(T)/(2r), film_min) = %r" % (film, expect))
    return bad


# ---------------------------------------------------------------------------
# case generation
# ---------------------------------------------------------------------------
def temps(rng, num, n):
    lo, hi = num["T_min"], num["T_max"]
    w = hi - lo
    out = [lo, hi, np.nextafter(lo, -np.inf), np.nextafter(hi, np.inf), lo - 1.0, hi + 1.0,
           lo - rng.uniform(1, 800), hi + rng.uniform(1, 3000)]
    while len(out) < n:
        out.append(lo + w * rng.random())
    rng.shuffle(out)
    return out[:n]


def velocities(rng, n):
    out = [0.0, 1e10, 1.0, 1e-3]
    while len(out) < n:
        out.append(10 ** rng.uniform(-3, 10))
    rng.shuffle(out)
    return out[:n]


def radii(rng, n):
    out = [0.1, 100.0]
    while len(out) < n:
        out.append(10 ** rng.uniform(-1, 2))
    rng.shuffle(out)
    return out[:n]


def cutoff_points(rng, num, n):
    """inputs whose Reynolds number is at / next to the cut-off"""
    pts = []
    for _ in range(n):
        T = num["T_min"] + (num["T_max"] - num["T_min"]) * rng.random()
        r = 10 ** rng.uniform(-1, 2)
        rho, mu = np.polyval(num["rho"], T), np.polyval(num["mu"], T)
        if not (rho > 0 and mu > 0):
            continue
        ustar = num["laminar_cutoff"] * mu / (rho * 2.0 * r)
        for j in (-3, -1, 0, 1, 3):
            uu = ustar
            for _ in range(abs(j)):
                uu = np.nextafter(uu, np.inf if j > 0 else -np.inf)
            pts.append((float(T), float(uu), float(r)))
        pts.append((float(T), float(ustar * (1 - 1e-6)), float(r)))
        pts.append((float(T), float(ustar * (1 + 1e-6)), float(r)))
    return pts


def fline(num, T, u, r):
    b = common.f2bits
    fs = lambda xs: ",".join(str(b(x)) for x in xs)
    return "c18 %d %d %d %d %d %s %s %s %s %d %d %d" % (
        b(num["film_min"]), b(num["T_max"]), b(num["T_min"]), b(num["laminar_cutoff"]), b(num["laminar_value"]),
        fs(num["cp"]), fs(num["rho"]), fs(num["mu"]), fs(num["k"]), b(T), b(u), b(r))


def nuline(num, re, pr):
    b = common.f2bits
    return "c18nu %d %d %d %d %d %d %d" % (
        b(num["film_min"]), b(num["T_max"]), b(num["T_min"]), b(num["laminar_cutoff"]), b(num["laminar_value"]),
        b(re), b(pr))


# ---------------------------------------------------------------------------
# translator self-check
# ---------------------------------------------------------------------------
def translator_selfcheck(ctx, drv, gen_defaults, gen_data):
    from srlife.thermohydraulics import thermalfluid
    import xml.etree.ElementTree as ET
    bad = []
    # what is in the data directory, enumerated independently of the translator
    ddir = os.path.join(REPO, "srlife", "data", "thermalfluid")
    found = []
    for fn in sorted(os.listdir(ddir)):
        if fn.endswith(".xml"):
            for m in ET.parse(os.path.join(ddir, fn)).getroot():
                found.append((fn[:-4], m.tag))
    n = int(drv.ask(["c18data n"])[0])
    lines = ["c18data defaults"] + ["c18data %d" % i for i in range(n)]
    ans = drv.ask(lines)
    q = lambda s: Fraction(s)
    dflt = [q(x) for x in ans[0].split(",")]
    base = thermalfluid.ThermalFluidMaterial()
    for name, val in zip(SCALARS, dflt):
        if float(val) != float(getattr(base, name)):
            bad.append("default %s: Lean %s, object %r" % (name, val, getattr(base, name)))
    lean_entries = []
    for a in ans[1:]:
        parts = a.split(" ")
        if len(parts) != 7:
            bad.append("unparsable entry %r" % a)
            continue
        lean_entries.append((parts[0], parts[1]))
        mat = make_fluid({"kind": "shipped", "file": parts[0], "variant": parts[1]})
        num = fluid_numbers(mat)
        for key, txt in zip(["cp", "rho", "mu", "k"], parts[2:6]):
            vals = [float(q(x)) for x in txt.split(",")]
            if vals != num[key]:
                bad.append("%s/%s %s_poly: Lean %s, object %s" % (parts[0], parts[1], key, vals, num[key]))
        for name, x in zip(SCALARS, parts[6].split(",")):
            if float(q(x)) != num[name]:
                bad.append("%s/%s %s: Lean %s, object %r" % (parts[0], parts[1], name, x, num[name]))
        ctx.case(("translator", parts[0], parts[1]), tag="translator entry")
    if lean_entries != found:
        bad.append("entries in Gen.FluidData %s != models in the data directory %s" % (lean_entries, found))
    ctx.obligation("translator self-check: Gen.FluidData constants == attributes of the loaded objects (exact)",
                   not bad, "; ".join(bad[:3]) or "%d (file, variant) entries + signature defaults" % n)
    return bad, found


# ---------------------------------------------------------------------------
# run
# ---------------------------------------------------------------------------
def monotone_sweeps(ctx, rng, specs, nper, npts):
    """turbulent sweeps on the real code: film must not decrease when u increases (Pr >= 0.7)"""
    fails, n = [], 0
    for spec in specs:
        mat = make_fluid(spec)
        num = fluid_numbers(mat)
        for _ in range(nper):
            T = num["T_min"] + (num["T_max"] - num["T_min"]) * rng.random()
            if rng.random() < 0.2:
                T = rng.choice([num["T_min"] - 50.0, num["T_max"] + 50.0])
            r = 10 ** rng.uniform(-1, 2)
            ref0 = reference(num, [T], [1.0], [r])
            if not ref0["wellpos"][0] or not ref0["pr"][0] >= 0.7 \
                    or not ref0["k_raw"][0] >= 0:
                continue
            ucut = num["laminar_cutoff"] * ref0["mu_e"][0] / (ref0["rho_e"][0] * 2.0 * r) * (1 + 1e-9)
            if not (0 < ucut < 1e10):
                continue
            if rng.random() < 0.5:
                us = np.geomspace(ucut, 1e10, npts)
            else:  # fine sweep: neighbouring velocities a few 1e-7 apart
                u0 = ucut * 10 ** rng.uniform(0, 3)
                us = u0 * (1 + 3e-7 * np.arange(npts))
            real = run_real(mat, np.full(npts, T), us, np.full(npts, r))
            film, re = real["film"], real["re"]
            n += npts
            ctx.case(("sweep", repr(spec.get("variant", spec.get("cp"))), T, r), tag="turbulent sweep",
                     nontrivial=True)
            for i in range(npts - 1):
                if re[i] >= num["laminar_cutoff"] and film[i + 1] < film[i] * (1 - 1e-12):
                    fails.append((spec, float(T), float(us[i]), float(us[i + 1]), float(r), float(film[i]), float(film[i + 1])))
                    break
    return fails, n


def run(ctx):
    import gen_fluid
    ctx.rule = ("fluids: every (file, variant) in srlife/data/thermalfluid + random polynomial fluids (degree 0-4, "
                "random scalars) + exactly-representable constant fluids; per fluid a product of temperatures "
                "(inside the window, on its edges, one ulp outside, far outside), velocities (0, log-uniform "
                "1e-3..1e10) and radii (0.1..100), plus points whose Reynolds number is at / within 3 ulp / within "
                "1e-6 of the cut-off. Non-trivial: everything except u = 0; distinct = distinct (fluid, T, u, r).")
    ctx.trusted = ["Lean 4 kernel + Mathlib (propext, Classical.choice, Quot.sound)",
                   "translator gen/gen_fluid.py (self-checked against the loaded objects on every run)",
                   "correspondence harness harness/c18.py; IEEE rounding of the Float instance vs the real-number theorems",
                   "jax/XLA evaluates jnp.polyval/log/power/where as documented"]
    ctx.assumptions = ["properties positive at the clipped temperature, u >= 0 finite, r > 0 for the admissibility part",
                       "Pr >= 0.7 and cutoff >= 1000 for monotonicity in u (holds for the shipped fluids on their windows: "
                       "checked by sampling here, not by a theorem)"]
    st = {}

    def gen():
        st["defaults"], st["data"] = gen_fluid.generate()

    thm_ok = common.lean_stage(ctx, [("SrProps.C18", "SrProps/C18.lean", "SrProps.C18")], gen=gen)
    drv = common.LeanDriver(["SrModel.Fluid", "Gen.FluidData"])
    tbad, found = translator_selfcheck(ctx, drv, st["defaults"], st["data"])

    rng = ctx.rng
    quick = ctx.quick()
    specs = [{"kind": "shipped", "file": f, "variant": v} for f, v in found]
    n_rand = 30 if quick else 300
    n_exact = 6 if quick else 30
    specs_rand = [random_fluid(rng, wild=(i % 5 == 4)) for i in range(n_rand)]
    specs_exact = [exact_fluid(rng) for _ in range(n_exact)]

    cases = []   # (spec, num, T, u, r, tag)
    mats = {}
    for si, spec in enumerate(specs + specs_rand + specs_exact):
        mat = make_fluid(spec)
        num = fluid_numbers(mat)
        mats[si] = (mat, num, spec)
        shipped = spec["kind"] == "shipped"
        nT, nu_, nr = (10, 8, 3) if shipped else (8, 5, 2)
        if not quick:
            nT, nu_, nr = nT * 2, nu_ * 2, nr * 2
        pts = [(T, u, r) for T in temps(rng, num, nT) for u in velocities(rng, nu_) for r in radii(rng, nr)]
        pts += cutoff_points(rng, num, 4 if quick else 12)
        if si >= len(specs) + len(specs_rand):
            # exact fluid: Re == cutoff exactly, and its two neighbours
            rho, mu = num["rho"][0], num["mu"][0]
            for r in (1.0, 4.0, 0.25):
                ustar = num["laminar_cutoff"] * mu / (rho * 2.0 * r)
                for uu in (ustar, float(np.nextafter(ustar, 0)), float(np.nextafter(ustar, np.inf))):
                    pts.append((500.0, uu, r))
        for (T, u, r) in pts:
            cases.append((si, float(T), float(u), float(r)))

    # ---- real code, per fluid, vectorised ----
    results = {}
    by_fluid = {}
    for idx, (si, T, u, r) in enumerate(cases):
        by_fluid.setdefault(si, []).append(idx)
    for si, idxs in by_fluid.items():
        mat, num, spec = mats[si]
        T = np.array([cases[i][1] for i in idxs])
        u = np.array([cases[i][2] for i in idxs])
        r = np.array([cases[i][3] for i in idxs])
        real = run_real(mat, T, u, r)
        ref = reference(num, T, u, r)
        for j, i in enumerate(idxs):
            results[i] = (real, ref, j)

    # ---- model ----
    lines = [fline(mats[si][1], T, u, r) for (si, T, u, r) in cases]
    nulines = [nuline(mats[c[0]][1], float(results[i][0]["re"][results[i][2]]), float(results[i][0]["pr"][results[i][2]]))
               for i, c in enumerate(cases)]
    answers = drv.ask(lines + nulines)
    ans_full, ans_nu = answers[:len(lines)], answers[len(lines):]

    names = ["teff", "re", "pr", "nu", "film", "cp", "rho", "mu", "k"]
    mism, pred_bad, ambiguous, illcond = [], [], 0, 0
    for i, (si, T, u, r) in enumerate(cases):
        mat, num, spec = mats[si]
        real, ref, j = results[i]
        re_real = float(real["re"][j])
        cut = num["laminar_cutoff"]
        regime = "laminar" if re_real < cut else "turbulent" if re_real >= cut else "nan"
        where = "inside" if num["T_min"] <= T <= num["T_max"] else "outside"
        near = abs(re_real - cut) <= 1e-5 * cut
        kind = spec["kind"] if si < len(specs) + len(specs_rand) else "exact"
        sample = None
        ok_line = ans_full[i] != "bad-op" and ans_nu[i] != "bad-op"
        if not ok_line:
            mism.append((i, "bad-op", lines[i][:80]))
        else:
            model = [common.bits2f(x) for x in ans_full[i].split(",")]
            mv = dict(zip(names, model))
            same_side = (mv["re"] < cut) == (re_real < cut)
            if not same_side:
                ambiguous += 1
            # polynomial values: 1e-10 relative to the size of the terms (a value produced by
            # cancellation carries the rounding of its terms); derived quantities are compared when the
            # four properties at the clipped temperature are not such cancellations
            te_j = float(ref["teff"][j])
            kraw_ok = abs(float(ref["k_raw"][j])) > 1e-6 * float(np.polyval(np.abs(num["k"]), abs(T)))
            for nm in names:
                if nm in ("nu", "film") and not same_side:
                    continue  # rounding put the two Reynolds numbers on different sides; see `nusseltOf` check
                a, bm = float(real[nm][j]), mv[nm]
                if nm in ("cp", "rho", "mu", "k"):
                    x = te_j if nm == "rho" else T
                    scale = float(np.polyval(np.abs(num[nm]), abs(x)))
                    if not (rel_close(a, bm, REL) or abs(a - bm) <= REL * scale):
                        mism.append((i, nm, a, bm))
                elif nm == "teff":
                    if a != bm:
                        mism.append((i, nm, a, bm))
                elif bool(ref["wellcond"][j]) and (nm != "film" or kraw_ok):
                    if not rel_close(a, bm, REL):
                        mism.append((i, nm, a, bm))
                else:
                    illcond += 1
            nu_model = common.bits2f(ans_nu[i])
            if not rel_close(float(real["nu"][j]), nu_model, REL):
                mism.append((i, "nusseltOf(re,pr of the code)", float(real["nu"][j]), nu_model))
            sample = {"fluid": spec.get("variant", "random polynomial"), "T": T, "u": u, "r": r,
                      "real": {k: float(real[k][j]) for k in ("re", "pr", "nu", "film")},
                      "model": {k: mv[k] for k in ("re", "pr", "nu", "film")}}
        ctx.case((si, T, u, r), nontrivial=(u != 0.0),
                 tag="%s/%s/T %s%s" % (kind, regime, where, "/at cut-off" if near else ""), sample=sample)
        pb = predicate_point(num, real, ref, j, T, u, r, shipped=(spec["kind"] == "shipped"))
        if pb:
            pred_bad.append((i, pb))
    ctx.extra["branch_ambiguous_cases"] = ambiguous
    ctx.extra["derived_quantities_skipped_ill_conditioned"] = illcond
    ctx.obligation("correspondence: T_effective/reynolds/prandtl/nusselt/film_coefficient/cp/rho/mu/k real (jax float64) "
                   "== model on Float (rel 1e-10)", not mism,
                   "%d mismatches of %d cases; first: %s" % (len(mism), len(cases), mism[:2]))
    ctx.obligation("property predicate (independent numpy reference) on every case", not pred_bad,
                   "%d of %d cases violate; first: %s" % (len(pred_bad), len(cases), pred_bad[:1]))

    # ---- parameters changed on an object that has already been evaluated (state kept between calls) ----
    mut_bad = []
    for k_mut in range(4 if quick else 20):
        spec = specs[k_mut % len(specs)]
        mat = make_fluid(spec)
        num0 = fluid_numbers(mat)
        n = 6
        T = np.array(temps(rng, num0, n)[:n], dtype=float)
        u = np.array(velocities(rng, n)[:n], dtype=float)
        r_ = np.array(radii(rng, n)[:n], dtype=float)
        run_real(mat, T, u, r_)                                   # first use with the parameters as loaded
        lo, hi = num0["T_min"], num0["T_max"]
        new = {"T_min": lo + 0.3 * (hi - lo), "T_max": hi - 0.3 * (hi - lo),
               "laminar_value": rng.choice([3.66, 5.0]), "laminar_cutoff": rng.choice([1500.0, 4000.0, 1.0e5]),
               "film_min": 10 ** rng.uniform(-7, -4)}
        for name, val in new.items():
            setattr(mat, name, val)
        num1 = fluid_numbers(mat)
        real, ref = run_real(mat, T, u, r_), reference(num1, T, u, r_)
        ctx.case(("mutated", k_mut), nontrivial=True, tag="parameters changed after first use")
        for j in range(n):
            pb = predicate_point(num1, real, ref, j, float(T[j]), float(u[j]), float(r_[j]))
            if pb:
                mut_bad.append(({"fluid": spec, "then_set": new, "T": float(T[j]), "u": float(u[j]), "r": float(r_[j]),
                                 "first_use": {"T": T.tolist(), "u": u.tolist(), "r": r_.tolist()}}, pb))
                break
    ctx.obligation("property predicate after the object's documented parameters (window, laminar value/cut-off, floor) "
                   "are changed following a first evaluation", not mut_bad,
                   "%d of %d objects fail; first: %s" % (len(mut_bad), 4 if quick else 20, [m[1][:1] for m in mut_bad[:1]]))

    # ---- a fluid written to a file and read back is the same fluid (window, floor, laminar cut-off and value) ----
    import tempfile
    from srlife.thermohydraulics import thermalfluid as _tf
    rt_bad = []
    rspecs = [s_ for s_ in specs_rand if s_ is not None][: (6 if quick else 40)]
    for k_rt, spec in enumerate(rspecs):
        mat = make_fluid(spec)
        num0 = fluid_numbers(mat)
        with tempfile.TemporaryDirectory() as dtmp:
            fn = os.path.join(dtmp, "fluid.xml")
            mat.save(fn, "m")
            mat2 = _tf.ThermalFluidMaterial.load(fn, "m")
        num1 = fluid_numbers(mat2)
        ctx.case(("file-roundtrip", k_rt), nontrivial=True, tag="fluid written to XML and read back")
        diff = [k for k in num0 if (list(num0[k]) != list(num1[k]) if isinstance(num0[k], (list, tuple)) else
                                    not (num0[k] == num1[k] or abs(num0[k] - num1[k]) <= 1e-15 * abs(num0[k])))]
        if diff:
            # where does it matter: a point below the written cut-off / outside the written window
            T = np.array(temps(rng, num0, 6)[:6], dtype=float)
            u = np.array(velocities(rng, 6)[:6], dtype=float)
            r_ = np.array(radii(rng, 6)[:6], dtype=float)
            a, b = run_real(mat, T, u, r_), run_real(mat2, T, u, r_)
            worst = float(np.nanmax(np.abs(np.array(a["film"]) - np.array(b["film"])) / (np.abs(np.array(a["film"])) + 1e-300)))
            rt_bad.append(({"fluid": spec, "roundtrip": True}, "after save -> load the fluid's %s changed: %s -> %s (film coefficient differs by up to %.3g relative on probe points)" % (
                diff, {k: num0[k] for k in diff}, {k: num1[k] for k in diff}, worst)))
    ctx.obligation("a fluid saved to XML and loaded back has the same polynomials, window, floor, laminar cut-off and laminar value",
                   not rt_bad, "%d of %d differ; first: %s" % (len(rt_bad), len(rspecs), [m[1][:300] for m in rt_bad[:1]]))

    # ---- monotonicity in u on turbulent sweeps (real code) ----
    sw_specs = specs + [s for s in specs_rand if s is not None][: (6 if quick else 60)]
    sw_fail, sw_n = monotone_sweeps(ctx, rng, sw_specs, 3 if quick else 12, 60 if quick else 200)
    ctx.obligation("property predicate: film coefficient non-decreasing in u on turbulent sweeps", not sw_fail,
                   "%d sweeps fail of %d points; first: %s" % (len(sw_fail), sw_n, sw_fail[:1]))
    ctx.extra["sweep_points"] = sw_n

    # shipped Prandtl numbers on the window (supports the Pr >= 0.7 hypothesis), sampled
    prmin = {}
    for si in range(len(specs)):
        mat, num, spec = mats[si]
        Ts = np.linspace(num["T_min"], num["T_max"], 2001)
        prmin["%s/%s" % (spec["file"], spec["variant"])] = float(np.min(np.asarray(mat.prandtl(Ts))))
    ctx.extra["shipped_prandtl_min_on_window"] = prmin
    ctx.obligation("shipped fluids: Pr >= 0.7 on the window (2001 samples each, real code)",
                   all(v >= 0.7 for v in prmin.values()), str(prmin))

    # shipped fluids on a grid of their whole window (the targeted search behind `shipped_props_positive`)
    grid_bad, ngrid = [], 0
    for si in range(len(specs)):
        mat, num, spec = mats[si]
        Ts = np.linspace(num["T_min"], num["T_max"], 401 if quick else 4001)
        for u in (1e3, 1e6, 1e9):
            uu, rr = np.full(Ts.shape, u), np.full(Ts.shape, 5.0)
            real, ref = run_real(mat, Ts, uu, rr), reference(num, Ts, uu, rr)
            for j in range(len(Ts)):
                ngrid += 1
                pb = predicate_point(num, real, ref, j, float(Ts[j]), u, 5.0, shipped=True)
                if pb:
                    grid_bad.append((si, float(Ts[j]), u, 5.0, pb))
        ctx.case(("shipped grid", spec["file"], spec["variant"]), tag="shipped window grid")
    ctx.extra["shipped_grid_points"] = ngrid
    ctx.obligation("property predicate: shipped fluids admissible on a grid of the whole window", not grid_bad,
                   "%d of %d grid points violate; first: %s" % (len(grid_bad), ngrid, grid_bad[:1]))

    # ---- outcomes ----
    if grid_bad and not pred_bad:
        # prefer an input where the coefficient itself is inadmissible
        grid_bad.sort(key=lambda x: not any("film coefficient" in m for m in x[4]))
        si, T, u, r, pb = grid_bad[0]
        msg = [m for m in pb if "film coefficient" in m] or pb
        ctx.violation("real thermalfluid code: " + msg[0],
                      {"fluid": mats[si][2], "T": T, "u": u, "r": r, "all_failures": pb,
                       "n_failing_grid_points": len(grid_bad)}, signature="c18:shipped-grid")
    elif pred_bad:
        # prefer a shipped fluid and a small description
        pred_bad.sort(key=lambda x: (mats[cases[x[0]][0]][2]["kind"] != "shipped", len(str(mats[cases[x[0]][0]][2]))))
        i, pb = pred_bad[0]
        si, T, u, r = cases[i]
        ctx.violation("real thermalfluid code: " + pb[0],
                      {"fluid": mats[si][2], "T": T, "u": u, "r": r, "all_failures": pb,
                       "n_failing_cases": len(pred_bad), "n_cases": len(cases)},
                      signature="c18:" + pb[0].split(" ")[0])
    elif rt_bad:
        rep_, msg = rt_bad[0]
        ctx.violation("real thermalfluid code: " + msg, rep_, signature="c18:file-roundtrip")
    elif mut_bad:
        rep_, pb = mut_bad[0]
        ctx.violation("real thermalfluid code, parameters changed after a first evaluation: " + pb[0],
                      dict(rep_, all_failures=pb, mutated=True), signature="c18:stale-parameters")
    elif sw_fail:
        spec, T, u1, u2, r, f1, f2 = sw_fail[0]
        ctx.violation("real film_coefficient decreases from %r to %r when u goes from %r to %r (turbulent)" % (f1, f2, u1, u2),
                      {"fluid": spec, "T": T, "u": u1, "u2": u2, "r": r, "sweep": True}, signature="c18:monotone")
    elif not all(v >= 0.7 for v in prmin.values()):
        ctx.violation("a shipped fluid has Pr < 0.7 on its window: the monotonicity theorem does not cover it",
                      {"prandtl_min": prmin}, no_input=True)
    elif mism or tbad or not thm_ok:
        what = ("model and code disagree on %d cases but no input violates the property" % len(mism)) if mism else \
            ("translator self-check failed" if tbad else "a C18 theorem no longer checks")
        firsts = []
        for m in mism[:5]:
            si, T, u, r = cases[m[0]]
            firsts.append({"fluid": mats[si][2], "T": T, "u": u, "r": r, "quantity": m[1], "real_vs_model": m[2:]})
        ctx.violation(what, {"mismatches": firsts, "translator": tbad[:5], "lean": ctx.extra.get("lean_errors"),
                             "theorems": ctx.extra.get("broken_theorems"),
                             "correspondence": "harness/c18.py vs SrModel.Fluid"}, no_input=True)
    return "proof"


def replay(obj):
    r = obj["replay"]
    if "fluid" not in r:
        print("replay names no input:", r)
        return 1
    mat = make_fluid(r["fluid"])
    if r.get("roundtrip"):
        import tempfile
        from srlife.thermohydraulics import thermalfluid as _tf
        with tempfile.TemporaryDirectory() as dtmp:
            fn = os.path.join(dtmp, "fluid.xml")
            mat.save(fn, "m")
            mat2 = _tf.ThermalFluidMaterial.load(fn, "m")
        a, b = fluid_numbers(mat), fluid_numbers(mat2)
        bad = [k for k in a if str(a[k]) != str(b[k])]
        for k in bad:
            print("  FAILS: %s written %r, read back %r" % (k, a[k], b[k]))
        print("property holds on this input" if not bad else "property violated on this input")
        return 1 if bad else 0
    if r.get("mutated"):
        fu = r["first_use"]
        run_real(mat, fu["T"], fu["u"], fu["r"])
        for name, val in r["then_set"].items():
            setattr(mat, name, val)
        print("first evaluated with the parameters as loaded, then set", r["then_set"])
    num = fluid_numbers(mat)
    if r.get("sweep"):
        real = run_real(mat, [r["T"], r["T"]], [r["u"], r["u2"]], [r["r"], r["r"]])
        print("film(u=%r) = %r, film(u=%r) = %r" % (r["u"], real["film"][0], r["u2"], real["film"][1]))
        badm = real["film"][1] < real["film"][0] * (1 - 1e-12)
        print("property violated on this input" if badm else "property holds on this input")
        return 1 if badm else 0
    real = run_real(mat, [r["T"]], [r["u"]], [r["r"]])
    ref = reference(num, [r["T"]], [r["u"]], [r["r"]])
    pb = predicate_point(num, real, ref, 0, r["T"], r["u"], r["r"], shipped=(r["fluid"]["kind"] == "shipped"))
    print("fluid:", r["fluid"])
    print("T=%r u=%r r=%r: T_eff=%r Re=%r Pr=%r Nu=%r film=%r" % (
        r["T"], r["u"], r["r"], *[float(real[k][0]) for k in ("teff", "re", "pr", "nu", "film")]))
    for b in pb:
        print("  FAILS:", b)
    print("property holds on this input" if not pb else "property violated on this input")
    return 1 if pb else 0


if __name__ == "__main__":
    sys.exit(common.main("C18", run, replay))
