"""C10 — a structural step succeeds only through converged, contiguous sub-increments.

Lean: SrModel/Adaptive.lean (model), SrProofs/Adaptive.lean, SrProps/C10.lean (theorems).
Tie:  exhaustive correspondence. The real `PythonTubeSolver.solve` is run on real Tube/State
      objects (1D, 2D, 3D) with `solve_python_1d/2d/3d` replaced by a recorder that converges or
      raises RuntimeError according to a bit pattern; the complete decision tree of patterns is
      enumerated for every max_divide in 1..4 (quick: 1..3 in 2D/3D) and both modes, and each trace
      and outcome is compared with `Adaptive.run` evaluated by the Lean driver.
Search: the same traces are checked against the property predicate itself (independent of the model).
"""
import os
import sys

sys.path.insert(0, os.path.dirname(os.path.abspath(__file__)))
import common
import numpy as np


def make_problem(ndim, md, forced, verbose=False):
    from srlife import structural, receiver
    from neml import elasticity, models

    dims = {1: (3, 1, 1), 2: (3, 4, 1), 3: (3, 4, 2)}[ndim]
    tube = receiver.Tube(5.0, 0.5, 2.5, 3, 4, 2)
    if ndim == 1:
        tube.make_1D(tube.h / 2, 0.0)
    elif ndim == 2:
        tube.make_2D(tube.h / 2)
    tprog = 2 ** md
    # two steps, so that an attempt running past the end of step 1 is recorded rather than
    # rejected by the pressure interpolant
    times = np.array([0.0, float(tprog), 4.0 * float(tprog)])
    tube.set_times(times)
    # pressure(t) = t so that the pressure handed to an attempt identifies its progress value
    tube.set_pressure_bc(receiver.PressureBC(times, np.array(times)))
    emodel = elasticity.IsotropicLinearElasticModel(150000.0, "youngs", 0.3, "poissons")
    mat = models.SmallStrainElasticity(emodel)
    solver = structural.PythonTubeSolver(max_divide=md, force_divide=forced, verbose=verbose)
    state = solver.init_state(tube, mat)
    return structural, solver, tube, state, tprog


class Recorder:
    """stands in for solve_python_{1,2,3}d"""

    def __init__(self, bits, which):
        self.bits, self.calls, self.which = bits, [], which

    def __call__(self, state_last, t_last, p_last, state_next, t_next, p_next, top, opts):
        n = len(self.calls)
        ok = self.bits[n] if n < len(self.bits) else True
        tag = getattr(state_last, "_verif_tag", ("start", 0.0, True))
        self.calls.append(dict(n=n, t_last=float(t_last), p_last=float(p_last), t_next=float(t_next),
                               p_next=float(p_next), top=float(top), ok=ok, last_tag=tag,
                               last_id=id(state_last), next_id=id(state_next)))
        state_next._verif_tag = ("attempt%d" % n, float(t_next), ok)
        self.last_next = state_next
        if not ok:
            raise RuntimeError("verif: scripted non-convergence")


def run_real(ndim, md, forced, bits, dtop=0.8, prob=None, verbose=False):
    import contextlib, io
    structural, solver, tube, state, tprog = prob or make_problem(ndim, md, forced, verbose)
    rec = Recorder(bits, ndim)
    names = ["solve_python_1d", "solve_python_2d", "solve_python_3d"]
    saved = {n: getattr(structural, n) for n in names}
    wrong = []

    def mk(d):
        def f(*a):
            if d != ndim:
                wrong.append(d)
            return rec(*a)
        return f

    for k, n in enumerate(names):
        setattr(structural, n, mk(k + 1))
    try:
        state_n = state.copy()
        try:
            with contextlib.redirect_stdout(io.StringIO()):      # the progress option prints
                ret = solver.solve(tube, 1, state_n, dtop)
            outcome = "ok"
        except RuntimeError as e:
            ret = None
            outcome = "raise"
        except Exception as e:  # anything else is not a documented outcome of a step
            ret = None
            outcome = "error:%s" % type(e).__name__
    finally:
        for n in names:
            setattr(structural, n, saved[n])
    return dict(outcome=outcome, calls=rec.calls, ret_id=id(ret) if ret is not None else None,
                ret_tag=getattr(ret, "_verif_tag", None) if ret is not None else None,
                tprog=tprog, dtop=dtop, wrong_dim=wrong)


def canon(r):
    """trace in the model's vocabulary: frm = progress value the handed-in state_last was solved for"""
    parts = []
    for c in r["calls"]:
        frm = c["last_tag"][1]
        parts.append("%d:%d:%d" % (round(frm), round(c["t_next"]), 1 if c["ok"] else 0))
    return r["outcome"] + " " + ",".join(parts)


def predicate(r, md, forced):
    """the property itself, evaluated on a recorded real execution; returns list of failures"""
    bad = []
    tprog, dtop = r["tprog"], r["dtop"]
    pos = 0.0  # end of last accepted attempt
    fails = 0
    budget = 1 if forced else md
    for c in r["calls"]:
        tag = c["last_tag"]
        if not tag[2]:
            bad.append("attempt %d starts from the state of a FAILED attempt (%s)" % (c["n"], tag[0]))
        if tag[1] != pos:
            bad.append("attempt %d starts from a state solved for %g, last accepted end is %g" % (c["n"], tag[1], pos))
        if c["t_last"] != tag[1]:
            bad.append("attempt %d: t_last=%g but its start state was solved for %g" % (c["n"], c["t_last"], tag[1]))
        if c["p_last"] != c["t_last"] or c["p_next"] != c["t_next"]:
            bad.append("attempt %d: pressure not the one at its start/end time" % c["n"])
        if not (c["t_next"] > c["t_last"]):
            bad.append("attempt %d has non-positive length (%g -> %g)" % (c["n"], c["t_last"], c["t_next"]))
        if abs(c["top"] - dtop * c["t_next"] / tprog) > 1e-12 * abs(dtop):
            bad.append("attempt %d: top displacement %g is not dtop*%g/%g" % (c["n"], c["top"], c["t_next"], tprog))
        if c["ok"]:
            pos = c["t_next"]
        else:
            fails += 1
    if r["outcome"] == "ok":
        if pos != tprog:
            bad.append("returned although accepted increments end at %g of %g" % (pos, tprog))
        if not r["calls"] or not r["calls"][-1]["ok"] or r["ret_id"] != r["calls"][-1]["next_id"]:
            bad.append("returned state is not the state of the last accepted attempt")
        if fails >= budget:
            bad.append("returned although %d failures reached the subdivision limit %d" % (fails, budget))
    elif r["outcome"] == "raise":
        if fails < budget:
            bad.append("raised with %d failures although the limit is %d" % (fails, budget))
    else:
        bad.append("step ended with an undocumented exception (%s)" % r["outcome"])
    for c in r["calls"]:
        if c["t_next"] > tprog:
            bad.append("attempt %d runs past the end of the step (%g > %g)" % (c["n"], c["t_next"], tprog))
    if r["wrong_dim"]:
        bad.append("dispatched to the wrong dimension solver %s" % r["wrong_dim"])
    return bad


def enumerate_patterns(ndim, md, forced, limit=None, verbose=False):
    """DFS over the decision tree of oracles; only consumed prefixes matter"""
    prob = make_problem(ndim, md, forced, verbose)
    stack = [[]]
    out = []
    while stack:
        bits = stack.pop()
        r = run_real(ndim, md, forced, bits, prob=prob)
        n = len(r["calls"])
        out.append((bits, r))
        if limit and len(out) >= limit:
            break
        for j in range(len(bits), min(n, 64)):
            stack.append(bits + [True] * (j - len(bits)) + [False])
    return out


def bits_str(bits):
    return "".join("1" if b else "0" for b in bits) or "-"


def run(ctx):
    ctx.rule = ("complete decision tree of convergence patterns (which attempts raise) for each "
                "(dimension, max_divide, mode); a case is non-trivial when at least one attempt fails; "
                "distinct = distinct (dim, md, mode, consumed pattern)")
    ctx.trusted = ["Lean 4 kernel + Mathlib (propext, Classical.choice, Quot.sound)",
                   "correspondence harness harness/c10.py (recorder in place of solve_python_1d/2d/3d)",
                   "what a converged increment computes is outside C10 (C11/C15/C17)"]
    ctx.assumptions = ["a non-converged increment surfaces as RuntimeError (as PythonSolver.solve raises)"]
    thm_ok = common.lean_stage(ctx, [("SrProps.C10", "SrProps/C10.lean", "SrProps.C10")])
    drv = common.LeanDriver(["SrModel.Adaptive"])
    configs = []
    for ndim in (1, 2, 3):
        for md in (1, 2, 3, 4):
            if ctx.quick() and md == 4 and ndim != 1:
                continue
            for forced in (False, True):
                configs.append((ndim, md, forced, False))
                if ndim == 1 or (md <= 2 and not ctx.quick()):
                    configs.append((ndim, md, forced, True))      # the documented progress option changes nothing
    allcases, lines = [], []
    for (ndim, md, forced, verbose) in configs:
        for bits, r in enumerate_patterns(ndim, md, forced, verbose=verbose):
            allcases.append((ndim, md, forced, bits, r, verbose))
            lines.append("c10 %d %d %s" % (md, 1 if forced else 0, bits_str(bits)))
    answers = drv.ask(lines)
    mism, pred_bad = [], []
    for (ndim, md, forced, bits, r, verbose), ans in zip(allcases, answers):
        key = (ndim, md, forced, bits_str(bits), verbose)
        ctx.case(key, nontrivial=(False in bits), tag="%dD/md%d/%s%s/%s" % (ndim, md, "forced" if forced else "adaptive", "/verbose" if verbose else "", r["outcome"]),
                 sample={"dim": ndim, "max_divide": md, "forced": forced, "verbose": verbose, "pattern": bits_str(bits), "real": canon(r), "model": ans})
        if canon(r).strip() != ans.strip():
            mism.append((key, canon(r), ans))
        pb = predicate(r, md, forced)
        if pb:
            pred_bad.append((key, pb, canon(r)))
    ctx.exhaustive = True
    ctx.obligation("correspondence: real PythonTubeSolver.solve traces == Adaptive.run (exhaustive pattern tree)",
                   not mism, "%d mismatches of %d; first: %s" % (len(mism), len(allcases), mism[:1]))
    ctx.obligation("property predicate on every real trace", not pred_bad,
                   "%d traces violate; first: %s" % (len(pred_bad), pred_bad[:1]))
    ctx.extra["traces_validated_against_impl"] = len(allcases)
    # ---- outcomes ----
    if pred_bad:
        # smallest failing input first
        pred_bad.sort(key=lambda x: (x[0][1], len(x[0][3]), x[0][0]))
        key, pb, tr = pred_bad[0]
        ctx.violation("real PythonTubeSolver.solve: " + pb[0],
                      {"dim": key[0], "max_divide": key[1], "forced": key[2], "pattern": key[3], "verbose": key[4],
                       "real_trace": tr, "all_failures": pb, "n_failing_patterns": len(pred_bad)},
                      signature="c10:" + pb[0].split(" ")[0])
    elif mism or not thm_ok:
        what = ("model and code disagree on %d traces but no trace violates the property" % len(mism)) if mism \
            else "a C10 theorem no longer checks"
        ctx.violation(what, {"mismatches": mism[:5], "lean": ctx.extra.get("lean_errors"),
                             "theorems": ctx.extra.get("broken_theorems"),
                             "correspondence": "harness/c10.py vs SrModel.Adaptive.run"}, no_input=True)
    return "proof"


def replay(obj):
    r = obj["replay"]
    if "pattern" not in r:
        print("replay names no input:", r)
        return 1
    bits = [] if r["pattern"] == "-" else [c == "1" for c in r["pattern"]]
    rr = run_real(r["dim"], r["max_divide"], r["forced"], bits, verbose=r.get("verbose", False))
    pb = predicate(rr, r["max_divide"], r["forced"])
    print("real trace:", canon(rr))
    for b in pb:
        print("  FAILS:", b)
    print("property holds on this input" if not pb else "property violated on this input")
    return 1 if pb else 0


if __name__ == "__main__":
    sys.exit(common.main("C10", run, replay))
