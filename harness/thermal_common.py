"""Shared by C02, C06, C12, C13: generator of thermal problems, capture of the linear system the
real `solve_step` solves, the request line for SrModel.Thermal, and comparison."""
import os
import sys

sys.path.insert(0, os.path.dirname(os.path.abspath(__file__)))
import numpy as np
import common

KINDS_INNER = ["ins", "fix", "flux", "conv", "film"]
KINDS_OUTER = ["ins", "fix", "flux", "conv"]


def mods():
    from srlife import receiver, thermal, materials
    return receiver, thermal, materials


class Case:
    """a thermal problem description that can be (re)built into real srlife objects"""

    def __init__(self, **kw):
        self.__dict__.update(kw)

    def to_json(self):
        d = dict(self.__dict__)
        for k, v in list(d.items()):
            if isinstance(v, np.ndarray):
                d[k] = v.tolist()
        return d

    @staticmethod
    def from_json(d):
        c = Case(**d)
        for k in ("times", "T0field", "inner_data", "inner_data2", "outer_data", "outer_data2", "mat_T", "mat_k", "mat_a"):
            if getattr(c, k, None) is not None:
                setattr(c, k, np.array(getattr(c, k), dtype=float))
        return c


def dyadic(rng, lo, hi, bits=6):
    """a dyadic rational in [lo, hi] (exact in binary64)"""
    n = 2 ** bits
    return lo + (hi - lo) * rng.randrange(0, n + 1) / n


def gen_case(rng, ndim=None, inner=None, outer=None, steady=None, const_mat=None, thick_ok=False,
             nsteps=None, bc_grid_same=True):
    ndim = ndim or rng.choice([1, 2, 3])
    r = rng.choice([2.0, 5.0, 10.0, 12.5, 30.0])
    t = r * rng.choice([0.05, 0.1, 0.125, 0.25, 0.4])
    h = rng.choice([1.0, 4.0, 25.0, 100.0])
    nr = rng.randint(2, 7)
    nt = rng.randint(3, 8)
    nz = rng.randint(2, 5)
    # keep the inner half-cell radius positive unless asked otherwise (known finding F17)
    if not thick_ok:
        while t / (nr - 1) >= 2.0 * (r - t):
            nr += 1
    inner = inner or rng.choice(KINDS_INNER)
    outer = outer or rng.choice(KINDS_OUTER)
    steady = rng.random() < 0.25 if steady is None else steady
    const_mat = rng.random() < 0.5 if const_mat is None else const_mat
    nsteps = nsteps or rng.randint(1, 3)
    steps_ = [rng.choice([0.125, 0.5, 1.0, 8.0, 64.0]) for _ in range(nsteps)]
    if nsteps >= 3 and rng.random() < 0.4:
        # a step size that comes back after a different one (ramp / hold / ramp): anything kept from one step to the next
        # must be keyed on the step size it was built for
        steps_[1] = rng.choice([x for x in [0.125, 0.5, 1.0, 8.0, 64.0] if x != steps_[0]])
        steps_[2] = steps_[0]
    times = np.cumsum([0.0] + steps_)
    decimal_grid = rng.random() < 0.25
    if decimal_grid:
        # the end of a decimal time grid: dt/substep is not exactly representable, so a sub-step loop that marches in
        # time (t += dt/substep) instead of counting ends one ulp short of the step end and takes an extra sub-step
        times = np.linspace(0.0, rng.choice([1.0, 10.0, 12.0]), rng.choice([8, 11, 13]))[-(nsteps + 1):]
    ntime = len(times)
    T0 = dyadic(rng, 300.0, 900.0)

    def wall_data(kind):
        if kind == "ins":
            return None, None
        if kind in ("fix",):
            return np.array([[[dyadic(rng, 300.0, 900.0) for _ in range(nz)] for _ in range(nt)] for _ in range(ntime)]), None
        if kind == "flux":
            return np.array([[[dyadic(rng, -0.25, 0.5) for _ in range(nz)] for _ in range(nt)] for _ in range(ntime)]), None
        if kind == "conv":
            return np.array([[dyadic(rng, 300.0, 900.0) for _ in range(nz)] for _ in range(ntime)]), None
        if kind == "film":
            return (np.array([dyadic(rng, 300.0, 900.0) for _ in range(nz)]),
                    np.array([dyadic(rng, 0.0, 8.0) for _ in range(nz)]))
        raise ValueError(kind)

    idata, idata2 = wall_data(inner)
    odata, odata2 = wall_data(outer)
    if const_mat:
        mat_T = None
        mat_k = np.array([dyadic(rng, 5.0, 40.0)])
        mat_a = np.array([dyadic(rng, 1.0, 20.0)])
    else:
        mat_T = np.array([-20000.0, 500.0, 1000.0, 40000.0])
        mat_k = np.array([dyadic(rng, 5.0, 40.0) for _ in range(4)])
        mat_a = np.array([dyadic(rng, 1.0, 20.0) for _ in range(4)])
    film = dyadic(rng, 0.0, 8.0)
    # initial field: uniform or random (random fields make the maximum principle non-trivial)
    T0field = None
    if rng.random() < 0.5:
        shape = {1: (nr,), 2: (nr, nt), 3: (nr, nt, nz)}[ndim]
        T0field = np.array([dyadic(rng, 300.0, 900.0) for _ in range(int(np.prod(shape)))]).reshape(shape)
    return Case(ndim=ndim, r=r, t=t, h=h, nr=nr, nt=nt, nz=nz, inner=inner, outer=outer, steady=steady,
                times=times, T0=T0, T0field=T0field, inner_data=idata, inner_data2=idata2,
                outer_data=odata, outer_data2=odata2, mat_T=mat_T, mat_k=mat_k, mat_a=mat_a,
                film=film, substep=(rng.choice([4, 5, 10]) if decimal_grid else rng.choice([1, 1, 2, 3])),
                # slice height of the 1D/2D abstractions: mid-height (the usual choice), the two legal ends
                # (0.0 is falsy in Python) or anywhere in between; boundary data vary along z
                plane=(None if ndim == 3 else rng.choice([None, None, 0.0, 1.0, dyadic(rng, 0.0, 1.0)])),   # fraction of h
                angle=0.0, bc_nt=nt)


def _tent(ks, v):
    """piecewise-linear table equal to v at every knot of ks, 1.5 v halfway between knots, 0.5 v / 1.6 v outside"""
    Ts, hs = [-1.0e5, ks[0] - 200.0], [0.5 * v, 0.5 * v]
    for a, b in zip(ks, ks[1:] + [None]):
        Ts.append(a); hs.append(v)
        if b is not None:
            Ts.append(0.5 * (a + b)); hs.append(1.5 * v)
    Ts += [ks[-1] + 200.0, 1.0e5]
    hs += [1.6 * v, 1.6 * v]
    return np.array(Ts), np.array(hs)


def build(case):
    """real srlife objects for a case: (tube, material, fluid)"""
    receiver, thermal, materials = mods()
    tube = receiver.Tube(case.r, case.t, case.h, case.nr, case.nt, case.nz, T0=case.T0)
    plane = case.h / 2 if case.plane is None else case.plane * case.h   # case.plane is a fraction of the height
    if case.ndim == 1:
        tube.make_1D(plane, case.angle)
    elif case.ndim == 2:
        tube.make_2D(plane)
    tube.set_times(np.array(case.times))

    bc_nt = getattr(case, "bc_nt", None) or case.nt

    def mk(kind, rad, data, data2):
        if kind == "ins":
            return None
        if kind == "fix":
            return receiver.FixedTempBC(rad, case.h, bc_nt, case.nz, np.array(case.times), data)
        if kind == "flux":
            return receiver.HeatFluxBC(rad, case.h, bc_nt, case.nz, np.array(case.times), data)
        if kind == "conv":
            return receiver.ConvectiveBC(rad, case.h, case.nz, np.array(case.times), data)
        if kind == "film":
            return receiver.FilmCoefficientConvectiveBC(rad, case.h, case.nz, data, data2)
        raise ValueError(kind)

    bi = mk(case.inner, case.r - case.t, case.inner_data, case.inner_data2)
    bo = mk(case.outer, case.r, case.outer_data, case.outer_data2)
    if bi is not None:
        tube.set_bc(bi, "inner")
    if bo is not None:
        tube.set_bc(bo, "outer")
    if case.mat_T is None:
        mat = materials.ConstantThermalMaterial("mat", float(case.mat_k[0]), float(case.mat_a[0]))
    else:
        mat = materials.PiecewiseLinearThermalMaterial("mat", case.mat_T, case.mat_k, case.mat_a)
    # the tube material's own film coefficient is `case.film`; a "default" entry with another value is present in
    # two of three cases (it must lose against the material's entry), and in the third the material is found only
    # through "default"
    sel = int(round(case.film * 64)) % 3
    other = 2.0 * case.film + 1.0
    table = {"default": case.film} if sel == 0 else ({"mat": case.film, "default": other} if sel == 1
                                                     else {"default": other, "mat": case.film})
    knots = None
    if getattr(case, "film_tdep", False):
        vals = [np.unique(np.asarray(d, dtype=float)) for kd, d in ((case.inner, case.inner_data), (case.outer, case.outer_data))
                if kd == "conv"]
        if vals and sum(len(v) for v in vals) <= 4:
            knots = np.concatenate(vals)
    if knots is not None:
        # a film coefficient that DEPENDS on temperature: the documented evaluation point of a ConvectiveBC is the
        # fluid temperature, so the table takes the value `film` at every fluid temperature of the case and very
        # different values (0.5x .. 1.6x) between and around them (where the wall temperatures are)
        ks = sorted(set(float(v) for v in knots))
        fluid = materials.PiecewiseLinearFluidMaterial({k: _tent(ks, v) for k, v in table.items()})
    elif int(round(case.film * 64)) % 2 == 0:
        fluid = materials.ConstantFluidMaterial(table)
    else:
        fluid = materials.PiecewiseLinearFluidMaterial({k: (np.array([-1.0e5, 1.0e5]), np.array([v, v])) for k, v in table.items()})
    return tube, mat, fluid


def problem(case, **kw):
    receiver, thermal, materials = mods()
    tube, mat, fluid = build(case)
    T0fn = None
    if case.T0field is not None:
        f = np.array(case.T0field)

        def T0fn(*mesh):
            # ghosted initial field: edge-extend the real field (periodic in theta)
            g = f
            if case.ndim >= 2:
                g = np.concatenate((g[:, -1:], g, g[:, :1]), axis=1)
            if case.ndim >= 3:
                g = np.concatenate((g[:, :, :1], g, g[:, :, -1:]), axis=2)
            g = np.concatenate((g[:1], g, g[-1:]), axis=0)
            return g
    prob = thermal.FiniteDifferenceImplicitThermalProblem(
        tube, mat, fluid, T0=T0fn, steady=case.steady, substep=kw.pop("substep", 1),
        rtol=kw.pop("rtol", 1e-10), atol=kw.pop("atol", 1e-9), miter=kw.pop("miter", 20), **kw)
    return prob, tube, mat, fluid


def initial_field(prob, case):
    if prob.T0 is not None:
        return np.array(prob.T0(*prob.mesh), dtype=float)
    return np.full(prob.dim, float(case.T0))


class Capture:
    """records (A, res, T) handed to spsolve on the first Newton iteration of a solve_step"""

    def __init__(self, thermal):
        self.thermal = thermal
        self.calls = []

    def __enter__(self):
        self.orig = self.thermal.sla.spsolve
        outer = self

        def spy(A, b, *a, **k):
            outer.calls.append((A.copy(), np.array(b, copy=True)))
            return outer.orig(A, b, *a, **k)

        self.thermal.sla = _Proxy(self.thermal.sla, spsolve=spy)
        return self

    def __exit__(self, *a):
        self.thermal.sla = self.thermal.sla._base


class _Proxy:
    def __init__(self, base, **over):
        self._base = base
        self._over = over

    def __getattr__(self, n):
        if n in self._over:
            return self._over[n]
        return getattr(self._base, n)


def wall_nodes(case):
    """(theta, z) of the wall nodes in loop order, computed independently of the solver"""
    if case.ndim >= 2:
        thetas = [2.0 * np.pi * j / case.nt for j in range(case.nt)]
    else:
        thetas = [case.angle]
    plane = case.h / 2 if case.plane is None else case.plane * case.h   # case.plane is a fraction of the height
    if case.ndim >= 3:
        zs = list(np.linspace(0, case.h, case.nz))
    else:
        zs = [plane]
    return [(th, z) for th in thetas for z in zs]


def wall_values(case, tube, mat, fluid, which, time):
    """model-side wall data (kind, A, B) evaluated through the BC objects' public methods at the
    documented wall coordinates"""
    kind = case.inner if which == "inner" else case.outer
    bc = tube.inner_bc if which == "inner" else tube.outer_bc
    pts = wall_nodes(case)
    if kind == "ins":
        return "ins", [], []
    if kind == "fix":
        return "fix", [float(np.ravel(bc.temperature(time, th, z))[0]) for th, z in pts], []
    if kind == "flux":
        return "flux", [float(np.ravel(bc.flux(time, th, z))[0]) for th, z in pts], []
    if kind == "conv":
        tf = [float(np.ravel(bc.fluid_temperature(time, z))[0]) for th, z in pts]
        hh = [float(case.film) for x in tf]      # the datum itself, not the fluid object's answer
        return "conv", tf, hh
    if kind == "film":
        tf = [float(np.ravel(bc.fluid_temperature(time, z))[0]) for th, z in pts]
        hh = [float(np.ravel(bc.film_coefficient(time, z))[0]) for th, z in pts]
        return "conv", tf, hh
    raise ValueError(kind)


def fl(xs):
    xs = list(np.ravel(xs))
    return ",".join(str(common.f2bits(x)) for x in xs) if xs else "-"


def request_line(case, prob, tube, mat, fluid, T_n, time, dt, src=None):
    """one `th ...` request for SrModel.Thermal.handle describing the step from T_n"""
    T_n = np.array(T_n, dtype=float).reshape(prob.fdim)
    k = np.array(mat.conductivity(T_n), dtype=float).reshape(prob.fdim)
    a = np.array(mat.diffusivity(T_n), dtype=float).reshape(prob.fdim)
    if case.steady:
        c, qc = k, np.ones(prob.fdim)
    else:
        c, qc = a, a / k
    srcv = np.zeros(prob.fdim) if src is None else np.array(src, dtype=float).reshape(prob.fdim)
    rr = np.linspace(case.r - case.t - prob.dr, case.r + prob.dr, case.nr + 2)
    ik, ia, ib = wall_values(case, tube, mat, fluid, "inner", time)
    ok, oa, ob = wall_values(case, tube, mat, fluid, "outer", time)
    toks = ["th", str(case.ndim), str(case.nr), str(case.nt), str(case.nz), "1" if case.steady else "0",
            fl([dt]), fl([prob.dr]), fl([prob.dt]), fl([prob.dz]), fl(rr), fl(c), fl(k), fl(qc), fl(srcv), fl(T_n),
            ik, fl(ia), fl(ib), ok, fl(oa), fl(ob)]
    return " ".join(toks)


def parse_answer(ans, ndof):
    ms, rs = ans.split("|")
    A = np.zeros((ndof, ndof))
    for ent in ms.split(";"):
        r, c, b = ent.split(":")
        A[int(r), int(c)] += common.bits2f(b)
    rhs = np.array([common.bits2f(b) for b in rs.split(",")])
    return A, rhs


def capture_step(case, prob, T_n, time, dt):
    """run the real solve_step from T_n and return (A_eff, b_eff, T_new) as the solver used them"""
    receiver, thermal, materials = mods()
    with Capture(thermal) as cap:
        Tnew = prob.solve_step(np.array(T_n, copy=True), time, dt)
    if not cap.calls:
        raise NoSolve("solve_step returned without handing any system to the linear solver")
    A, res = cap.calls[0]
    A = np.asarray(A.todense())
    b = A.dot(np.array(T_n, dtype=float).flatten()) - res
    return A, b, np.array(Tnew)


class NoSolve(Exception):
    pass


def newton_consistency(case, prob, T_start, time, dt):
    """the step is linear, so the Jacobian the solver uses must be the derivative of its residual:
    started from an arbitrary field, (i) every Newton iteration sees the same matrix, (ii) the
    affine model `res = A*T - b` reproduces the residual of the next iterate, (iii) the returned
    field solves A*T = b.  Returns list of failures."""
    receiver, thermal, materials = mods()
    Ts = []
    orig_norm = thermal.la.norm
    with Capture(thermal) as cap:
        Tnew = prob.solve_step(np.array(T_start, copy=True), time, dt)
    fails = []
    if not cap.calls:
        return ["solve_step returned without handing any system to the linear solver"]
    A0, res0 = cap.calls[0]
    A0 = np.asarray(A0.todense())
    T0 = np.array(T_start, dtype=float).flatten()
    b = A0.dot(T0) - res0
    scale = np.max(np.abs(A0)) * (np.max(np.abs(T0)) + np.max(np.abs(Tnew)) + 1.0)
    T = T0
    for n, (A, res) in enumerate(cap.calls):
        A = np.asarray(A.todense())
        if np.max(np.abs(A - A0)) > 1e-12 * np.max(np.abs(A0)):
            fails.append("iteration %d uses a different matrix" % n)
        if np.max(np.abs((A0.dot(T) - b) - res)) > 1e-9 * scale:
            fails.append("iteration %d: residual is not A*T - b (Jacobian inconsistent with residual), off by %.3e" % (
                n, np.max(np.abs((A0.dot(T) - b) - res))))
        try:
            T = T - np.linalg.solve(A0, res)
        except np.linalg.LinAlgError:
            # a steady problem without a temperature level (flux/insulated on both walls) has a singular
            # matrix: the iterates of the real sparse solver cannot be followed; (iii) is still checked
            break
    if np.max(np.abs(A0.dot(np.array(Tnew).flatten()) - b)) > 1e-7 * scale:
        fails.append("returned field does not solve the captured system")
    return fails


def compare_system(A_real, b_real, A_model, b_model, T_scale):
    """entry-wise comparison; returns list of textual differences"""
    diffs = []
    sa = np.max(np.abs(A_real)) if A_real.size else 1.0
    pat_r = np.abs(A_real) > 0
    pat_m = np.abs(A_model) > 0
    tolA = 1e-11 * sa
    bad = np.argwhere(np.abs(A_real - A_model) > tolA + 1e-11 * np.abs(A_real))
    for (i, j) in bad[:5]:
        diffs.append("A[%d,%d]: real %r model %r" % (i, j, A_real[i, j], A_model[i, j]))
    # b carries the cancellation error of A*T_n - res
    tolb = 1e-9 * (sa * T_scale + np.max(np.abs(b_real)) + 1.0)
    badb = np.argwhere(np.abs(b_real - b_model) > tolb)
    for (i,) in badb[:5]:
        diffs.append("b[%d]: real %r model %r" % (i, b_real[i], b_model[i]))
    return diffs, int(pat_r.sum())


def real_index_sets(case):
    """index arrays of real nodes in the ghosted grid"""
    I = range(1, case.nr + 1)
    J = range(1, case.nt + 1) if case.ndim >= 2 else [0]
    Kk = range(1, case.nz + 1) if case.ndim >= 3 else [0]
    return I, J, Kk


def real_view(case, T):
    T = np.array(T)
    if case.ndim == 1:
        return T[1:-1]
    if case.ndim == 2:
        return T[1:-1, 1:-1]
    return T[1:-1, 1:-1, 1:-1]


# ---------------------------------------------------------------------------
# shared stages
# ---------------------------------------------------------------------------
def matrix_correspondence(ctx, cases, label):
    """model rows (Lean, Float) vs the linear system the real solve_step hands to its sparse
    solver; returns list of (case, diffs)"""
    drv = common.LeanDriver(["SrModel.Thermal"])
    lines, kept = [], []
    crashed = []
    incons = []
    for c in cases:
        try:
            prob, tube, mat, fluid = problem(c, atol=auto_atol(c), rtol=1e-13)
            T_n = initial_field(prob, c)
            time, dt = float(c.times[1]), float(c.times[1] - c.times[0])
            A, b, Tnew = capture_step(c, prob, T_n, time, dt)
            # Jacobian/residual consistency from an arbitrary (non-equilibrium) starting field
            Tr = np.array([dyadic(ctx.rng, 300.0, 900.0) for _ in range(int(np.prod(prob.dim)))]).reshape(prob.dim)
            fails = newton_consistency(c, prob, Tr, time, dt)
            if fails:
                incons.append((c, fails))
        except NoSolve as e:
            incons.append((c, [str(e)]))
            continue
        except RuntimeError as e:
            # a step that does not converge raises (C17's business)
            crashed.append((c, repr(e)))
            continue
        lines.append(request_line(c, prob, tube, mat, fluid, T_n, time, dt))
        kept.append((c, A, b, T_n))
    answers = drv.ask(lines)
    bad = []
    for (c, A, b, T_n), ans in zip(kept, answers):
        Am, bm = parse_answer(ans, A.shape[0])
        diffs, nnz = compare_system(A, b, Am, bm, float(np.max(np.abs(T_n))))
        key = ("%dD" % c.ndim, c.inner, c.outer, c.steady, c.nr, c.nt, c.nz, c.mat_T is None)
        ctx.case(key, nontrivial=(c.inner != "ins" or c.outer != "ins" or c.T0field is not None),
                 tag="matrix/%dD/%s-%s/%s" % (c.ndim, c.inner, c.outer, "steady" if c.steady else "transient"),
                 sample={"suite": label, "ndim": c.ndim, "grid": [c.nr, c.nt, c.nz], "inner": c.inner,
                         "outer": c.outer, "steady": c.steady, "matrix_nnz": nnz, "agree": not diffs})
        if diffs:
            bad.append((c, diffs))
    ctx.obligation("correspondence (%s): assembled system of real solve_step == SrModel.Thermal rows" % label,
                   not bad, "%d of %d differ; first: %s" % (len(bad), len(kept), bad[0][1][:2] if bad else ""))
    ctx.obligation("Newton iteration of the real solve_step is consistent (Jacobian = derivative of residual; returned field solves the captured system)",
                   not incons, "%d of %d inconsistent; first: %s" % (len(incons), len(kept), incons[0][1][:2] if incons else ""))
    ctx.obligation("real solve_step converges on the generated well-posed steps (at most 10%% raise)",
                   len(crashed) * 10 <= len(cases), "%d of %d raised; first: %s" % (len(crashed), len(cases), crashed[0][1] if crashed else ""))
    ctx.extra["traces_validated_against_impl"] = ctx.extra.get("traces_validated_against_impl", 0) + len(kept)
    if crashed:
        ctx.notes.append("%d generated steps raised in the real solver (not compared): %s" % (len(crashed), crashed[0][1]))
    return bad + [(c, f) for c, f in incons] + ([(crashed[0][0], ["real solver raised: " + crashed[0][1]])] if len(crashed) * 10 > len(cases) else [])


def auto_atol(case):
    """absolute Newton tolerance scaled to the size of the system entries times temperatures"""
    dtmax = float(np.max(np.diff(case.times)))
    dr = case.t / (case.nr - 1)
    amax = float(np.max(case.mat_a)) if not case.steady else float(np.max(case.mat_k))
    return 1e-9 * 2000.0 * (1.0 + (1.0 if case.steady else dtmax) * amax / dr ** 2 * 8)


def run_history(case, substep=1, atol=None, rtol=1e-13, miter=30):
    atol = auto_atol(case) if atol is None else atol
    """step the real problem through its whole time grid, one solve_step per sub-step;
    returns list of (T_before, T_after, time, dt, prob-snapshot-of-coefficients)"""
    prob, tube, mat, fluid = problem(case, atol=atol, rtol=rtol, miter=miter)
    T = initial_field(prob, case)
    out = []
    times = np.array(case.times)
    for n in range(len(times) - 1):
        dtfull = times[n + 1] - times[n]
        dti = dtfull / substep
        for s in range(1, substep + 1):
            t = times[n] + dti * s
            Tn = np.array(T, copy=True)
            T = prob.solve_step(np.array(T, copy=True), t, dti)
            out.append(dict(Tn=Tn, T=np.array(T, copy=True), time=t, dt=dti,
                            c=np.array(prob.c).reshape(prob.fdim), k=np.array(prob.k).reshape(prob.fdim)))
    return prob, tube, mat, fluid, out


def ghost3(case, arr, prob):
    return np.array(arr).reshape(prob.fdim)


def energy_terms(case, prob, step):
    """independent numpy evaluation of stored-heat change and radial wall-face fluxes of a step"""
    T = ghost3(case, step["T"], prob)
    Tn = ghost3(case, step["Tn"], prob)
    c = step["c"]
    rr = np.linspace(case.r - case.t - prob.dr, case.r + prob.dr, case.nr + 2)
    I = slice(1, case.nr + 1)
    J = slice(1, case.nt + 1) if case.ndim >= 2 else slice(0, 1)
    Kk = slice(1, case.nz + 1) if case.ndim >= 3 else slice(0, 1)
    dE = float(np.sum(rr[I, None, None] * (T[I, J, Kk] - Tn[I, J, Kk])))
    rh0 = 0.5 * (rr[0] + rr[1])
    rhN = 0.5 * (rr[case.nr] + rr[case.nr + 1])
    c0 = 0.5 * (c[0, J, Kk] + c[1, J, Kk])
    cN = 0.5 * (c[case.nr, J, Kk] + c[case.nr + 1, J, Kk])
    inner_face = rh0 * c0 * (T[1, J, Kk] - T[0, J, Kk])
    outer_face = rhN * cN * (T[case.nr + 1, J, Kk] - T[case.nr, J, Kk])
    return dE, inner_face, outer_face, rr, (I, J, Kk)
