"""C15 — strain bookkeeping, free expansion and causality hold at every point and time.

Lean: SrModel/StrainBook.lean (model), SrProofs/StrainBook.lean, SrProps/C15.lean (partition,
      thermal_isotropic, thermal_zero_if_unchanged, thermal_const_cte, thermal_affine_cte,
      stored_symmetric, strain_symmetric, causal, elastic_path_independent,
      path_dependent_outside_hypothesis, free_expansion).
Tie:  correspondence on Float (alpha values are the ones the real NEML material returned, so only
      srlife's own arithmetic is compared):
      (a) the real `PythonSolver.calculate_mechanical_strain` on real 1D/2D/3D states with random
          temperatures / thermal strains / strains, point by point, vs `thermalUpdate`/`mech`;
      (b) the real `PythonTubeSolver._setup_state` for random step fractions vs `interpT`;
      (c) the real `PythonTubeSolver.solve` loop on real multi-step histories (forced sub-division,
          adaptive with scripted failed attempts): every accepted sub-increment's temperature,
          thermal and mechanical strain and every stored (dump_state) field vs `trace`/`run`;
      (d) the real `dump_state` on random non-symmetric arrays vs `store`.
Search: the property itself on real solves (`spring.TubeSpring` + `PythonTubeSolver`, all three
      abstractions, constant-alpha elastic NEML model, shipped elastic and creeping models):
      partition, isotropy, zero-if-unchanged, alpha*(T-T0), symmetry of the state arrays, free
      expansion, truncation (bit-equal prefix), path independence (forced sub-division, scripted
      retries).  Path dependence for an elastic material whose alpha is not affine over a step's
      range is known finding F25 (signature c15:cte-not-affine).
"""
import os
import sys

sys.path.insert(0, os.path.dirname(os.path.abspath(__file__)))
import common
import numpy as np

F25_SIG = "c15:cte-not-affine"
FIELDS = ["stress", "strain", "mechanical_strain", "thermal_strain"]
SUFF = ["_xx", "_yy", "_zz", "_yz", "_xz", "_xy"]
INDS = [(0, 0), (1, 1), (2, 2), (1, 2), (0, 2), (0, 1)]
ALPHA_CONST = 1.5e-5
_MATS = {}


# ---------------------------------------------------------------------------
# building real problems
# ---------------------------------------------------------------------------
def material(key):
    """NEML model objects (parsed once; `State.material` accepts them directly)"""
    if key in _MATS:
        return _MATS[key]
    from neml import elasticity, models
    from srlife import library
    if key == "Econst":
        em = elasticity.IsotropicLinearElasticModel(150000.0, "youngs", 0.3, "poissons")
        m = models.SmallStrainElasticity(em, alpha=ALPHA_CONST)
    else:
        name, variant = key.split("/")
        m = library.load_deformation(name, variant).get_neml_model()
    _MATS[key] = m
    return m


def is_elastic(key):
    return key == "Econst" or key.endswith("/elastic_model")


def make_tube(case, ntime=None):
    from srlife import receiver
    nr, nt, nz = case["mesh"]
    tube = receiver.Tube(case["r"], case["t"], case["h"], nr, nt, nz)
    ndim = case["ndim"]
    if ndim == 1:
        tube.make_1D(tube.h / 2, 0.0)
    elif ndim == 2:
        tube.make_2D(tube.h / 2)
    n = ntime or len(case["times"])
    times = np.array(case["times"][:n], float)
    tube.set_times(times)
    tube.set_pressure_bc(receiver.PressureBC(times, np.array(case["p"][:n], float)))
    T = np.array(case["T"], float)[:n]
    tube.add_results("temperature", T[(slice(None),) + (slice(None),) * ndim + (0,) * (3 - ndim)])
    return tube


class Script:
    """records what the real adaptive loop does; optionally makes chosen attempts fail"""

    def __init__(self, fail=None, record=False):
        self.fail = fail or {}      # step index -> set of attempt numbers (within the step) that raise
        self.record = record
        self.step = None
        self.attempt = 0
        self.sf = None
        self.subs = {}              # step -> list of accepted sub-increment records


class DirectDriver:
    """drives PythonTubeSolver.solve step by step the way the upstream structural tests do: the state
    comes from `init_state(tube, mat)` WITHOUT a time index, so its temperature field starts at zero
    and each step has to take its start temperature from the tube's history"""

    def __init__(self, tube, solver, mat):
        self.tube, self.solver = tube, solver
        solver.setup_tube(tube)
        self.state_n = solver.init_state(tube, mat)
        solver.dump_state(tube, 0, self.state_n)

    def force_and_stiffness(self, i, d):
        self.state_np1 = self.solver.solve(self.tube, i, self.state_n, d)
        return self.state_np1.force, self.state_np1.stiffness

    def update_state(self, i):
        self.solver.dump_state(self.tube, i, self.state_np1)
        self.state_n = self.state_np1


def run_history(case, ntime=None, script=None, direct=False):
    """run the real TubeSpring/PythonTubeSolver over the history; returns dict of results"""
    from srlife import structural, spring
    tube = make_tube(case, ntime)
    kw = dict(case.get("solver", {}))
    solver = structural.PythonTubeSolver(verbose=False, **kw)
    mat = material(case["mat"])
    script = script or Script()
    names = ["solve_python_1d", "solve_python_2d", "solve_python_3d"]
    saved = {n: getattr(structural, n) for n in names}
    orig_setup = solver._setup_state

    def setup(sf, tube_, i, state_n):
        script.sf = sf
        return orig_setup(sf, tube_, i, state_n)

    solver._setup_state = setup

    def mk(orig):
        def f(state_last, t_last, p_last, state_next, t_next, p_next, top, opts):
            a = script.attempt
            script.attempt += 1
            if a in script.fail.get(script.step, ()):
                raise RuntimeError("verif: scripted non-convergence")
            orig(state_last, t_last, p_last, state_next, t_next, p_next, top, opts)
            if script.record:
                script.subs.setdefault(script.step, []).append(dict(
                    sf=script.sf, T=np.copy(state_next.temperature), strain=np.copy(state_next.strain),
                    th=np.copy(state_next.thermal_strain), mech=np.copy(state_next.mechanical_strain),
                    T_last=np.copy(state_last.temperature)))
        return f

    for n in names:
        setattr(structural, n, mk(saved[n]))
    out = dict(force=[], stiffness=[], sym=[], tube=tube, solver=solver)
    try:
        sp = DirectDriver(tube, solver, mat) if direct else spring.TubeSpring(tube, solver, mat)
        out["T0q"] = np.copy(sp.state_n.temperature)
        nt_ = len(tube.times)
        for i in range(1, nt_):
            script.step, script.attempt = i, 0
            f, k = sp.force_and_stiffness(i, case["d"][i - 1])
            sp.update_state(i)
            out["force"].append(float(f))
            out["stiffness"].append(float(k))
            st = sp.state_np1
            worst = {}
            for nm, arr in (("stress", st.stress), ("strain", st.strain),
                            ("mechanical_strain", st.mechanical_strain), ("thermal_strain", st.thermal_strain)):
                worst[nm] = float(np.max(np.abs(arr - np.transpose(arr, (1, 0, 2, 3)))))
            out["sym"].append(worst)
        # the history temperature at the quadrature points, interpolated by scikit-fem directly (NOT through the
        # solver's own _res2quad helper, which is code under test)
        out["Tq_nodal"] = [np.array(sp.state_n.sbasis.interpolate(solver._tube2fea(tube, tube.results["temperature"][i])).value)
                           for i in range(nt_)]
    finally:
        for n in names:
            setattr(structural, n, saved[n])
    out["q"] = {k: np.array(v) for k, v in tube.quadrature_results.items()}
    out["disp"] = {k: np.array(v) for k, v in tube.results.items() if k.startswith("disp")}
    out["script"] = script
    return out


def alpha_of(key, T):
    return float(material(key).alpha(float(T)))


# ---------------------------------------------------------------------------
# case generators
# ---------------------------------------------------------------------------
def gen_case(rng, ndim, mat, nsteps=None, uniform=False, big=False, tiny=False, zero_return=False):
    """random tube + temperature/pressure/displacement history.
    The two inner node rings keep their temperature for the first steps (zero-if-unchanged),
    and the whole first step of some histories changes nothing."""
    nr = rng.choice([3, 4]) if not big else rng.choice([4, 5])
    nt = rng.choice([4, 6]) if not big else 8
    nz = rng.choice([2, 3])
    r = rng.uniform(4.0, 12.0)
    t = rng.uniform(0.3, 1.2)
    h = rng.uniform(2.0, 6.0)
    n = nsteps or rng.choice([3, 4])
    creeping = not is_elastic(mat)
    if creeping:
        times = [0.0]
        for _ in range(n):
            times.append(times[-1] + rng.choice([0.5, 2.0, 10.0, 50.0]))
        Tbase, span = rng.uniform(790.0, 820.0), 90.0
    else:
        times = [float(k) for k in range(n + 1)]
        Tbase, span = rng.uniform(290.0, 400.0), 500.0
    f = np.array([[[rng.random() for _ in range(nz)] for _ in range(nt)] for _ in range(nr)])
    f[0:2] = 0.0                                    # inner element ring: unchanged while u == 0
    g = [0.0] + [rng.uniform(0.1, 1.0) for _ in range(n)]
    quiet = rng.choice([0, 1, 2])                   # steps during which the uniform shift is off
    u = [0.0] + [0.0 if k < quiet else rng.uniform(-0.15, 0.3) for k in range(n)]
    if rng.random() < 0.4:
        g[1] = 0.0                                  # first step changes nothing anywhere (if quiet>0)
    T = np.array([Tbase + span * (g[k] * f + u[k]) for k in range(n + 1)])
    if uniform:
        lvl = [Tbase] + [Tbase + span * rng.uniform(0.1, 1.0) for _ in range(n)]
        T = np.array([np.full((nr, nt, nz), lv) for lv in lvl])
    if zero_return:
        # temperatures measured from a zero reference: 0 -> T(r,theta,z) -> exactly 0 again (-> a second excursion)
        # ... and below the reference: temperatures on a relative scale may be negative
        T = np.array([[0.0, 1.0, 0.0, -0.5][k % 4] * span * (0.2 + f) for k in range(n + 1)])
    if tiny:
        # a slow ramp stored with very fine time stepping: every node changes by 0.2e-5 .. 0.8e-5 of its
        # temperature per stored step (a few mK) -- small changes are changes
        rate = np.array([[[rng.uniform(2e-6, 8e-6) for _ in range(nz)] for _ in range(nt)] for _ in range(nr)])
        T = np.array([Tbase * (1.0 + k * rate) for k in range(n + 1)])
    p = [0.0] + [rng.uniform(0.0, 8.0) for _ in range(n)]
    a = alpha_of(mat, Tbase + span / 2)
    d = [h * (a * float(np.mean(T[k + 1]) - float(np.mean(T[0]))) + rng.uniform(-2e-4, 2e-4)) for k in range(n)]
    return dict(ndim=ndim, mat=mat, mesh=[nr, nt, nz], r=r, t=t, h=h, times=times, p=p,
                T=T.tolist(), d=d, solver={})


# ---------------------------------------------------------------------------
# property predicates on a real run (independent of the Lean model)
# ---------------------------------------------------------------------------
def six(q, field, i):
    return [q[field + s][i] for s in SUFF]


def check_book(case, res):
    """partition / isotropy / zero-if-unchanged / alpha*(T-T0) / symmetry / temperature at every
    stored point and time; returns list of (predicate, text)"""
    bad = []
    q = res["q"]
    nt_ = q["temperature"].shape[0]
    Tq = q["temperature"]
    const = case["mat"] == "Econst"
    stats = {"points_x_times": int(Tq.size), "unchanged_points_x_times": 0, "max_thermal_strain": 0.0}
    for i in range(nt_):
        tot, me, th = six(q, "strain", i), six(q, "mechanical_strain", i), six(q, "thermal_strain", i)
        for c in range(6):
            e = float(np.max(np.abs(tot[c] - (me[c] + th[c]))))
            if not e <= 1e-12:
                bad.append(("partition", "time %d component %s: |strain-(mech+thermal)| = %.3e" % (i, SUFF[c], e)))
        e = max(float(np.max(np.abs(th[0] - th[1]))), float(np.max(np.abs(th[1] - th[2]))))
        if not e <= 1e-15:
            bad.append(("isotropy", "time %d: thermal strain normal components differ by %.3e" % (i, e)))
        e = max(float(np.max(np.abs(th[c]))) for c in (3, 4, 5))
        if not e == 0.0:
            bad.append(("isotropy", "time %d: thermal shear strain %.3e" % (i, e)))
        same = np.all(Tq[: i + 1] == Tq[0][None], axis=0)
        stats["max_thermal_strain"] = max(stats["max_thermal_strain"], float(np.max(np.abs(th[0]))))
        if np.any(same):
            if i > 0:
                stats["unchanged_points_x_times"] += int(np.sum(same))
            e = float(np.max(np.abs(th[0][same])))
            if not e == 0.0:
                bad.append(("unchanged", "time %d: thermal strain %.3e at a point whose temperature never changed" % (i, e)))
        if const:
            e = float(np.max(np.abs(th[0] - ALPHA_CONST * (Tq[i] - Tq[0]))))
            if not e <= 1e-12:
                bad.append(("const-cte", "time %d: |thermal - alpha*(T-T0)| = %.3e" % (i, e)))
        # the stored quadrature temperature is the history temperature of that time
        e = float(np.max(np.abs(Tq[i] - res["Tq_nodal"][i])))
        if not e <= 1e-9 * float(np.max(np.abs(res["Tq_nodal"][i]))):
            bad.append(("temperature", "time %d: stored temperature differs from the history by %.3e K" % (i, e)))
    for i, w in enumerate(res["sym"]):
        smax = float(np.max(np.abs(six(q, "stress", i + 1)))) + 1.0
        for nm, v in w.items():
            tol = 1e-9 * smax if nm == "stress" else 0.0
            if not v <= tol:
                bad.append(("symmetry", "step %d: %s array asymmetric by %.3e" % (i + 1, nm, v)))
    return bad, stats


def compare_runs(a, b, n, tol=None):
    """first difference between two runs over times < n; tol None = bit-for-bit"""
    for grp in ("q", "disp"):
        for k in sorted(a[grp]):
            x, y = a[grp][k][:n], b[grp][k][:n]
            if tol is None:
                if not np.array_equal(x, y):
                    return "%s: max |diff| %.3e" % (k, float(np.max(np.abs(x - y))))
            else:
                dlt = np.abs(x - y)
                lim = tol * np.maximum(np.abs(x), np.abs(y)) + tol
                if np.any(dlt > lim):
                    return "%s: max |diff| %.6e (values up to %.4g)" % (k, float(np.max(dlt)), float(np.max(np.abs(x))))
    fa, fb = np.array(a["force"][: n - 1]), np.array(b["force"][: n - 1])
    if tol is None:
        if not np.array_equal(fa, fb):
            return "force: %r vs %r" % (fa.tolist(), fb.tolist())
    elif np.any(np.abs(fa - fb) > tol * np.maximum(np.abs(fa), np.abs(fb)) + tol * 1e3):
        return "force: %r vs %r" % (fa.tolist(), fb.tolist())
    return None


def affine_over_steps(case, res):
    """is alpha affine over the temperature range each step traverses, at every point?"""
    Tn = res["Tq_nodal"]
    worst = 0.0
    for i in range(1, len(Tn)):
        for a, b in zip(np.ravel(Tn[i - 1])[::3], np.ravel(Tn[i])[::3]):
            if a == b:
                continue
            al = [alpha_of(case["mat"], a + (b - a) * s) for s in (0.0, 0.25, 0.5, 0.75, 1.0)]
            for s, v in zip((0.25, 0.5, 0.75), al[1:4]):
                worst = max(worst, abs(v - (al[0] + (al[4] - al[0]) * s)) / max(abs(al[0]), 1e-30))
    return worst <= 1e-9, worst


def eval_case(kind, case):
    """evaluate one property predicate on the real code; returns (failures, info)
    failures: list of (predicate, text)"""
    try:
        if kind == "book":
            res = run_history(case)
            return check_book(case, res)
        if kind == "free":
            return eval_free(case)
        if kind == "direct":
            # per-step API driven from a fresh state without time index: thermal strain must still be
            # alpha * (T(t_i) - T(t_0)) of the tube's temperature history
            res = run_history(case, direct=True)
            bad = []
            q = res["q"]
            for i in range(1, q["temperature"].shape[0]):
                th = six(q, "thermal_strain", i)
                want = ALPHA_CONST * (res["Tq_nodal"][i] - res["Tq_nodal"][0])
                e = float(np.max(np.abs(th[0] - want)))
                if not e <= 1e-12:
                    bad.append(("direct-const-cte", "time %d (state from init_state without time index): |thermal - alpha*(T-T0)| = %.3e" % (i, e)))
                tot, me = six(q, "strain", i), six(q, "mechanical_strain", i)
                e = max(float(np.max(np.abs(tot[c] - (me[c] + th[c])))) for c in range(6))
                if not e <= 1e-12:
                    bad.append(("direct-partition", "time %d: |strain-(mech+thermal)| = %.3e" % (i, e)))
            return bad, {}
        if kind == "causal":
            full = run_history(case)
            bad = []
            for m in case["truncate"]:
                part = run_history(case, ntime=m + 1)
                dlt = compare_runs(full, part, m + 1, tol=None)
                if dlt:
                    bad.append(("causality", "history truncated after time %d does not reproduce the prefix: %s" % (m, dlt)))
            return bad, {}
        if kind == "path":
            base = dict(case)
            base["solver"] = {}
            a = run_history(base)
            b = run_history(case, script=Script(fail={int(k): set(v) for k, v in case.get("fail", {}).items()}))
            n = len(case["times"])
            dlt = compare_runs(a, b, n, tol=1e-8)
            aff, dev = affine_over_steps(case, a)
            info = {"alpha_affine_over_steps": aff, "alpha_deviation": dev}
            if dlt:
                how = "forced sub-division %r" % (case["solver"],) if case["solver"].get("force_divide") else \
                    "retries after failed attempts %r" % (case.get("fail"),)
                return [("path-independence" if aff else "cte-not-affine",
                         "elastic material %s: state depends on the sub-division (%s): %s" % (case["mat"], how, dlt))], info
            return [], info
    except Exception as e:  # the real code raised on a valid input
        import traceback
        tb = traceback.format_exc().strip().split("\n")
        return [("raises", "%s: %s (%s)" % (type(e).__name__, e, tb[-3].strip() if len(tb) > 2 else ""))], {}
    raise common.Infra("unknown case kind %s" % kind)


def eval_free(case):
    """a tube free to move (axial force balance) heated uniformly develops no stress"""
    from srlife import structural, spring
    tube = make_tube(case)
    solver = structural.PythonTubeSolver(verbose=False, **case.get("solver", {}))
    mat = material(case["mat"])
    sp = spring.TubeSpring(tube, solver, mat)
    bad = []
    T = np.array(case["T"])
    worst = 0.0
    for i in range(1, len(case["times"])):
        if case["mat"] == "Econst":
            d = ALPHA_CONST * (T[i].flat[0] - T[0].flat[0]) * case["h"]      # closed form
            f, k = sp.force_and_stiffness(i, d)
        else:
            # force balance force(d) = 0 by a safeguarded Newton iteration on the real
            # force_and_stiffness, started from the free thermal growth (creep makes force(d) saturate,
            # so a plain Newton iteration from far away diverges)
            m = material(case["mat"])
            Ta, Tb = float(T[i - 1].flat[0]), float(T[i].flat[0])
            d = (float(sp.state_n.thermal_strain[2, 2].flat[0]) + (m.alpha(Tb) + m.alpha(Ta)) / 2.0 * (Tb - Ta)) * case["h"]
            f, k = sp.force_and_stiffness(i, d)
            for _ in range(8):
                if abs(f) <= 1e-7 or not k > 0:               # |stress| ~ |f| / area, area > 5 mm^2
                    break
                step = f / k
                for _ in range(6):
                    f1, k1 = sp.force_and_stiffness(i, d - step)
                    if abs(f1) < abs(f):
                        break
                    step /= 2.0
                d, f, k = d - step, f1, k1
            f, k = sp.force_and_stiffness(i, d)
        sp.update_state(i)
        s = max(float(np.max(np.abs(tube.quadrature_results["stress" + sf][i]))) for sf in SUFF)
        worst = max(worst, s)
        if not s < 1e-6:
            bad.append(("free-expansion", "time %d: free tube heated uniformly %.1f -> %.1f K has max |stress| = %.3e MPa (axial force %.3e)" % (
                i, T[0].flat[0], T[i].flat[0], s, f)))
    return bad, {"max_stress": worst}


# ---------------------------------------------------------------------------
# correspondence with the Lean model
# ---------------------------------------------------------------------------
def fl(xs):
    xs = list(xs)
    return ",".join(str(common.f2bits(x)) for x in xs) if xs else "-"


def ten9(arr, idx):
    return [float(arr[(a, b) + idx]) for a in range(3) for b in range(3)]


def parse_fs(s):
    return [] if s == "-" else [common.bits2f(x) for x in s.split(",")]


def small_case(ndim, mat):
    return dict(ndim=ndim, mat=mat, mesh=[3, 4, 2], r=5.0, t=0.5, h=2.5, times=[0.0, 1.0], p=[0.0, 1.0],
                T=np.full((2, 3, 4, 2), 500.0).tolist(), d=[0.0], solver={})


def corr_mech(ctx, rng, reps):
    """(a) real calculate_mechanical_strain vs thermalUpdate/mech, point by point"""
    from srlife import structural
    lines, want, keys = [], [], []
    for ndim in (1, 2, 3):
        for mat in ("Econst", "316H/elastic_model", "316H/base"):
            tube = make_tube(small_case(ndim, mat))
            solver = structural.PythonTubeSolver(verbose=False)
            for rep in range(reps):
                sn = solver.init_state(tube, material(mat))
                shp = sn.temperature.shape
                r = np.random.RandomState(rng.randrange(2 ** 31))
                sn.temperature = r.uniform(280.0, 1000.0, shp)
                if rep % 3 == 0:
                    sn.thermal_strain = r.uniform(-1e-2, 1e-2, (3, 3) + shp)       # any array, as coded
                else:
                    sn.thermal_strain = np.eye(3)[:, :, None, None] * r.uniform(-1e-2, 1e-2, shp)
                s1 = sn.copy()
                s1.temperature = r.uniform(280.0, 1000.0, shp)
                if rep % 4 == 1:
                    s1.temperature[0] = sn.temperature[0]                          # unchanged points
                s1.strain = r.uniform(-1e-2, 1e-2, (3, 3) + shp)
                ps = structural.PythonSolver(sn, s1, solver.solver_options, set_strain=0.001 if ndim < 3 else None)
                ps.calculate_mechanical_strain()
                m = material(mat)
                for idx in np.ndindex(shp):
                    To, Tn_ = float(sn.temperature[idx]), float(s1.temperature[idx])
                    lines.append("sb_mech %d %d %d %d %s %s" % (
                        common.f2bits(m.alpha(To)), common.f2bits(m.alpha(Tn_)), common.f2bits(To), common.f2bits(Tn_),
                        fl(ten9(sn.thermal_strain, idx)), fl(ten9(s1.strain, idx))))
                    want.append(ten9(s1.thermal_strain, idx) + ten9(s1.mechanical_strain, idx))
                    keys.append(("mech", ndim, mat, rep) + idx)
    return lines, want, keys


def corr_setup(ctx, rng, reps):
    """(b) real _setup_state vs interpT (temperature at every quadrature point, and the time)"""
    from srlife import structural
    lines, want, keys = [], [], []
    for ndim in (1, 2, 3):
        case = gen_case(rng, ndim, "Econst", nsteps=3)
        tube = make_tube(case)
        solver = structural.PythonTubeSolver(verbose=False)
        sn = solver.init_state(tube, material("Econst"))
        for rep in range(reps):
            i = rng.choice([1, 2, 3])
            sf = rng.choice([0.0, 1.0, 0.5, 0.125, 0.875, rng.random(), rng.random()])
            sn.temperature = np.full(sn.temperature.shape, -7.0)     # must not be used as the base
            s1, p, t = solver._setup_state(sf, tube, i, sn)
            # scikit-fem interpolation directly, not the solver's own helper (code under test)
            Ta = np.array(sn.sbasis.interpolate(tube.results["temperature"][i - 1].flatten()).value)
            Tb = np.array(sn.sbasis.interpolate(tube.results["temperature"][i].flatten()).value)
            for idx in np.ndindex(Ta.shape):
                lines.append("sb_interp %d %d %d" % (common.f2bits(Ta[idx]), common.f2bits(Tb[idx]), common.f2bits(sf)))
                want.append([float(s1.temperature[idx])])
                keys.append(("setup", ndim, rep) + idx)
            lines.append("sb_interp %d %d %d" % (common.f2bits(tube.times[i - 1]), common.f2bits(tube.times[i]), common.f2bits(sf)))
            want.append([float(t)])
            keys.append(("setup-time", ndim, rep))
            if float(p) != float(tube.pressure_bc.pressure(t)):
                ctx.extra.setdefault("setup_pressure_mismatch", []).append([ndim, i, sf])
    return lines, want, keys


def corr_store(ctx, rng, reps):
    """(d) real dump_state vs store"""
    from srlife import structural
    lines, want, keys = [], [], []
    for ndim in (1, 2, 3):
        tube = make_tube(small_case(ndim, "Econst"))
        solver = structural.PythonTubeSolver(verbose=False)
        solver.setup_tube(tube)
        st = solver.init_state(tube, material("Econst"))
        r = np.random.RandomState(rng.randrange(2 ** 31))
        arrs = {}
        for f in FIELDS:
            arrs[f] = r.uniform(-1.0, 1.0, st.stress.shape)          # deliberately NOT symmetric
        st.stress, st.strain, st.mechanical_strain, st.thermal_strain = (arrs[f] for f in FIELDS)
        solver.dump_state(tube, 1, st)
        pts = list(np.ndindex(st.temperature.shape))
        rng.shuffle(pts)
        for idx in pts[:reps]:
            for f in FIELDS:
                lines.append("sb_store %s" % fl(ten9(arrs[f], idx)))
                want.append([float(tube.quadrature_results[f + s][1][idx]) for s in SUFF])
                keys.append(("store", ndim, f) + idx)
    return lines, want, keys


def corr_fold(ctx, rng, cases):
    """(c) the real solve loop over real histories vs trace/run at every quadrature point"""
    lines, want, keys = [], [], []
    for case, fail in cases:
        res = run_history(case, script=Script(fail=fail, record=True))
        sc = res["script"]
        q = res["q"]
        nt_ = len(case["times"])
        m = material(case["mat"])
        shp = res["T0q"].shape
        for idx in np.ndindex(shp):
            temps = {float(res["T0q"][idx])}
            tnp1, nsub, sfs, tots, tr, stored = [], [], [], [], [], []
            for i in range(1, nt_):
                temps.add(float(res["Tq_nodal"][i - 1][idx]))
                tnp1.append(float(res["Tq_nodal"][i][idx]))
                subs = sc.subs.get(i, [])
                nsub.append(len(subs))
                for s in subs:
                    temps.add(float(s["T"][idx]))
                    sfs.append(s["sf"])
                    tots += ten9(s["strain"], idx)
                    tr += [float(s["T"][idx])] + ten9(s["th"], idx) + ten9(s["mech"], idx)
                stored += [float(q["thermal_strain" + s_][i][idx]) for s_ in SUFF]
                stored += [float(q["mechanical_strain" + s_][i][idx]) for s_ in SUFF]
                stored += [float(q["strain" + s_][i][idx]) for s_ in SUFF]
            ts = sorted(temps)
            lines.append("sb_run %s %s %d %s %s %s %s" % (
                fl(ts), fl([m.alpha(T) for T in ts]), common.f2bits(res["T0q"][idx]), fl(tnp1),
                ",".join(str(n) for n in nsub), fl(sfs), fl(tots)))
            want.append((tr, stored))
            keys.append(("fold", case["ndim"], case["mat"], repr(case["solver"]), repr(fail), sum(nsub)) + idx)
    return lines, want, keys


def cmp_lists(a, b):
    """(ok, max abs diff, bit-exact?)"""
    if len(a) != len(b):
        return False, float("inf"), False
    worst, exact = 0.0, True
    ok = True
    for x, y in zip(a, b):
        if x != y:
            exact = False
            worst = max(worst, abs(x - y))
            if not common.close(x, y, rel=1e-12, abs_=1e-15):
                ok = False
    return ok, worst, exact


# ---------------------------------------------------------------------------
def run(ctx):
    quick = ctx.quick()
    rng = ctx.rng
    ctx.rule = ("correspondence: every quadrature point of random real states (1D/2D/3D; constant-alpha, shipped "
                "elastic and creep-plastic materials; isotropic and arbitrary old thermal strains; unchanged "
                "temperatures) for calculate_mechanical_strain; random step fractions incl. 0, 1, dyadics for "
                "_setup_state; every quadrature point of real multi-step solves with forced sub-division and "
                "scripted failed attempts for the fold; random non-symmetric arrays for dump_state. "
                "Property: random tubes (r,t,h, nr 3-4, nt 4-6 even, nz 2-3), 3-4 step temperature/pressure/"
                "displacement histories with an unchanged inner ring and quiet first steps; a case is "
                "non-trivial when temperatures change and (for the fold) a step has more than one accepted "
                "sub-increment; distinct = distinct (kind, dimension, material, point/history)")
    ctx.trusted = ["Lean 4 kernel + Mathlib (propext, Classical.choice, Quot.sound)",
                   "harness/c15.py (recorders around solve_python_1d/2d/3d and _setup_state)",
                   "NEML alpha(T), stress update and tangent; scikit-fem interpolation to quadrature points "
                   "(_res2quad) and sym_grad",
                   "Float vs real arithmetic of the model (rounding)"]
    ctx.assumptions = ["the total strain of a converged increment is an input of the model (FE solve outside)",
                       "Step.Closed (last accepted sub-increment has sf = 1) is C10's success_spec",
                       "free_expansion is proved at the algebraic level (strain = alpha*dT*I => stress 0); that "
                       "the FE solution of a free, uniformly heated tube has that strain is checked on real solves"]
    ctx.notes.append("free expansion, creeping materials: evaluated with PythonTubeSolver(rtol=1e-13, atol=1e-9). With the "
                     "default rtol=1e-6 the inner Newton iteration leaves self-equilibrated stresses of 2-3e-6 MPa at "
                     "axial force ~1e-11 (seen on seeds 1 and 2), i.e. above the 1e-6 MPa threshold; elastic materials "
                     "use the default tolerances. The force-balance driver went through four versions while building "
                     "the check (plain Newton diverged on creep; safeguarded Newton with relative, then absolute, force "
                     "criterion; finally the tightened inner tolerance).")
    thm_ok = common.lean_stage(ctx, [("SrProps.C15", "SrProps/C15.lean", "SrProps.C15")])
    drv = common.LeanDriver(["SrModel.StrainBook"])

    # ---------------- correspondence ----------------
    mism = []

    def run_simple(name, triple):
        lines, want, keys = triple
        ans = drv.ask(lines)
        nbad, worst, nexact = 0, 0.0, 0
        for a, w, k in zip(ans, want, keys):
            got = [x for part in a.split("|")[:1 if name != "mech" else 2] for x in parse_fs(part)] if a != "bad-op" else []
            ok, dlt, exact = cmp_lists(got, w)
            nexact += exact
            worst = max(worst, dlt if dlt != float("inf") else 0.0)
            ctx.case(k, nontrivial=True, tag="corr/" + name)
            if not ok:
                nbad += 1
                if len(mism) < 8:
                    mism.append((name, k, got[:4], w[:4]))
        ctx.obligation("correspondence (%s): real code == model on Float (rel 1e-12)" % name, nbad == 0,
                       "%d mismatches of %d; %d bit-exact; max |diff| %.2e" % (nbad, len(lines), nexact, worst))
        return nbad

    try:
        nb = run_simple("mech", corr_mech(ctx, rng, 2 if quick else 8))
        nb += run_simple("setup", corr_setup(ctx, rng, 6 if quick else 30))
        nb += run_simple("store", corr_store(ctx, rng, 6 if quick else 40))
        if ctx.extra.get("setup_pressure_mismatch"):
            ctx.obligation("correspondence (setup): pressure is pressure_bc(t)", False,
                           str(ctx.extra["setup_pressure_mismatch"][:3]))
            nb += 1
        # fold: forced sub-division, adaptive with failures, plain
        fold_cases = []
        for ndim in (1, 2, 3):
            for mat in ("Econst", "316H/elastic_model", "316H/elastic_creep"):
                if quick and ndim == 3 and mat != "Econst":
                    continue
                c = gen_case(rng, ndim, mat, nsteps=3)
                c1 = dict(c, solver={"max_divide": 2, "force_divide": True})
                fold_cases.append((c1, {}))
                c2 = dict(c, solver={"max_divide": 3})
                fold_cases.append((c2, {1: {0}, 2: {0, 2}, 3: {0, 1}}))
                if not quick:
                    fold_cases.append((dict(c, solver={}), {}))
        lines, want, keys = corr_fold(ctx, rng, fold_cases)
        ans = drv.ask(lines)
        nbad, worst, nexact = 0, 0.0, 0
        for a, (tr, stored), k in zip(ans, want, keys):
            parts = a.split("|")
            if len(parts) != 2:
                ok, dlt, exact = False, 0.0, False
            else:
                ok1, d1, e1 = cmp_lists(parse_fs(parts[0]), tr)
                ok2, d2, e2 = cmp_lists(parse_fs(parts[1]), stored)
                ok, dlt, exact = ok1 and ok2, max(d1, d2), e1 and e2
            nexact += exact
            worst = max(worst, dlt if dlt != float("inf") else 0.0)
            ctx.case(k, nontrivial=(k[5] > 3), tag="corr/fold/%dD" % k[1],
                     sample={"case": k[:6], "accepted_subincrements": k[5]} if (k[6:] == (0, 0) and k[1] == 1 and k[2] == "Econst") else None)
            if not ok:
                nbad += 1
                if len(mism) < 8:
                    mism.append(("fold", k, a[:80]))
        ctx.obligation("correspondence (fold): every accepted sub-increment and every stored field of real solves "
                       "== model trace/run (rel 1e-12)", nbad == 0,
                       "%d mismatches of %d point histories (%d real solves); %d bit-exact; max |diff| %.2e" % (
                           nbad, len(lines), len(fold_cases), nexact, worst))
        nb += nbad
    except common.Infra:
        raise
    except Exception as e:
        import traceback
        nb = 1
        mism.append(("crash", "%s: %s" % (type(e).__name__, e), traceback.format_exc()[-600:]))
        ctx.obligation("correspondence: real code could be driven", False, "%s: %s" % (type(e).__name__, e))

    # ---------------- property predicates on real solves ----------------
    found = []      # (predicate, text, kind, case, info)

    def explore(kind, case, tag, nontrivial=True):
        bad, info = eval_case(kind, case)
        key = (kind, case["ndim"], case["mat"], round(case["r"], 6), round(case["h"], 6), repr(case.get("solver")), repr(case.get("fail")))
        ctx.case(key, nontrivial=nontrivial, tag=tag,
                 sample={"kind": kind, "ndim": case["ndim"], "mat": case["mat"], "mesh": case["mesh"],
                         "times": case["times"], "solver": case.get("solver"), "failures": [b[0] for b in bad], "info": info})
        for pred, text in bad:
            found.append((pred, text, kind, case, info))
        agg = ctx.extra.setdefault("real_solve_stats", {})
        for k_, v_ in info.items():
            if k_ in ("points_x_times", "unchanged_points_x_times"):
                agg[k_] = agg.get(k_, 0) + v_
            elif k_ in ("max_stress", "alpha_deviation", "max_thermal_strain"):
                agg[kind + ":" + k_] = max(agg.get(kind + ":" + k_, 0.0), v_)
        return bad, info

    creep_mats = ["316H/elastic_creep"] if quick else ["316H/elastic_creep", "316H/base", "740H/base", "A617/elastic_creep"]
    book_mats = ["Econst", "316H/elastic_model"] + creep_mats
    nrep = 1 if quick else 4
    for ndim in (1, 2, 3):
        for mat in book_mats:
            for _ in range(nrep):
                case = gen_case(rng, ndim, mat)
                explore("book", case, "book/%dD/%s" % (ndim, mat))
                # the same with forced sub-division: partition etc. for every step sub-division
                if ndim < 3 or not quick:
                    explore("book", dict(case, solver={"max_divide": 2, "force_divide": True}), "book-divided/%dD/%s" % (ndim, mat))
        # slow ramp in many tiny stored steps (mK per step)
        for mat in ("Econst",) if quick else ("Econst", "316H/elastic_model"):
            explore("book", gen_case(rng, ndim, mat, nsteps=6, tiny=True), "book-tiny-steps/%dD/%s" % (ndim, mat))
        explore("book", gen_case(rng, ndim, "Econst", nsteps=3, zero_return=True), "book-return-to-zero-temperature/%dD" % ndim)
        # per-step API from a fresh state created without a time index (as the upstream tests drive it)
        explore("direct", gen_case(rng, ndim, "Econst"), "direct/%dD/Econst" % ndim)
        # free expansion
        for mat in ["Econst", "316H/elastic_model"] + creep_mats[:1]:
            case = gen_case(rng, ndim, mat, uniform=True)
            case["p"] = [0.0] * len(case["times"])
            if not is_elastic(mat):
                # inner Newton iteration: default rtol 1e-6 leaves stresses of that relative size
                case["solver"] = {"rtol": 1.0e-13, "atol": 1.0e-9}
            _, info = explore("free", case, "free/%dD/%s" % (ndim, mat))
        # causality
        for mat in ["Econst"] + creep_mats[:1]:
            case = gen_case(rng, ndim, mat, nsteps=4)
            case["truncate"] = [1, 2, 3] if not quick else [rng.choice([1, 2]), 3]
            explore("causal", case, "causal/%dD/%s" % (ndim, mat))
            if mat != "Econst" and ndim < 3:
                # with forced sub-division every step is walked through intermediate temperatures: they must come from
                # the two ends of THAT step only, whatever the history stores afterwards (creeping material: the path matters)
                case2 = dict(gen_case(rng, ndim, mat, nsteps=3), solver={"max_divide": 2, "force_divide": True})
                case2["truncate"] = [1, 2]
                explore("causal", case2, "causal-divided/%dD/%s" % (ndim, mat))
        # path independence, constant alpha
        case = gen_case(rng, ndim, "Econst", nsteps=2 if ndim == 3 else 3)
        explore("path", dict(case, solver={"max_divide": 3, "force_divide": True}), "path-forced/%dD/Econst" % ndim)
        explore("path", dict(case, solver={"max_divide": 3}, fail={"1": [0], "2": [0, 2]}), "path-retry/%dD/Econst" % ndim)
    # boundary of the hypothesis of elastic_path_independent: shipped elastic model
    #  (i) a step inside one segment of its piecewise-linear alpha table (affine there): must be path independent
    for ndim in (1, 2):
        case = gen_case(rng, ndim, "316H/elastic_model", nsteps=2)
        f = np.array(case["T"])
        lo, hi = 289.5, 303.5                     # inside [288.74, 304.33] of the 316H table
        f = lo + (hi - lo) * (f - f.min()) / max(f.max() - f.min(), 1e-9)
        case["T"] = f.tolist()
        explore("path", dict(case, solver={"max_divide": 3, "force_divide": True}), "path-forced/%dD/316H-affine-segment" % ndim)
    #  (ii) a step across many segments: outside the hypothesis, known finding F25
    for ndim in (1, 2):
        case = gen_case(rng, ndim, "316H/elastic_model", nsteps=1, uniform=True)
        case["T"] = [np.full(np.array(case["T"][0]).shape, 300.0).tolist(), np.full(np.array(case["T"][0]).shape, 900.0).tolist()]
        case["d"] = [0.0]
        explore("path", dict(case, solver={"max_divide": 3, "force_divide": True}), "path-forced/%dD/316H-300-900" % ndim)

    by_pred = {}
    for f in found:
        by_pred.setdefault(f[0], []).append(f)
    real = {k: v for k, v in by_pred.items() if k != "cte-not-affine"}
    ctx.obligation("property predicates on real solves (partition, isotropy, unchanged, alpha*(T-T0), symmetry, "
                   "temperature, free expansion, causality, path independence under the theorem's hypothesis)",
                   not real, "; ".join("%s: %d" % (k, len(v)) for k, v in real.items()) or
                   "all hold; path dependence outside the hypothesis (F25) seen in %d case(s)" % len(by_pred.get("cte-not-affine", [])))
    ctx.extra["predicate_failures"] = {k: len(v) for k, v in by_pred.items()}

    # ---------------- outcomes ----------------
    for pred, lst in by_pred.items():
        # smallest first
        lst.sort(key=lambda f: (f[3]["ndim"], len(f[3]["times"]), int(np.prod(f[3]["mesh"]))))
        pred_, text, kind, case, info = lst[0]
        ctx.violation("real PythonTubeSolver: " + text,
                      {"kind": kind, "case": case, "predicate": pred, "info": info, "n_failing_cases": len(lst)},
                      signature="c15:" + pred)
    if not real and (nb or not thm_ok):
        what = ("model and code disagree (%d correspondence mismatches) but no real solve violates the property" % nb) if nb \
            else "a C15 theorem no longer checks"
        ctx.violation(what, {"mismatches": [repr(m)[:400] for m in mism[:5]], "lean": ctx.extra.get("lean_errors"),
                             "theorems": ctx.extra.get("broken_theorems"),
                             "correspondence": "harness/c15.py vs SrModel.StrainBook"}, no_input=True)
    return "proof"


def replay(obj):
    r = obj["replay"]
    if "case" not in r:
        print("replay names no input:", r)
        return 1
    bad, info = eval_case(r["kind"], r["case"])
    c = r["case"]
    print("case: kind=%s %dD material=%s mesh=%s times=%s solver=%s fail=%s" % (
        r["kind"], c["ndim"], c["mat"], c["mesh"], c["times"], c.get("solver"), c.get("fail")))
    for pred, text in bad:
        print("  FAILS [%s]: %s" % (pred, text))
    print("info:", info)
    print("property holds on this input" if not bad else "property violated on this input")
    return 1 if bad else 0


if __name__ == "__main__":
    sys.exit(common.main("C15", run, replay))
