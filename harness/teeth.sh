#!/bin/bash
# usage: harness/teeth.sh <Cxx> <file-relative-to-repo> <python-regex-old> <new>   (one substitution, first occurrence count given by $5 default 1)
# runs the check against a scratch worktree of /repo with that edit applied, then removes the worktree
ID="$1"; F="$2"; OLD="$3"; NEW="$4"; CNT="${5:-1}"
WT=/tmp/wt_teeth_$$
git -C /repo worktree add -q "$WT" HEAD || exit 2
python3 - "$WT/$F" "$OLD" "$NEW" "$CNT" <<'PY'
import sys
p, old, new, cnt = sys.argv[1], sys.argv[2], sys.argv[3], int(sys.argv[4])
s = open(p).read()
assert s.count(old) >= 1, "pattern not found: " + old
s = s.replace(old, new, cnt)
open(p, "w").write(s)
PY
if [ $? -ne 0 ]; then git -C /repo worktree remove --force "$WT"; exit 2; fi
cd /verif && SRLIFE_REPO="$WT" ./check "$ID" --tier quick 2>&1 | grep -v "^KNOWN-FINDING" | tail -4
git -C /repo worktree remove --force "$WT"
cd /verif && ./check "$ID" --tier quick > /dev/null 2>&1   # restore clean evidence
