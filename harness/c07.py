"""C07 — coupled fluid-solid thermal solution is energy-consistent.

Lean: SrModel/Coupled.lean + SrModel/Thermal.lean, SrProofs/Coupled.lean, SrProps/C07.lean
      (setup_validation, panel_order, write_back_spec, starts_at_T0, reset_returns_T0,
      inlet_is_prescribed, tube_heat_balance, multiplier_equiv_*, manifold_mean,
      energy_consistency_solid, energy_factor_bound).
Tie:  exact correspondence of the bookkeeping with the real code driven through stubs (no heavy
      solves): `_setup` validation over random flow-path partitions, FlowPath chain/dof map/recovery,
      write-back of `solve_fluid`, initial condition and cycle reset of `solve_receiver`.
Search: real coupled solves of small receivers (1D/2D/3D tubes, multipliers, steady and transient
      solid, with/without reset) on which the property's predicates are evaluated.
"""
import os
import sys

sys.path.insert(0, os.path.dirname(os.path.abspath(__file__)))
import warnings
import numpy as np
import common

warnings.filterwarnings("ignore", message=".*os.fork.*")


def mods():
    from srlife import receiver, thermal, library, solverparams, managers
    from srlife.thermohydraulics import flowpath
    return receiver, thermal, library, solverparams, managers, flowpath


# ---------------------------------------------------------------------------
# receivers
# ---------------------------------------------------------------------------
def make_receiver(spec):
    receiver, thermal, library, solverparams, managers, flowpath = mods()
    r = receiver.Receiver(spec.get("period", 24.0), 1, "disconnect")
    times = np.array(spec["times"], dtype=float)
    R, T, H = spec.get("R", 10.0), spec.get("T", 1.0), spec.get("H", 200.0)
    nr, nt, nz = spec.get("nr", 5), spec.get("nt", 6), spec.get("nz", 4)
    for p, tubes in enumerate(spec["panels"]):
        pan = receiver.Panel("disconnect")
        if "panel_geom" in spec:                 # per-panel tube gauge (outer radius, thickness)
            R, T = spec["panel_geom"][p]
        for k, mult in enumerate(tubes):
            tube = receiver.Tube(R, T, H, nr, nt, nz, T0=spec.get("T0", 800.0), multiplier=mult)
            if spec["ndim"] == 1:
                tube.make_1D(H / 2, 0.0)
            elif spec["ndim"] == 2:
                tube.make_2D(H / 2)
            tube.set_times(times)
            q = np.zeros((len(times), nt, nz))
            base = spec.get("q0", 0.4) * (1 + 0.1 * p + (0.05 * k if not spec.get("identical") else 0.0))
            for j in range(nt):
                q[:, j, :] = base * (max(np.cos(2 * np.pi * j / nt), 0.0) if spec["ndim"] > 1 else 1.0)
            q *= np.array(spec.get("qt", [1.0] * len(times)))[:, None, None]
            if spec.get("qz"):
                q *= (0.2 + 1.6 * (np.arange(nz) + 0.5) / nz)[None, None, :]
            if [p, k] not in spec.get("shaded", []):   # a shaded tube has no outer condition at all (insulated wall)
                tube.set_bc(receiver.HeatFluxBC(R, H, nt, nz, times, q), "outer")
            pan.add_tube(tube)
        r.add_panel(pan)
    for k, path in enumerate(spec["paths"]):
        r.add_flowpath([str(i) for i in path], times, np.full(len(times), spec.get("mdot", 2.0e5)),
                       np.array(path_inlet(spec, k), dtype=float))
    return r


def path_inlet(spec, k):
    """inlet temperature history of flow path k ("inlets": one history per path, or "inlet": shared)"""
    if "inlets" in spec:
        return spec["inlets"][k]
    return spec.get("inlet", [800.0] * len(spec["times"]))


def solve(spec):
    receiver, thermal, library, solverparams, managers, flowpath = mods()
    r = make_receiver(spec)
    ps = solverparams.ParameterSet()
    ps["solid"]["steady"] = bool(spec.get("steady", True))
    ps["solid"]["atol"] = 1e-8 if spec.get("steady", True) else 1e-5
    ps["solid"]["rtol"] = 1e-10
    ps["fluid"]["atol"] = 1e-8
    ps["atol"] = 1e-6
    ps["miter"] = 300
    sol = thermal.ThermohydraulicsThermalSolver(ps)
    mat = library.load_thermal("740H", "base")
    fl = library.load_thermal_fluid("32MgCl2-68KCl", "base")
    kw = {}
    if spec.get("reset"):
        kw = managers.CycleResetHeuristic().args_for_thermohydraulic_solver(r)
    with common.serial_pools():
        if spec.get("default_decorator", True):
            sol.solve_receiver(r, mat, fl, **kw)       # documented default decorator=None
        else:
            sol.solve_receiver(r, mat, fl, decorator=lambda x, n: x, **kw)
    r._verif_solid = (ps["solid"], mat)
    return r, fl


def metal_consistency(spec, r, fl):
    """every stored wall field is ONE implicit step of the plain finite-difference problem from the stored field
    of the previous time, under the stored fluid state of that time (FilmCoefficientConvectiveBC built from the
    tube's own axial results): the coupled driver may iterate as it likes, but what it stores must be that step.
    (In steady solid mode the previous field is only a starting guess.)"""
    receiver, thermal, library, solverparams, managers, flowpath = mods()
    bad = []
    solid, mat = r._verif_solid
    times = np.array(spec["times"], dtype=float)
    for p, panel in enumerate(r.panels.values()):
        for k, tube in enumerate(panel.tubes.values()):
            keep = tube.inner_bc
            try:
                for i in range(1, len(times)):
                    if spec.get("reset") and np.isclose(times[i] % spec.get("period", 24.0), 0):
                        continue
                    fT = np.array(tube.axial_results["fluid_temperature"][i])
                    film = np.array(fl.film_coefficient(fT, np.array(tube.axial_results["fluid_velocity"][i]), tube.r - tube.t))
                    tube.set_bc(receiver.FilmCoefficientConvectiveBC(tube.r - tube.t, tube.h, tube.nz, fT, film), "inner")
                    prob = thermal.FiniteDifferenceImplicitThermalProblem(tube, mat, fl, **thermal.deparametrize_finite_difference(solid))
                    Tn = np.array(tube.quadrature_results["ghost_temperature"][i - 1], copy=True)
                    want = np.array(prob.solve_step_substep(Tn, times[i], times[i] - times[i - 1]))
                    got = np.array(tube.quadrature_results["ghost_temperature"][i])
                    # the stored field was computed with the fluid state of the last-but-one Picard iterate
                    d = float(np.max(np.abs(want - got)))
                    if d > 1e-3 + 1e-6 * float(np.max(np.abs(want))):
                        bad.append("t=%g: stored wall field of panel %d tube %d differs by %.4g K from one implicit step of the "
                                   "finite-difference problem started from the stored field of the previous time (max |T| %.4g)"
                                   % (times[i], p, k, d, float(np.max(np.abs(want)))))
                        break
            finally:
                tube.inner_bc = keep
    return bad


def predicates(spec, r, fl):
    bad = metal_consistency(spec, r, fl)
    times = np.array(spec["times"], dtype=float)
    T0 = spec.get("T0", 800.0)
    panels = list(r.panels.values())
    dr = spec.get("T", 1.0) / (spec.get("nr", 5) - 1)
    ri = spec.get("R", 10.0) - spec.get("T", 1.0)
    if "panel_geom" in spec:      # the loosest of the per-panel discretisation bounds
        dr, ri = max(((T_ / (spec.get("nr", 5) - 1), R_ - T_) for R_, T_ in spec["panel_geom"]), key=lambda x: x[0] / x[1])
    for tube in r.tubes:
        if np.max(np.abs(tube.results["temperature"][0] - T0)) > 0:
            bad.append("a tube does not start from its initial temperature")
    for kpath, path in enumerate(spec["paths"]):
        inlet = np.array(path_inlet(spec, kpath), dtype=float)
        # first stored time: the fluid of every tube of the path is at the path's own inlet temperature
        for p in path:
            for t in panels[p].tubes.values():
                f0 = np.asarray(t.axial_results["fluid_temperature"][0], dtype=float)
                if np.max(np.abs(f0 - inlet[0])) > 1e-9:
                    bad.append("t=%g (first stored time): fluid in a tube of panel %d (path %d) is at %r, the path's prescribed inlet is %r"
                               % (times[0], p, kpath, float(f0[0]), float(inlet[0])))
        for i in range(1, len(times)):
            if spec.get("reset") and np.isclose(times[i] % spec.get("period", 24.0), 0):
                for p in path:
                    for tube in panels[p].tubes.values():
                        if np.max(np.abs(tube.results["temperature"][i] - T0)) > 0:
                            bad.append("cycle end (t=%g): tube of panel %d is not back at its initial temperature" % (times[i], p))
            prev_out = None
            gain, heat = 0.0, 0.0
            for pos, p in enumerate(path):
                tubes = list(panels[p].tubes.values())
                Tin = [t.axial_results["fluid_temperature"][i][0] for t in tubes]
                Tout = [t.axial_results["fluid_temperature"][i][-1] for t in tubes]
                w = [float(t.multiplier) for t in tubes]
                if pos == 0:
                    if max(abs(x - inlet[i]) for x in Tin) > 1e-6:
                        bad.append("t=%g: fluid enters the path at %r, prescribed inlet is %r" % (times[i], Tin[0], inlet[i]))
                else:
                    if max(abs(x - prev_out) for x in Tin) > 1e-6:
                        bad.append("t=%g: panel %d (position %d) starts at %r, previous manifold gives %r: panels not traversed in the declared order"
                                   % (times[i], p, pos, Tin[0], prev_out))
                prev_out = sum(a * b for a, b in zip(w, Tout)) / sum(w)
                for t, tin, tout in zip(tubes, Tin, Tout):
                    prof = t.axial_results["fluid_temperature"][i]
                    lin = tin + (tout - tin) * np.linspace(0, 1, len(prof))
                    if np.max(np.abs(prof - lin)) > 1e-8 * (abs(tout) + 1):
                        bad.append("t=%g: fluid profile along a tube is not linear" % times[i])
                    Tm = 0.5 * (tin + tout)
                    u = t.axial_results["fluid_velocity"][i][0]
                    mdot_t = float(fl.rho(Tm)) * u * np.pi * (t.r - t.t) ** 2
                    gain += t.multiplier * mdot_t * float(fl.cp(Tm)) * (tout - tin)
                    dz, dth = t.h / t.nz, 2 * np.pi / t.nt
                    if t.outer_bc is None:
                        pass                      # shaded tube: nothing enters its outer surface
                    elif t.abstraction == "3D":
                        heat += t.multiplier * t.r * float(np.sum(t.outer_bc.data[i])) * dz * dth
                    elif t.abstraction == "2D":
                        heat += t.multiplier * t.r * sum(float(t.outer_bc.flux(times[i], 2 * np.pi * j / t.nt, t.plane)[0]) for j in range(t.nt)) * dth * t.h
                    else:
                        heat += t.multiplier * t.r * float(t.outer_bc.flux(times[i], t.angle, t.plane)[0]) * 2 * np.pi * t.h
                # mass split: reported velocities carry the prescribed mass flow
                mtot = sum(t.multiplier * float(fl.rho(0.5 * (a + b))) * t.axial_results["fluid_velocity"][i][0] * np.pi * (t.r - t.t) ** 2
                           for t, a, b in zip(tubes, Tin, Tout))
                if abs(mtot - spec.get("mdot", 2.0e5)) > 1e-8 * spec.get("mdot", 2.0e5):
                    bad.append("t=%g: tube velocities carry %r, prescribed mass flow is %r" % (times[i], mtot, spec.get("mdot", 2.0e5)))
            if spec.get("steady", True) and heat != 0 and not (spec.get("reset") and np.isclose(times[i] % spec.get("period", 24.0), 0)):
                if abs(gain / heat - 1.0) > 2.0 * dr / ri:
                    bad.append("t=%g: fluid heat gain / heat through outer surfaces = %.6f, outside 1 +- 2 dr/r_i = %.4f"
                               % (times[i], gain / heat, 2.0 * dr / ri))
    return bad


# ---------------------------------------------------------------------------
# bookkeeping correspondence through stubs
# ---------------------------------------------------------------------------
def real_setup_outcome(paths, npanels):
    receiver, thermal, library, solverparams, managers, flowpath = mods()
    spec = {"ndim": 1, "times": [0.0, 1.0], "panels": [[1]] * npanels, "paths": []}
    r = make_receiver(spec)
    for k, path in enumerate(paths):
        # add_flowpath itself rejects unknown panels; write the path record directly for those
        r.flowpaths["p%d" % k] = {"panels": [str(i) for i in path], "times": np.array([0.0, 1.0]),
                                  "mass_flow": np.array([1.0, 1.0]), "inlet_temp": np.array([5.0, 5.0])}
    s = thermal.ThermohydraulicsThermalSolver()
    s.receiver = r
    for tube in r.tubes:
        tube.add_blank_axial_results("fluid_temperature")
        tube.add_blank_axial_results("fluid_velocity")
        tube.add_blank_quadrature_results("ghost_temperature", (tube.ntime,) + thermal.tube_dim(tube))
    try:
        s._setup()
        return "ok"
    except ValueError as e:
        return "duplicate" if "more than one" in str(e) else ("missing" if "not in a flow path" in str(e) else "other:" + str(e))
    except KeyError:
        return "keyerror"


def real_chain(panel_sizes):
    receiver, thermal, library, solverparams, managers, flowpath = mods()
    times = np.array([0.0, 1.0])
    fp = flowpath.FlowPath(times, np.array([1.0, 1.0]), np.array([5.0, 5.0]))
    for n in panel_sizes:
        fp.add_panel(np.ones(n), 1.0, 1.0, np.zeros((2, n, 3, 2)), None)
    fp._setup()
    # tag what recover_tube_results returns per chain position
    for pos, obj in enumerate(fp.chain):
        obj.flow_rates = (lambda pos: (lambda a, b, t: ("rate", pos)))(pos)
        obj.fluid_temperatures = (lambda pos: (lambda a, b, t: ("temp", pos)))(pos)
    rates, temps = fp.recover_tube_results(np.zeros(fp.nvals), 0.5)
    return [list(d) for d in fp.dof_map], [x[1] for x in rates], [x[1] for x in temps]


def real_reset_history(times, period, reset):
    """solve_receiver with solve_step replaced by a stub that stamps the step number"""
    receiver, thermal, library, solverparams, managers, flowpath = mods()
    spec = {"ndim": 1, "times": list(times), "panels": [[1], [2]], "paths": [[0, 1]], "period": period, "T0": 0.0}
    r = make_receiver(spec)
    s = thermal.ThermohydraulicsThermalSolver()

    def stub(i, time, dt):
        for tube in r.tubes:
            tube.quadrature_results["ghost_temperature"][i] = float(i)
    s.solve_step = stub
    kw = managers.CycleResetHeuristic().args_for_thermohydraulic_solver(r) if reset else {}
    s.solve_receiver(r, None, None, **kw)
    out = []
    for tube in r.tubes:
        out.append([int(round(float(np.ravel(tube.results["temperature"][i])[0]))) for i in range(len(times))])
    return out


def real_write_back(panel_sizes, order):
    receiver, thermal, library, solverparams, managers, flowpath = mods()
    spec = {"ndim": 1, "times": [0.0, 1.0], "panels": [[1] * n for n in panel_sizes], "paths": [order]}
    r = make_receiver(spec)
    s = thermal.ThermohydraulicsThermalSolver()
    s.receiver = r
    s.fluid_material = None
    for tube in r.tubes:
        tube.add_blank_axial_results("fluid_temperature")
        tube.add_blank_axial_results("fluid_velocity")

    class Fake:
        def __init__(self, *a, **k):
            self.names = []

        def add_panel_from_object(self, panel, mat):
            self.names.append(panel)

        def solve(self, t):
            return None

        def recover_tube_results(self, T, t):
            # position i in the chain carries tag 100*i + k for tube k
            rates = [[np.full(4, 100.0 * i + k) for k in range(p.ntubes)] for i, p in enumerate(self.names)]
            temps = [[np.full(4, -(100.0 * i + k)) for k in range(p.ntubes)] for i, p in enumerate(self.names)]
            return rates, temps
    orig = thermal.flowpath.FlowPath
    thermal.flowpath.FlowPath = Fake
    try:
        s.solve_fluid(1, 1.0, 1.0)
    finally:
        thermal.flowpath.FlowPath = orig
    got = []
    for pos, p in enumerate(order):
        for k, tube in enumerate(list(r.panels.values())[p].tubes.values()):
            got.append((str(p), k, int(tube.axial_results["fluid_velocity"][1][0]), int(-tube.axial_results["fluid_temperature"][1][0])))
    return got


def run(ctx):
    ctx.rule = ("bookkeeping: random flow-path partitions (incl. duplicated and missing panels), chain layouts of 1-4 panels "
                "with 1-4 tubes, random time grids/periods for the reset, random traversal orders for the write-back; "
                "real coupled solves: small receivers, 1D/2D/3D, multipliers, steady/transient, with/without reset; "
                "non-trivial = at least two panels or a reset/invalid partition")
    ctx.trusted = ["Lean 4 kernel + Mathlib (propext, Classical.choice, Quot.sound)",
                   "stubs standing in for solve_step / FlowPath in the bookkeeping correspondence",
                   "Picard convergence is C17; jax AD affects only convergence",
                   "energy bound 2*dr/r_i is the property's own tolerance; the sharp factor is SrProps.C07.energy_factor_bound"]
    ctx.assumptions = ["uniform geometry within a panel (the code takes radius and height from the first tube)"]
    thm_ok = common.lean_stage(ctx, [("SrProps.C07", "SrProps/C07.lean", "SrProps.C07")])
    rng = ctx.rng
    drv = common.LeanDriver(["SrModel.Coupled"])
    lines, expect = [], []
    nset = 60 if ctx.quick() else 600
    for n in range(nset):
        npan = rng.randint(1, 4)
        names = list(range(npan))
        mode = n % 4
        pool = names[:]
        if mode == 1 and npan > 1:
            pool = names + [rng.choice(names)]          # a panel twice
        elif mode == 2:
            pool = names[:-1]                            # a panel missing
        elif mode == 3:
            pool = names[:-1] + [npan + 3]               # unknown panel instead
        rng.shuffle(pool)
        cuts = sorted(rng.sample(range(len(pool) + 1), min(len(pool) + 1, rng.randint(0, 2))))
        paths, prev = [], 0
        for c in cuts + [len(pool)]:
            if c > prev:
                paths.append(pool[prev:c])
            prev = c
        try:
            real = real_setup_outcome(paths, npan)
        except Exception as e:
            real = "error: %s" % type(e).__name__
        lines.append("c07setup %s %s" % (";".join(",".join(str(x) for x in p) for p in paths) or "-",
                                          ",".join(str(x) for x in names)))
        expect.append(("setup", (paths, npan), real))
    nchain = 30 if ctx.quick() else 300
    for n in range(nchain):
        sizes = [rng.randint(1, 4) for _ in range(rng.randint(1, 4))]
        try:
            dm, rates, temps = real_chain(sizes)
        except Exception as e:
            dm, rates, temps = [["error: %s" % type(e).__name__]], [], []
        lines.append("c07chain " + ",".join("p%d:%d" % (i, s) for i, s in enumerate(sizes)))
        expect.append(("chain", sizes, (dm, rates, temps)))
    nres = 30 if ctx.quick() else 300
    for n in range(nres):
        nt = rng.randint(2, 7)
        period = rng.choice([2.0, 3.0, 24.0])
        times = np.cumsum([0.0] + [rng.choice([0.5, 1.0, 1.5, 2.0]) for _ in range(nt - 1)])
        reset = n % 3 != 0
        try:
            hist = real_reset_history(times, period, reset)
        except Exception as e:  # reported as a disagreement; the real solves below give the failing input
            hist = [["error: %s: %s" % (type(e).__name__, e)]]
        trig = "".join("1" if np.isclose(t % period, 0) else "0" for t in times)
        lines.append("c07reset %d %d %s" % (nt - 1, 1 if reset else 0, trig))
        expect.append(("reset", (list(times), period, reset), hist))
    answers = drv.ask(lines)
    mism = []
    for (kind, inp, real), ans in zip(expect, answers):
        if kind == "setup":
            ok = (real == ans) or (real == "keyerror")   # an unknown name fails earlier in the real code
            if real == "keyerror" and ans == "ok":
                ok = False
            ctx.case(("setup", str(inp)), nontrivial=(real != "ok" or len(inp[0]) > 1), tag="setup/" + real,
                     sample={"suite": "_setup validation", "paths": inp[0], "npanels": inp[1], "real": real, "model": ans})
        elif kind == "chain":
            dm, rates, temps = real
            want_dm = ";".join(",".join(str(x) for x in d) for d in dm)
            want_pos = [2 * i + 1 for i in range(len(inp))]
            model_dm, model_names = ans.split("|")
            ok = (model_dm == want_dm and rates == want_pos and temps == want_pos
                  and model_names == ",".join("p%d" % i for i in range(len(inp))))
            ctx.case(("chain", tuple(inp)), nontrivial=len(inp) > 1, tag="chain/%dpanels" % len(inp),
                     sample={"suite": "chain layout / recovery", "sizes": inp, "real_dof_map": dm, "real_positions": rates, "model": ans})
        else:
            times, period, reset = inp
            ok = all(",".join(str(x) for x in h) == ans for h in real)
            ctx.case(("reset", tuple(times), period, reset), nontrivial=reset, tag="reset/%s" % reset,
                     sample={"suite": "initial condition / cycle reset", "times": times, "period": period, "reset": reset,
                             "real": real[0], "model": ans})
        if not ok:
            mism.append((kind, inp, real, ans))
    # write-back (property-level, exact)
    wb_bad = []
    for n in range(20 if ctx.quick() else 200):
        sizes = [rng.randint(1, 3) for _ in range(rng.randint(1, 4))]
        order = list(range(len(sizes)))
        rng.shuffle(order)
        try:
            got = real_write_back(sizes, order)
        except Exception as e:
            got = ["error: %s: %s" % (type(e).__name__, e)]
        want = []
        for pos, p in enumerate(order):
            for k in range(sizes[p]):
                want.append((str(p), k, 100 * pos + k, 100 * pos + k))
        ctx.case(("wb", tuple(sizes), tuple(order)), nontrivial=len(sizes) > 1, tag="writeback")
        if got != want:
            wb_bad.append((sizes, order, got[:4], want[:4]))
    ctx.obligation("correspondence: _setup validation, chain/dof map/recovery, reset history of the real code == SrModel.Coupled",
                   not mism, "%d mismatches; first: %s" % (len(mism), mism[:1]))
    ctx.obligation("write-back of solve_fluid pairs panel i / tube k with entry (i, k) for every traversal order",
                   not wb_bad, "%d bad; first: %s" % (len(wb_bad), wb_bad[:1]))
    # ---- real coupled solves ----
    specs = [
        {"name": "1D two panels, multipliers, steady", "ndim": 1, "times": [0.0, 1.0, 2.0], "panels": [[3, 2], [2, 5]], "paths": [[0, 1]]},
        {"name": "2D reversed order, steady, varying inlet", "ndim": 2, "times": [0.0, 1.0, 2.0], "panels": [[2], [1, 4]], "paths": [[1, 0]],
         "inlet": [800.0, 810.0, 795.0], "nr": 6},
        {"name": "1D transient with cycle reset", "ndim": 1, "times": [0.0, 1.0, 2.0, 3.0, 4.0], "panels": [[2], [3]], "paths": [[0], [1]],
         "steady": False, "reset": True, "period": 2.0, "qt": [1.0, 1.0, 0.5, 1.0, 0.5],
         "inlets": [[800.0, 805.0, 800.0, 805.0, 800.0], [840.0, 830.0, 840.0, 830.0, 840.0]]},
    ]
    # tubes of realistic length (8 m): the fluid heats up by about 20 K along a panel, comparable with the
    # wall-to-fluid film drop, so cooling the slice of a 1D/2D tube with the fluid of the wrong height is visible
    # in the energy balance (with 0.2 m tubes the rise is 0.3 K and nothing about the axial position shows)
    specs += [
        {"name": "1D long tubes (fluid rise ~ film drop), steady", "ndim": 1, "times": [0.0, 1.0], "panels": [[3, 2], [2]],
         "paths": [[0, 1]], "H": 8000.0},
        {"name": "2D long tubes (fluid rise ~ film drop), steady", "ndim": 2, "times": [0.0, 1.0], "panels": [[2], [1, 3]],
         "paths": [[0, 1]], "H": 8000.0},
    ]
    # a long plateau of constant flux (the lagged conductivity has settled, the wall no longer moves on the first
    # Picard pass) during which the prescribed inlet temperature and mass flow change: the fluid must still be
    # re-solved for the inputs of THAT time
    specs += [
        {"name": "1D steady plateau, inlet steps at t=5 and t=7", "ndim": 1, "times": [0.0, 1.0, 2.0, 3.0, 4.0, 5.0, 6.0, 7.0, 8.0],
         "panels": [[2], [1]], "paths": [[0, 1]], "inlet": [800.0, 800.0, 800.0, 800.0, 800.0, 820.0, 820.0, 790.0, 790.0]},
    ]
    # panels of different tube gauge on one path (each wall convects with the film coefficient of ITS bore), and a
    # shaded tube without any outer condition listed before an otherwise identical lit tube
    specs += [
        {"name": "1D two gauges on one path, steady", "ndim": 1, "times": [0.0, 1.0], "panels": [[2], [3]], "paths": [[0, 1]],
         "panel_geom": [[10.0, 1.0], [6.0, 1.0]], "H": 8000.0, "nr": 9},
        {"name": "1D shaded tube listed before a lit twin, steady", "ndim": 1, "times": [0.0, 1.0], "panels": [[1, 1], [2]],
         "paths": [[0, 1]], "shaded": [[0, 0]], "identical": True, "H": 8000.0},
    ]
    # a 3-D tube whose flux RISES along the axis (0.2 .. 1.8 of the base value): the fluid at an axial station must see
    # the wall of the same station (every tier: the other 3-D case is thorough-only and axially uniform)
    specs += [
        {"name": "3D one tube, flux rising along the axis, steady", "ndim": 3, "times": [0.0, 1.0], "panels": [[2]], "paths": [[0]],
         "nr": 6, "nt": 4, "nz": 5, "qz": True, "H": 8000.0},
    ]
    if not ctx.quick():
        specs += [
            {"name": "3D two panels steady", "ndim": 3, "times": [0.0, 1.0], "panels": [[3, 2], [2]], "paths": [[0, 1]], "nr": 6},
            {"name": "2D transient reset", "ndim": 2, "times": [0.0, 12.0, 24.0, 36.0, 48.0], "panels": [[2], [3]], "paths": [[0, 1]],
             "steady": False, "reset": True},
            {"name": "1D fine mesh steady", "ndim": 1, "times": [0.0, 1.0], "panels": [[1], [1], [1]], "paths": [[2, 0, 1]], "nr": 12},
        ]
    viol = []
    for spec in specs:
        try:
            r, fl = solve(spec)
        except Exception as e:  # the solve must complete
            viol.append((spec, "complete", "coupled solve did not complete: %s: %s" % (type(e).__name__, e)))
            ctx.case(("solve", spec["name"]), tag="real/failed")
            continue
        bad = predicates(spec, r, fl)
        ctx.case(("solve", spec["name"]), nontrivial=True, tag="real/%dD" % spec["ndim"],
                 sample={"suite": "real coupled solve", "spec": spec["name"], "failures": bad[:2]})
        for m in bad:
            viol.append((spec, "predicate", m))
    # multiplier equivalence: k identical tubes of multiplier m  vs  one tube of multiplier k*m
    a = {"name": "equiv-A", "ndim": 1, "times": [0.0, 1.0], "panels": [[2, 2, 2], [3]], "paths": [[0, 1]], "identical": True}
    b = {"name": "equiv-B", "ndim": 1, "times": [0.0, 1.0], "panels": [[6], [3]], "paths": [[0, 1]], "identical": True}
    try:
        ra, _ = solve(a)
        rb, _ = solve(b)
        Ta = list(ra.panels.values())[0].tubes["0"].results["temperature"]
        Tb = list(rb.panels.values())[0].tubes["0"].results["temperature"]
        T2a = list(ra.panels.values())[1].tubes["0"].results["temperature"]
        T2b = list(rb.panels.values())[1].tubes["0"].results["temperature"]
        d = max(float(np.max(np.abs(Ta - Tb))), float(np.max(np.abs(T2a - T2b))))
        ctx.case(("equiv",), nontrivial=True, tag="real/multiplier-equivalence",
                 sample={"suite": "3 tubes x multiplier 2 vs 1 tube x multiplier 6", "max_temperature_difference": d})
        if d > 1e-5:
            viol.append((a, "multiplier", "k identical tubes of multiplier m vs one tube of multiplier k*m: temperatures differ by %.3e" % d))
    except Exception as e:
        viol.append((a, "complete", "coupled solve did not complete: %s: %s" % (type(e).__name__, e)))
    ctx.obligation("property predicate on real coupled solves (completes, inlet, panel order, linear profile, mass split, "
                   "energy within 2 dr/r_i, starts at T0, reset, multiplier equivalence)",
                   not viol, "%d failures; first: %s" % (len(viol), viol[0][2] if viol else ""))
    for spec, what, detail in viol[:10]:
        ctx.violation("real coupled solve (%s): %s" % (spec["name"], detail), {"spec": spec, "check": what}, signature="c07:" + what)
    if wb_bad and not viol:
        ctx.violation("solve_fluid writes per-tube results to the wrong tube", {"write_back": wb_bad[:3]}, signature="c07:writeback")
    if not ctx.violations and (mism or not thm_ok):
        ctx.violation("C07 theorem or bookkeeping correspondence no longer checks",
                      {"mismatches": mism[:4], "lean": ctx.extra.get("lean_errors"), "theorems": ctx.extra.get("broken_theorems")},
                      no_input=True)
    return "proof"


def replay(obj):
    r = obj["replay"]
    if "spec" in r:
        spec = r["spec"]
        if r.get("check") == "multiplier":
            print("re-run ./check C07 for the equivalence pair")
            return 1
        try:
            rec, fl = solve(spec)
        except Exception as e:
            print("FAILS: solve did not complete:", type(e).__name__, e)
            return 1
        bad = predicates(spec, rec, fl)
        for m in bad:
            print("FAILS:", m)
        print("property violated on this input" if bad else "property holds on this input")
        return 1 if bad else 0
    print("replay names no input:", list(r))
    return 1


if __name__ == "__main__":
    sys.exit(common.main("C07", run, replay))
