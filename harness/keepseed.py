"""usage: keepseed.py <seedout dir> <seedtest log> [note]
copies a confirmed seeded change to /verif/seeded/<id>/ with a meta.json recording what was run"""
import json, os, re, shutil, sys
src, log = sys.argv[1], sys.argv[2]
note = sys.argv[3] if len(sys.argv) > 3 else ""
name = os.path.basename(src.rstrip("/"))
dst = os.path.join("/verif/seeded", name)
os.makedirs(dst, exist_ok=True)
for f in ("patch.diff", "demo.py"):
    shutil.copy(os.path.join(src, f), os.path.join(dst, f))
meta = json.load(open(os.path.join(src, "meta.json")))
txt = open(log).read()
m1 = re.search(r"== demo on changed tree\nexit=(\d+)", txt)
m2 = re.search(r"== demo on /repo\nexit=(\d+)", txt)
m3 = re.search(r"stable tests passing: (\d+)/(\d+)", txt)
checks = {}
for m in re.finditer(r"== check (C\d+) against changed tree\n(.*?)(?=\n== |\Z)", txt, re.S):
    body = m.group(2)
    viol = [l.strip() for l in body.split("\n") if l.startswith("VIOLATION")]
    what = [l.strip() for l in body.split("\n") if l.strip().startswith("violation:")]
    checks[m.group(1)] = {"detected": bool(viol), "with_failing_input": bool(viol) and not all("no-failing-input-found" in v for v in viol),
                          "first": (what[0] if what else "")[:400]}
out = {
    "breaks_property": meta.get("property"),
    "summary": meta.get("summary"),
    "needs_to_manifest": meta.get("needs_to_manifest"),
    "why_tests_pass": meta.get("why_tests_pass"),
    "author_ran": meta.get("ran"),
    "confirmed_by_me": {
        "how": "harness/seedtest.sh: patch applied to a scratch worktree of /repo HEAD; demo.py run on the changed tree and on /repo; the 76 stable tests run on the changed tree; checks run with SRLIFE_REPO=<worktree>",
        "demo_exit_changed_tree": int(m1.group(1)) if m1 else None,
        "demo_exit_repo": int(m2.group(1)) if m2 else None,
        "stable_tests_passing": "%s/%s" % (m3.group(1), m3.group(2)) if m3 else None,
    },
    "checks_run": checks,
    "note": note,
}
json.dump(out, open(os.path.join(dst, "meta.json"), "w"), indent=1)
print(name, {k: (v["detected"], v["with_failing_input"]) for k, v in checks.items()}, out["confirmed_by_me"])
