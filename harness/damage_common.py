"""Shared pieces of the C01 / C09 checks (metallic creep-fatigue life, srlife/damage.py).

* independent reading of the shipped damage XML files (for the Lean model's material parameters),
* generator of synthetic solved receivers (result fields only; `DamageCalculator` reads
  `tube.times`, `tube.quadrature_results[...]`, `receiver.period`, `receiver.days`, `receiver.tubes`),
* the real run (creep_damage, fatigue_damage, id_cycles, single_cycles, determine_life),
* the request line for `SrModel.Damage.handle` and the parser of its answer,
* an independent numpy re-computation of the per-cycle damages (deviator form) used by the
  property predicates.
"""
import glob
import math
import os
import xml.etree.ElementTree as ET

import numpy as np

import common
from common import REPO

STRESS = ["stress_xx", "stress_yy", "stress_zz", "stress_yz", "stress_xz", "stress_xy"]
STRAIN = ["mechanical_strain_xx", "mechanical_strain_yy", "mechanical_strain_zz",
          "mechanical_strain_yz", "mechanical_strain_xz", "mechanical_strain_xy"]
DATA_DIR = os.path.join(REPO, "srlife", "data", "damage")


# ---------------------------------------------------------------------------
# materials
# ---------------------------------------------------------------------------
def metallic_materials():
    names = []
    for p in sorted(glob.glob(os.path.join(DATA_DIR, "*.xml"))):
        if ET.parse(p).getroot().attrib.get("type") == "metallic":
            names.append(os.path.splitext(os.path.basename(p))[0])
    if not names:
        raise common.Infra("no metallic damage material under %s" % DATA_DIR)
    return names


def _floats(s):
    return [float(x) for x in s.split()]


def _ints(xs, what):
    out = []
    for x in xs:
        if x != int(x) or x < 0:
            raise common.Infra("non-natural exponent %r in %s: outside the model" % (x, what))
        out.append(int(x))
    return out


KNEE_VARIANT = (0.1, 0.01)     # an interaction diagram whose knee is off the diagonal (every shipped one is symmetric)


def parse_material(name, variant="base"):
    """independent reading of the XML (not through srlife.materials).  A name "X@knee" is material X with the
    interaction knee replaced by KNEE_VARIANT (a user variant; not shipped)"""
    if name.endswith("@knee"):
        m = dict(parse_material(name[:-5], variant))
        m.update(name=name, x2=KNEE_VARIANT[0], y2=KNEE_VARIANT[1])
        return m
    node = ET.parse(os.path.join(DATA_DIR, name + ".xml")).getroot().find(variant)
    rup = node.find("averageRupture")
    curves = []
    for c in node.find("nominalFatigue"):
        T = _floats(c.find("T").text)
        cut = _floats(c.find("cutoff").text)
        a = _floats(c.find("a").text)
        n = _ints(_floats(c.find("n").text), name + " fatigue n")
        if len(T) != 1 or len(cut) != 1 or len(a) != len(n):
            raise common.Infra("unexpected fatigue curve layout in %s" % name)
        curves.append(dict(T=T[0], cutoff=cut[0], a=a, n=n))
    Ts = [c["T"] for c in curves]
    if len(set(Ts)) != len(Ts):
        raise common.Infra("duplicate fatigue-curve temperatures in %s (argsort tie: outside the model)" % name)
    knee = _floats(node.find("cfinteraction").text)
    a = _floats(rup.find("a").text)
    n = _ints(_floats(rup.find("n").text), name + " rupture n")
    if len(a) != len(n):
        raise common.Infra("rupture a/n lengths differ in %s" % name)
    return dict(name=name, C=_floats(rup.find("C").text)[0], a=a, n=n, curves=curves,
                x2=knee[0], y2=knee[1], Tmax=max(Ts))


_real_cache = {}


def real_material(name, variant="base"):
    from srlife import library
    key = (name, variant)
    if key not in _real_cache:
        if name.endswith("@knee"):
            import copy
            m = copy.deepcopy(library.load_damage(name[:-5], variant))
            m.data["cfinteraction"] = "%r %r" % KNEE_VARIANT
            _real_cache[key] = m
        else:
            _real_cache[key] = library.load_damage(name, variant)
    return _real_cache[key]


def common_tmax():
    return min(parse_material(n)["Tmax"] for n in metallic_materials())


# ---------------------------------------------------------------------------
# cases
# ---------------------------------------------------------------------------
REGIMES = ("zero", "crossing", "inf")


def _uniform(rng, lo, hi):
    return lo + (hi - lo) * rng.random()


def gen_times(rng, period, days, nints):
    """`nints[d]` intervals in day d; day boundaries at d*period (float product)"""
    ts = []
    for d in range(days):
        offs = sorted(_uniform(rng, 0.02, 0.98) * period for _ in range(nints[d] - 1))
        ts.append(d * period)
        ts.extend(d * period + o for o in offs)
    ts.append(days * period)
    return ts


def gen_tube(rng, regime, nt, ne, nq, tmax, zero_stress_prob=0.05):
    """fields (nt, ne, nq); the regime only steers magnitudes"""
    npr = np.random.default_rng(rng.getrandbits(32))
    shape = (nt, ne, nq)
    if regime == "zero":
        s = _uniform(rng, 60.0, 80.0)
        e = _uniform(rng, 1e-3, 2.4e-3)
        tlo, thi = tmax - 60.0, tmax - 1.0
    elif regime == "inf":
        s = 10 ** _uniform(rng, -1.0, 0.3)
        e = 10 ** _uniform(rng, -6.0, -4.5)
        tlo, thi = 560.0, 700.0
    else:
        s = 10 ** _uniform(rng, 1.2, 1.9)
        e = 10 ** _uniform(rng, -3.5, -2.62)
        tlo, thi = _uniform(rng, 650.0, 850.0), _uniform(rng, 880.0, tmax - 1.0)
    stress = npr.uniform(-s, s, (6,) + shape)
    if rng.random() < 0.5:
        stress[3:] *= 0.3
    mask = npr.random(shape) < zero_stress_prob
    stress[:, mask] = 0.0
    strain = npr.uniform(-e, e, (6,) + shape)
    temp = npr.uniform(tlo, thi, shape)
    return dict(stress=stress, strain=strain, temp=temp)


def gen_case(rng, regime=None, material=None, mode=None, ntubes=None, days=None, period=None,
             same_times=False):
    mats = metallic_materials()
    material = material or rng.choice(mats)
    regime = regime or rng.choice(REGIMES)
    mode = mode or rng.choice(["lump", "last"])
    ntubes = ntubes or rng.randint(1, 3)
    days = days or rng.randint(1, 3)
    period = period if period is not None else rng.choice([24.0, 24.0, 12.0, 10.0, 8.5, 1.0, 6.25])
    tmax = common_tmax()
    tubes = []
    base_times = None
    for _ in range(ntubes):
        ne, nq = rng.randint(1, 4), rng.randint(1, 4)
        if base_times is None or not same_times:
            nints = [rng.randint(1, 11) for _ in range(days)]
            base_times = gen_times(rng, period, days, nints)
        times = list(base_times)
        t = gen_tube(rng, regime, len(times), ne, nq, tmax)
        t["times"] = np.array(times)
        tubes.append(t)
    return dict(material=material, mode=mode, period=float(period), days=days, tubes=tubes, regime=regime)


def curved_case(rng, material):
    """one tube, one or two material points following the SAME smooth non-proportional (elliptic) strain path
    e(t) = A cos wt + B sin wt sampled at 24 instants; low constant stress so that fatigue governs.  The two
    farthest-apart states of such a path are in general not instants at which any single component peaks."""
    npr = np.random.default_rng(rng.getrandbits(32))
    nt, nq = 25, rng.randint(1, 2)
    amp = 10 ** rng.uniform(-2.9, -2.45)
    A, B = npr.uniform(-1, 1, 6) * amp, npr.uniform(-1, 1, 6) * amp * rng.uniform(0.3, 1.0)
    ph = 2 * np.pi * np.arange(nt) / (nt - 1)
    path = A[:, None] * np.cos(ph)[None, :] + B[:, None] * np.sin(ph)[None, :]          # (6, nt)
    strain = np.zeros((6, nt, 1, nq))
    for q in range(nq):
        strain[:, :, 0, q] = path * (1.0 if q == 0 else 0.8)
    stress = np.zeros((6, nt, 1, nq)); stress[2] = rng.uniform(5.0, 20.0)
    temp = np.full((nt, 1, nq), common_tmax() - rng.uniform(60.0, 150.0))
    times = np.linspace(0.0, 24.0, nt)
    return dict(material=material, mode="lump", period=24.0, days=1, regime="crossing",
                tubes=[dict(stress=stress, strain=strain, temp=temp, times=times)])


def bracket_case(rng, material, mode=None):
    """three represented days whose peak metal temperatures differ by 100-300 K (so they fall in different
    temperature brackets of a material with several fatigue curves) and whose strain amplitudes differ too:
    each cycle's fatigue damage must be looked up at THAT cycle's maximum temperature"""
    c = gen_case(rng, regime="crossing", material=material, mode=mode or rng.choice(["lump", "last"]), days=3, ntubes=1,
                 period=24.0)
    t = c["tubes"][0]
    times = t["times"]
    tmax = common_tmax()
    levels = rng.sample([tmax - 20.0, tmax - 120.0, tmax - 220.0, tmax - 320.0], 3)
    for d in range(3):
        sel = (times > d * 24.0) & (times <= (d + 1) * 24.0)
        if d == 0:
            sel = sel | (times == 0.0)
        npr = np.random.default_rng(rng.getrandbits(32))
        t["temp"][sel] = levels[d] + npr.uniform(-8.0, 0.0, t["temp"][sel].shape)
        t["strain"][:, sel] *= rng.choice([0.5, 1.0, 2.0])
    return c


def scale_time_to_creep(case, target):
    """rescale the time axis (by a power of two: exact) so that the worst point of tube 0 collects about `target`
    creep damage per represented day; returns True when done"""
    d = indep_damages(case)[0]
    if d is None:
        return False
    worst = float(np.max(np.mean(d[0], axis=0)))
    if not (worst > 0 and math.isfinite(worst)):
        return False
    f = 2.0 ** round(math.log2(target / worst))
    for t in case["tubes"]:
        t["times"] = np.asarray(t["times"], dtype=float) * f
    case["period"] = float(case["period"] * f)
    return True


def short_life_case(rng, material, mode):
    """several represented days and a load so severe that the envelope is crossed INSIDE the stored days (life
    between 1 and days): the time axis is rescaled so that the worst point collects 0.25-0.45 creep damage per day.
    Extrapolation rules that treat N below and above the number of stored days differently are exercised here only."""
    days = rng.choice([3, 4, 6])
    c = gen_case(rng, regime="crossing", material=material, mode=mode, days=days, ntubes=1, period=24.0)
    d = indep_damages(c)[0]
    if d is None:
        return c
    worst = float(np.max(np.mean(d[0], axis=0)))
    if not (worst > 0 and math.isfinite(worst)):
        return c
    # creep damage is linear in the time scale; a power of two keeps every time and the day boundaries exact
    f = 2.0 ** round(math.log2(rng.uniform(0.25, 0.45) / worst))
    t = c["tubes"][0]
    t["times"] = np.asarray(t["times"], dtype=float) * f
    c["period"] = float(c["period"] * f)
    return c


def fatigue_short_case(rng, material):
    """lumped mode, one represented day, a FATIGUE-dominated worst point with a life of a few cycles: the strains are
    scaled (bisection on the independent formulas) until the worst point collects 0.12-0.9 fatigue damage per cycle, the
    time axis is shrunk until its creep damage is below 1e-6.  The ray N (Df, Dc) then meets the fatigue-side segment of
    the envelope between N = 1 and N = 1/knee; rules that look at the creep-side segment first are exercised here only."""
    c = gen_case(rng, regime="crossing", material=material, mode="lump", days=1, ntubes=1, period=24.0)
    t = c["tubes"][0]
    target = rng.uniform(0.12, 0.9)
    base = np.array(t["strain"], dtype=float)

    def worst(f):
        t["strain"] = base * f
        try:
            d = indep_damages(c)[0]
        except Exception:
            return None
        if d is None:
            return None
        v = float(np.max(d[1]))
        return v if math.isfinite(v) else None

    lo, hi = 2.0 ** -12, 2.0 ** 6
    for _ in range(40):
        mid = math.sqrt(lo * hi)
        v = worst(mid)
        if v is None or v > target:
            hi = mid
        else:
            lo = mid
    v = worst(lo)
    if v is None:
        t["strain"] = base
        return c
    d = indep_damages(c)[0]
    cr = float(np.max(d[0]))
    if cr > 1e-6 and math.isfinite(cr):
        f = 2.0 ** math.floor(math.log2(1e-6 / cr))
        t["times"] = np.asarray(t["times"], dtype=float) * f
        c["period"] = float(c["period"] * f)
    return c


def tail_case(rng, material, mode):
    """a history that goes on after the last represented cycle boundary (a hold / shutdown tail that does not reach the
    next multiple of the period): the tail belongs to no represented day"""
    c = gen_case(rng, regime="crossing", material=material, mode=mode, days=rng.choice([1, 2, 3]), ntubes=1, period=24.0)
    t = c["tubes"][0]
    ntail = rng.randint(1, 3)
    last = float(t["times"][-1])
    extra = sorted(last + rng.uniform(0.5, 23.0) for _ in range(ntail))
    t["times"] = np.concatenate([np.asarray(t["times"], dtype=float), np.array(extra)])
    for k in ("stress", "strain"):
        add = np.repeat(t[k][:, -1:], ntail, axis=1) * np.array([rng.uniform(1.0, 2.0) for _ in range(ntail)])[None, :, None, None]
        t[k] = np.concatenate([t[k], add], axis=1)
    t["temp"] = np.concatenate([t["temp"], np.repeat(t["temp"][-1:], ntail, axis=0)], axis=0)
    return c


def case_to_json(case):
    return dict(material=case["material"], mode=case["mode"], period=case["period"], days=case["days"],
                regime=case.get("regime"),
                tubes=[dict(times=[float(x) for x in t["times"]], stress=t["stress"].tolist(),
                            strain=t["strain"].tolist(), temp=t["temp"].tolist()) for t in case["tubes"]])


def case_from_json(obj):
    return dict(material=obj["material"], mode=obj["mode"], period=float(obj["period"]), days=int(obj["days"]),
                regime=obj.get("regime"),
                tubes=[dict(times=np.array(t["times"], dtype=float), stress=np.array(t["stress"], dtype=float),
                            strain=np.array(t["strain"], dtype=float), temp=np.array(t["temp"], dtype=float))
                       for t in obj["tubes"]])


def case_size(case):
    return sum(t["temp"].size * 13 for t in case["tubes"])


# ---------------------------------------------------------------------------
# the real code
# ---------------------------------------------------------------------------
def make_receiver(case):
    from srlife import receiver
    rcv = receiver.Receiver(case["period"], case["days"], "disconnect")
    panel = receiver.Panel("disconnect")
    for t in case["tubes"]:
        tube = receiver.Tube(10.0, 1.0, 100.0, 3, 4, 2)
        tube.set_times(np.array(t["times"], dtype=float))
        for k, n in enumerate(STRESS):
            tube.add_quadrature_results(n, np.array(t["stress"][k]))
        for k, n in enumerate(STRAIN):
            tube.add_quadrature_results(n, np.array(t["strain"][k]))
        tube.add_quadrature_results("temperature", np.array(t["temp"]))
        panel.add_tube(tube)
    rcv.add_panel(panel)
    return rcv


def make_calculator(mode):
    from srlife import damage, solverparams
    ps = solverparams.ParameterSet()
    ps["extrapolate"] = mode
    return damage.TimeFractionInteractionDamage(ps)


def canon_life(x):
    """0 -> 'zero', inf -> 'inf', else float"""
    if isinstance(x, (int, np.integer)) and x == 0:
        return "zero"
    x = float(x)
    if x == 0.0:
        return "zero"
    if math.isinf(x):
        return "inf"
    return x


def _err_kind(e):
    msg = str(e)
    if "not compatible" in msg:
        return "raise cycles"
    if "out of range for cycle" in msg:
        return "raise temp"
    return "raise other: %s" % msg[:80]


class _Hang(Exception):
    pass


def guarded(fn, seconds=90, tries=3):
    """run `fn()`; `multiprocess.Pool` teardown inside determine_life can (rarely) dead-lock when a
    worker is killed from outside — do not hang the check: time out, retry, then give up as an
    infrastructure problem"""
    import signal

    def on_alarm(signum, frame):
        raise _Hang()

    for _ in range(tries):
        old = signal.signal(signal.SIGALRM, on_alarm)
        signal.alarm(seconds)
        try:
            return fn()
        except _Hang:
            continue
        finally:
            signal.alarm(0)
            signal.signal(signal.SIGALRM, old)
    raise common.Infra("determine_life did not return within %d s (%d tries)" % (seconds, tries))


def real_run(case, with_life=True, nthreads=1):
    """what the real code computes; dict(status, life, tubes=[dict(inds, Dc, Df, life)])"""
    mat = real_material(case["material"])
    rcv = make_receiver(case)
    dm = make_calculator(case["mode"])
    out = dict(status="ok", tubes=[])
    for tube in rcv.tubes:
        rec = {}
        try:
            rec["inds"] = [int(i) for i in dm.id_cycles(tube, rcv)]
            rec["Dc"] = dm.creep_damage(tube, mat, rcv)
            rec["Df"] = dm.fatigue_damage(tube, mat, rcv)
            rec["life"] = canon_life(dm.single_cycles(tube, mat, rcv))
        except ValueError as e:
            rec["error"] = _err_kind(e)
        out["tubes"].append(rec)
    if with_life:
        try:
            out["life"] = canon_life(guarded(lambda: dm.determine_life(rcv, mat, nthreads=nthreads)))
        except ValueError as e:
            out["status"] = _err_kind(e)
    return out


def real_life(case, nthreads=1):
    """only determine_life (the observable of the property); ('ok', life) or (error kind, None)"""
    mat = real_material(case["material"])
    try:
        dm, rcv = make_calculator(case["mode"]), make_receiver(case)
        return "ok", canon_life(guarded(lambda: dm.determine_life(rcv, mat, nthreads=nthreads)))
    except ValueError as e:
        return _err_kind(e), None


# ---------------------------------------------------------------------------
# the Lean model
# ---------------------------------------------------------------------------
def _fs(xs):
    xs = list(xs)
    return ",".join(str(common.f2bits(x)) for x in xs) if xs else "-"


def material_words(m):
    curves = ";".join("%d:%d:%s:%s" % (common.f2bits(c["T"]), common.f2bits(c["cutoff"]), _fs(c["a"]),
                                        ",".join(str(k) for k in c["n"])) for c in m["curves"])
    return [str(common.f2bits(m["C"])), _fs(m["a"]), ",".join(str(k) for k in m["n"]), curves,
            str(common.f2bits(m["x2"])), str(common.f2bits(m["y2"]))]


def lean_line(case):
    m = parse_material(case["material"])
    words = ["dmg.recv", case["mode"], str(common.f2bits(case["period"])), str(case["days"])] + material_words(m)
    for t in case["tubes"]:
        nt, ne, nq = t["temp"].shape
        # [point][time][13], point = element-major
        arr = np.concatenate([t["stress"], t["strain"], t["temp"][None]], axis=0)  # (13, nt, ne, nq)
        flat = arr.reshape(13, nt, ne * nq).transpose(2, 1, 0).reshape(-1)
        words.append(_fs(t["times"]))
        words.append(_fs(flat))
    return " ".join(words)


def parse_life(s):
    if s in ("zero", "inf"):
        return s
    if s.startswith("f"):
        return common.bits2f(s[1:])
    raise common.Infra("bad life token %r" % s)


def _pf(s):
    return [] if s == "-" else [common.bits2f(x) for x in s.split(",")]


def parse_answer(ans):
    ans = ans.strip()
    if ans.startswith("raise"):
        return dict(status=ans)
    if not ans.startswith("ok "):
        raise common.Infra("model answered %r" % ans[:200])
    parts = ans[3:].split(";")
    out = dict(status="ok", life=parse_life(parts[0]), tubes=[])
    for p in parts[1:]:
        inds, dc, df, lives, life = p.split("|")
        out["tubes"].append(dict(inds=[] if inds == "-" else [int(x) for x in inds.split(",")],
                                 Dc=_pf(dc), Df=_pf(df),
                                 lives=[parse_life(x) for x in lives.split(",")], life=parse_life(life)))
    return out


def lives_match(a, b, mode, rel=1e-9):
    """'same' | 'jump' (|Δ| ≤ 1 in last mode) | 'diff'"""
    if isinstance(a, str) or isinstance(b, str):
        return "same" if a == b else "diff"
    if mode == "lump":
        return "same" if common.close(a, b, rel=rel, abs_=0.0) else "diff"
    if abs(a - b) <= 1e-6:
        return "same"
    if abs(a - b) <= 1.0 + 1e-6:
        return "jump"
    return "diff"


# ---------------------------------------------------------------------------
# independent numpy formulas (property predicate)
# ---------------------------------------------------------------------------
def _tensor(c6):
    """(6, ...) stored components xx,yy,zz,yz,xz,xy -> (..., 3, 3)"""
    xx, yy, zz, yz, xz, xy = c6
    return np.stack([np.stack([xx, xy, xz], -1), np.stack([xy, yy, yz], -1), np.stack([xz, yz, zz], -1)], -2)


def _dev(t):
    tr = np.trace(t, axis1=-2, axis2=-1)
    return t - tr[..., None, None] * np.eye(3) / 3.0


def indep_rupture(m, T, s):
    with np.errstate(divide="ignore", over="ignore", invalid="ignore"):
        L = np.log10(s)
        lmp = sum(b * L ** k for b, k in zip(m["a"], m["n"]))
        tr = np.power(10.0, lmp / T - m["C"])
    return np.where(s == 0.0, np.inf, tr)


def indep_nf(m, T, e):
    cs = sorted(m["curves"], key=lambda c: c["T"])
    for c in cs:
        if T <= c["T"]:
            e = max(e, c["cutoff"])
            L = math.log10(e)
            return 10.0 ** sum(b * L ** k for b, k in zip(c["a"], c["n"]))
    raise ValueError("temperature out of range")


def indep_windows(times, period, days):
    from fractions import Fraction
    p = Fraction(period)
    inds = [i for i, t in enumerate(times) if p != 0 and (Fraction(float(t)) / p).denominator == 1]
    if len(inds) != days + 1:
        return None
    return inds


def indep_damages(case):
    """per tube: (Dc, Df) arrays (days, npoints) from deviator-based formulas, or None (cycles)"""
    m = parse_material(case["material"])
    res = []
    for t in case["tubes"]:
        nt, ne, nq = t["temp"].shape
        inds = indep_windows(t["times"], case["period"], case["days"])
        if inds is None:
            res.append(None)
            continue
        sd = _dev(_tensor(t["stress"].reshape(6, nt, ne * nq)))
        vm = np.sqrt(1.5 * np.einsum("...ij,...ij", sd, sd))
        T = t["temp"].reshape(nt, ne * nq)
        tR = indep_rupture(m, T, vm)
        times = np.asarray(t["times"], dtype=float)
        Dc = np.zeros((case["days"], ne * nq))
        Df = np.zeros((case["days"], ne * nq))
        E = _tensor(t["strain"].reshape(6, nt, ne * nq))
        for d in range(case["days"]):
            a, b = inds[d], inds[d + 1]
            for k in range(a, b):
                Dc[d] += (times[k + 1] - times[k]) / tR[k + 1]
            for p in range(ne * nq):
                rng_ = 0.0
                for i in range(a, b):
                    for j in range(i + 1, b):
                        de = _dev(E[j, p] - E[i, p])
                        rng_ = max(rng_, math.sqrt(2.0 / 3.0 * float(np.sum(de * de))))
                Df[d, p] = 1.0 / indep_nf(m, float(np.max(T[a:b, p])), rng_)
        res.append((Dc, Df))
    return res


def indep_extrap(D, N, mode):
    D = list(D)
    if mode == "lump":
        return N * math.fsum(D) / len(D)
    n = int(N)
    if n < len(D) - 1:
        return math.fsum(D[:n])
    return math.fsum(D[:-1]) + D[-1] * n


def indep_inside(m, f, c):
    """closed region under the polyline (0,1)-(x2,y2)-(1,0); beyond f=1 nothing with c>=0 is inside
    except exactly on the continued line (measure zero)"""
    if f < m["x2"]:
        bound = 1.0 + (m["y2"] - 1.0) * f / m["x2"]
    else:
        bound = m["y2"] * (1.0 - f) / (1.0 - m["x2"])
    return c <= bound
