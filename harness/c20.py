"""C20 — shipped material data load and behave monotonically.

Lean:  SrModel/PW.lean (model + certificate checkers), SrProofs/Data.lean (soundness),
       SrProps/C20.lean (theorems about Gen/Data.lean), Gen/Data.lean (REGENERATED on every run by
       gen/gen_data.py from <repo>/srlife/data/**/*.xml; exact rationals).
Tie:   1. translator self-check: every generated table / correlation is evaluated by the Lean driver on
          Float and compared (1e-10 relative) with the real `conductivity / diffusivity / d… /
          coefficient / cp,rho,mu,k / time_to_rupture / cycles_to_fail / inside_envelope / strength …`
          of the objects the real loaders return, at random points inside (and a few outside) the ranges;
          the generated entry list is compared with an independent scan of the data directory;
       2. exhaustive real loading of every (file, variant) through library.load_thermal /
          load_deformation(+get_neml_model) / load_damage / load_fluid / load_thermal_fluid, and
          load_material for every variant triple;
       3. real save -> load (temp file) of every property-model type with random parameters and of every
          shipped model, compared by evaluations (bit-identical); the XML-tree model
          (save_node / load_node / find_name / split / join) against the real functions on random trees.
Search: the property itself on the real code — dense sweeps of positivity and monotonicity inside the
       recorded ranges (spec/ranges.json), envelope points, table values at knots, derivatives = slopes;
       items whose Lean certificate fails are swept ten times finer.
"""
import json
import math
import os
import shutil
import sys
import tempfile
import xml.etree.ElementTree as ET

sys.path.insert(0, os.path.dirname(os.path.abspath(__file__)))
import common  # noqa: E402

sys.path.insert(0, os.path.join(common.VERIF, "gen"))
import gen_data  # noqa: E402

import numpy as np  # noqa: E402

REL = 1e-10
DATA = os.path.join(common.REPO, "srlife", "data")
RANGES = json.load(open(os.path.join(common.VERIF, "spec", "ranges.json")))
S_LO, S_HI = [float(x) for x in RANGES["stress_MPa"]]
EPS_HI = 0.05
EPS_MIN = float(RANGES["sweep_strain_range_min"])
T_LO, T_HI = [float(x) for x in RANGES["sweep_temperature_K"]]


def hexs(s):
    return "s" + "".join("%04x" % ord(c) for c in s)


def unhex(t):
    assert t[0] == "s", t
    return "".join(chr(int(t[i:i + 4], 16)) for i in range(1, len(t), 4))


def fb(x):
    return str(common.f2bits(float(x)))


def bf(s):
    return common.bits2f(s)


# ---------------------------------------------------------------------------
# independent scan of the data directory
# ---------------------------------------------------------------------------
def scan():
    out = []
    for d in sorted(os.listdir(DATA)):
        dp = os.path.join(DATA, d)
        if not os.path.isdir(dp):
            continue
        for fn in sorted(os.listdir(dp)):
            if not fn.endswith(".xml"):
                continue
            try:
                root = ET.parse(os.path.join(dp, fn)).getroot()
            except ET.ParseError:
                out.append((d, fn[:-4], None, None, None))
                continue
            for v in root:
                out.append((d, fn[:-4], v.tag, root.attrib.get("type", ""), v.attrib.get("type", "")))
    return out


def floats(text, ws=False):
    return [float(t) for t in (text.strip().split() if ws else text.split(" "))]


# ---------------------------------------------------------------------------
# real loading
# ---------------------------------------------------------------------------
def real_load(d, name, variant):
    from srlife import library
    if d == "thermal":
        return library.load_thermal(name, variant)
    if d == "deformation":
        m = library.load_deformation(name, variant)
        m.get_neml_model()
        return m
    if d == "damage":
        return library.load_damage(name, variant)
    if d == "fluid":
        return library.load_fluid(name, variant)
    if d == "thermalfluid":
        return library.load_thermal_fluid(name, variant)
    raise LookupError("srlife.library has no loader for the data directory %r" % d)


def try_load(d, name, variant):
    try:
        return real_load(d, name, variant), None
    except Exception as e:  # noqa: BLE001 - any failure of a documented loader is what we look for
        return None, "%s: %s" % (type(e).__name__, str(e)[:160])


def sval(f, *a):
    """call a real evaluator; exceptions -> 'raise'"""
    try:
        r = f(*a)
    except Exception:  # noqa: BLE001
        return "raise"
    r = np.asarray(r)
    if r.dtype == bool:
        return "T" if bool(r.reshape(-1)[0]) else "F"
    return float(r.reshape(-1)[0])


def same(a, b, rel=REL):
    if isinstance(a, str) or isinstance(b, str):
        return a == b
    return common.close(a, b, rel=rel, abs_=0.0) or (abs(a) < 1e-300 and abs(b) < 1e-300)


def lean_val(s):
    if s in ("raise", "unsupported", "bad-op", "T", "F"):
        return s
    return bf(s)


# ---------------------------------------------------------------------------
# translator self-check: one request per (item, function, point)
# ---------------------------------------------------------------------------
def selfcheck_cases(ctx, entries, loaded, n):
    rng = ctx.rng
    cases = []  # (key, line, real_value, is_bool)

    def add(key, line, real, tag):
        cases.append((key, line, real, tag))

    for (d, f, v, rt, ty) in entries:
        obj = loaded.get((d, f, v))
        if obj is None or v is None:
            continue
        F, V = hexs(f), hexs(v)
        path = os.path.join(DATA, d, f + ".xml")
        node = ET.parse(path).getroot().find(v)
        if d == "thermal":
            if hasattr(obj, "temps"):
                xs = list(obj.temps)
                pts = [rng.uniform(200.0, 1800.0) for _ in range(n)] + [rng.choice(xs) for _ in range(3)]
                pts += [0.5 * (xs[i] + xs[i + 1]) for i in (0, len(xs) - 2)]
                pts += [xs[0] - 7.0, xs[-1] + 11.0, xs[-1]]
            else:
                pts = [rng.uniform(200.0, 1800.0) for _ in range(n)]
            for T in pts:
                for what, fn in (("cond", obj.conductivity), ("diff", obj.diffusivity),
                                 ("dcond", obj.dconductivity), ("ddiff", obj.ddiffusivity)):
                    add(("thermal", f, v, what, T), "c20d thermal %s %s %s %s" % (F, V, what, fb(T)),
                        sval(fn, np.float64(T)), "thermal")
        elif d == "fluid":
            keys = list(obj.data.keys()) + ["no-such-material"]
            for k in keys:
                tab = obj.data.get(k, obj.data.get("default"))
                xs = list(np.atleast_1d(tab[0])) if isinstance(tab, tuple) else [300.0, 1500.0]
                pts = [rng.uniform(500.0, 1300.0) for _ in range(n)] + [rng.choice(xs), xs[0] - 3.0, xs[-1] + 3.0]
                for T in pts:
                    add(("fluid", f, v, k, "coef", T), "c20d fluid %s %s %s coef %s" % (F, V, hexs(k), fb(T)),
                        sval(obj.coefficient, k, np.float64(T)), "fluid")
                    add(("fluid", f, v, k, "dcoef", T), "c20d fluid %s %s %s dcoef %s" % (F, V, hexs(k), fb(T)),
                        sval(obj.dcoefficient, k, np.float64(T)), "fluid")
        elif d == "thermalfluid":
            pts = [rng.uniform(300.0, 1500.0) for _ in range(n)] + [2500.0, -5.0, 0.0, 2000.0]
            for T in pts:
                for what in ("cp", "rho", "mu", "k"):
                    add(("tfluid", f, v, what, T), "c20d tfluid %s %s %s %s" % (F, V, what, fb(T)),
                        sval(getattr(obj, what), T), "thermalfluid")
        elif d == "damage" and rt == "metallic":
            for p in node:
                pn = p.tag
                P = hexs(pn)
                if p.find("C") is not None:
                    for _ in range(n):
                        T = rng.uniform(T_LO, T_HI)
                        s = 10.0 ** rng.uniform(math.log10(S_LO), math.log10(S_HI))
                        add(("rupture", f, v, pn, T, s), "c20d rupture %s %s %s %s %s" % (F, V, P, fb(T), fb(s)),
                            sval(obj.time_to_rupture, pn, np.array([T]), np.array([s])), "rupture")
                elif len(p) > 0 and all(c.find("cutoff") is not None for c in p):
                    Ts = sorted(float(c.find("T").text) for c in p)
                    cuts = [float(c.find("cutoff").text) for c in p]
                    pts = [(rng.uniform(T_LO, Ts[-1]), 10.0 ** rng.uniform(math.log10(EPS_MIN), math.log10(EPS_HI)))
                           for _ in range(n)]
                    pts += [(Ts[-1] + 1.0, 0.01), (Ts[0], cuts[0]), (Ts[-1], 0.5 * min(cuts)), (Ts[0] - 50.0, EPS_HI)]
                    for (T, e) in pts:
                        add(("fatigue", f, v, pn, T, e), "c20d fatigue %s %s %s %s %s" % (F, V, P, fb(T), fb(e)),
                            sval(obj.cycles_to_fail, pn, T, e), "fatigue")
                elif len(p) == 0:
                    k = floats(p.text)
                    pts = [(rng.uniform(0.0, 1.2), rng.uniform(0.0, 1.2)) for _ in range(n)]
                    pts += [(0.0, 1.0), (k[0], k[1]), (1.0, 0.0), (-0.1, 0.2), (0.2, -0.1), (k[0], k[1] + 1e-9)]
                    # on the axes beyond the envelope (one damage exactly zero): pure fatigue / pure creep points
                    pts += [(1.0 + 1e-9, 0.0), (1.5, 0.0), (10.0, 0.0), (0.0, 1.0 + 1e-9), (0.0, 7.0), (rng.uniform(1.0, 3.0), 0.0)]
                    for (a, b) in pts:
                        add(("env", f, v, pn, a, b), "c20d env %s %s %s %s %s" % (F, V, P, fb(a), fb(b)),
                            sval(obj.inside_envelope, pn, a, b), "envelope")
        elif d == "damage" and rt == "ceramic":
            for what, tagname, fn in (("strength", "strength", obj.strength), ("modulus", "modulus", obj.modulus),
                                      ("nv", "fatigue_Nv", obj.fatigue_Nv), ("bv", "fatigue_Bv", obj.fatigue_Bv)):
                xs = floats(node.find(tagname).find("temperatures").text, ws=True)
                pts = [rng.uniform(xs[0], xs[-1]) for _ in range(n)] + [xs[0], xs[-1], rng.choice(xs),
                                                                        xs[0] - 1.0, xs[-1] + 1.0]
                for T in pts:
                    add(("ceramic", f, v, what, T), "c20d ceramic %s %s %s %s" % (F, V, what, fb(T)),
                        sval(fn, np.float64(T)), "ceramic")
            for what, fn in (("cbar", obj.c_bar), ("nu", obj.nu)):
                add(("ceramic", f, v, what, 0.0), "c20d ceramic %s %s %s %s" % (F, V, what, fb(1000.0)),
                    sval(fn, 1000.0), "ceramic")
    return cases


# ---------------------------------------------------------------------------
# XML-tree model vs the real save_node / load_node / find_name / split / join
# ---------------------------------------------------------------------------
ALPH = ["a", "b", "c", "T", "n", "x1"]
TEXTS = ["1.5", "3 2 1 0", "", " ", "abc", "-1e-3 2", "é", "x y  z"]


def rand_pv(rng, depth):
    if depth == 0 or rng.random() < 0.4:
        return rng.choice(TEXTS + [None]) if rng.random() < 0.9 else {}
    ks = rng.sample(ALPH, rng.randint(0, 4))
    return {k: rand_pv(rng, depth - 1) for k in ks}


def enc_pv(v):
    if isinstance(v, dict):
        out = ["D", str(len(v))]
        for k, x in v.items():
            out.append(hexs(k))
            out += enc_pv(x)
        return out
    return ["T", "~" if v is None else hexs(v)]


def enc_xml(el):
    out = ["E", hexs(el.tag), str(len(el.attrib))]
    for k, x in el.attrib.items():
        out += [hexs(k), hexs(x)]
    out += ["~" if el.text is None else hexs(el.text), str(len(el))]
    for c in el:
        out += enc_xml(c)
    return out


def rand_xml(rng, depth, tag=None):
    el = ET.Element(tag or rng.choice(ALPH), {k: rng.choice(TEXTS) for k in rng.sample(["type", "u"], rng.randint(0, 2))})
    el.text = rng.choice(TEXTS + [None])
    if depth > 0 and rng.random() < 0.7:
        for _ in range(rng.randint(1, 4)):
            el.append(rand_xml(rng, depth - 1))
    return el


def xml_model_cases(ctx, n):
    from srlife import materials
    rng = ctx.rng
    cases = []
    for i in range(n):
        v = rand_pv(rng, 3)
        name = rng.choice(ALPH)
        root = ET.Element("models")
        materials.save_node(name, v, root)
        cases.append((("save", i), "c20save %s %s" % (hexs(name), " ".join(enc_pv(v))), " ".join(enc_xml(root[0])), "xml:save"))
        el = rand_xml(rng, 3)
        d = materials.load_node(el)
        (tag, val), = d.items()
        cases.append((("load", i), "c20load " + " ".join(enc_xml(el)), " ".join([hexs(tag)] + enc_pv(val)),
                      "xml:load" + ("+dup" if any(len({c.tag for c in e}) < len(e) for e in el.iter()) else "")))
        # save then load (the composition the theorem is about)
        d2 = materials.load_node(root[0])
        (tag2, val2), = d2.items()
        cases.append((("loadsave", i), "c20load " + " ".join(enc_xml(root[0])), " ".join([hexs(tag2)] + enc_pv(val2)),
                      "xml:load(save)"))
        s = "".join(rng.choice([" ", "1", ".", "e", "-", "5"]) for _ in range(rng.randint(0, 12)))
        cases.append((("split", i), "c20split " + hexs(s), " ".join(hexs(w) for w in s.split(" ")), "split"))
        ws = [rng.choice(["1.5", "2", "", "-3e-2", "a b"]) for _ in range(rng.randint(0, 5))]
        cases.append((("join", i), "c20join " + " ".join(hexs(w) for w in ws) if ws else "c20join", hexs(" ".join(ws)), "join"))
    return cases


def pw_cases(ctx, n):
    """make_piecewise on random tables (2..7 knots) vs SrModel.PW.pw / pwDeriv: inside, at knots, outside"""
    from srlife import materials
    rng = ctx.rng
    cases = []
    for i in range(n):
        k = rng.randint(2, 7)
        xs = sorted(set(round(rng.uniform(-50.0, 50.0), 2) for _ in range(k + 2)))[:k]
        if len(xs) < 2:
            xs = [0.0, 1.0]
        ys = [rng.uniform(-5.0, 5.0) for _ in xs]
        f, df = materials.make_piecewise(np.array(xs), np.array(ys))
        pts = [rng.uniform(xs[0], xs[-1]) for _ in range(3)] + [rng.choice(xs), xs[0], xs[-1], xs[0] - 1.0, xs[-1] + 0.5]
        for x in pts:
            enc = "%s %s %s" % (",".join(fb(a) for a in xs), ",".join(fb(a) for a in ys), fb(x))
            cases.append((("pw", i, x, "val"), "c20pw val " + enc, sval(f, np.float64(x)), "pw:random-table"))
            cases.append((("pw", i, x, "der"), "c20pw der " + enc, sval(df, np.float64(x)), "pw:random-table"))
    return cases


def pw_table_check(xs, ys):
    """make_piecewise on one table: value at every knot = the table value, derivative at every knot = the slope of an
    adjacent segment (first knot: the first segment; last knot: the last segment); list of failure texts"""
    from srlife import materials
    f, df = materials.make_piecewise(np.array(xs, dtype=float), np.array(ys, dtype=float))
    sl = [(ys[j + 1] - ys[j]) / (xs[j + 1] - xs[j]) for j in range(len(xs) - 1)]
    out = []
    for j, x in enumerate(xs):
        v, d = float(f(np.float64(x))), float(df(np.float64(x)))
        if abs(v - ys[j]) > 1e-12 * (abs(ys[j]) + 1.0):
            out.append("value at knot %d (x=%r) is %r, table value %r" % (j, x, v, ys[j]))
        adj = [sl[k] for k in (j - 1, j) if 0 <= k < len(sl)]
        if not any(abs(d - a) <= 1e-9 * (abs(a) + 1.0) for a in adj):
            out.append("derivative at knot %d of %d (x=%r) is %r, adjacent segment slope(s) %r" % (j, len(xs) - 1, x, d, adj))
    return out


def pw_predicate(ctx, n):
    """random tables whose LAST and first segments are not flat (every shipped table ends in a flat guard segment)"""
    rng = ctx.rng
    bad = []
    for i in range(n):
        k = rng.randint(2, 7)
        xs = sorted(set(round(rng.uniform(-50.0, 1500.0), 2) for _ in range(k + 2)))[:k]
        if len(xs) < 2:
            xs = [0.0, 1.0]
        ys = [rng.uniform(-5.0, 5.0) for _ in xs]
        fails = pw_table_check(xs, ys)
        ctx.case(("pw-table", i), nontrivial=True, tag="predicate:random table at its knots")
        if fails:
            bad.append(("pw_random_table", {"xs": xs, "ys": ys}, "make_piecewise(%r, %r): %s" % (xs, ys, fails[0])))
    return bad


def find_name_cases(ctx, n, tmp):
    from srlife import materials
    rng = ctx.rng
    cases = []
    for i in range(n):
        root = ET.Element("models")
        for _ in range(rng.randint(0, 4)):
            c = ET.SubElement(root, rng.choice(ALPH), {"type": rng.choice(["A", "B"])} if rng.random() < 0.8 else {})
            if rng.random() < 0.5:
                c.text = rng.choice(["1.5", "abc"])
            else:
                ET.SubElement(c, "k").text = "7"
        name = rng.choice(ALPH)
        fn = os.path.join(tmp, "find%d.xml" % i)
        ET.ElementTree(element=root).write(fn)
        try:
            tag, typ = materials.find_name(fn, name)
            real = " ".join([hexs(typ)] + enc_xml(tag))
        except (AttributeError, KeyError):
            real = "raise"
        # the model gets the tree as parsed back from the file
        parsed = ET.parse(fn).getroot()
        cases.append((("find", i), "c20find %s %s" % (hexs(name), " ".join(enc_xml(parsed))), real, "find_name"))
    return cases


# ---------------------------------------------------------------------------
# real save -> load round trips, compared by evaluations (bit-identical)
# ---------------------------------------------------------------------------
def rfloat(rng, lo, hi):
    return rng.uniform(lo, hi) * (1.0 + rng.random() * 1e-9)


def mk_model(kind, params):
    from srlife import materials
    from srlife.thermohydraulics import thermalfluid
    p = params
    if kind == "PiecewiseLinearThermalMaterial":
        return materials.PiecewiseLinearThermalMaterial(p["name"], p["temps"], p["cond"], p["diff"])
    if kind == "ConstantThermalMaterial":
        return materials.ConstantThermalMaterial(p["name"], p["k"], p["alpha"])
    if kind == "PiecewiseLinearFluidMaterial":
        return materials.PiecewiseLinearFluidMaterial({k: (np.array(t), np.array(x)) for k, (t, x) in p["data"].items()})
    if kind == "ConstantFluidMaterial":
        return materials.ConstantFluidMaterial(dict(p["data"]))
    if kind == "StructuralMaterial":
        sa = materials.string_array
        data = {"rup": {"C": sa(np.array([p["C"]])), "a": sa(np.array(p["a"])), "n": sa(np.array(p["n"]))},
                "fat": {"curve%d" % (i + 1): {"T": sa(np.array([c["T"]])), "a": sa(np.array(c["a"])), "n": sa(np.array(c["n"])),
                                               "cutoff": sa(np.array([c["cutoff"]]))} for i, c in enumerate(p["curves"])},
                "env": sa(np.array(p["knee"]))}
        return materials.StructuralMaterial(data)
    if kind == "StandardCeramicMaterial":
        return materials.StandardCeramicMaterial(*[np.array(x) if isinstance(x, list) else x for x in p["args"]])
    if kind == "PolynomialThermalFluidMaterial":
        return thermalfluid.PolynomialThermalFluidMaterial(p["cp"], p["rho"], p["mu"], p["k"], **p["kw"])
    raise KeyError(kind)


def rand_params(kind, rng):
    def table(n, lo=200.0, hi=1500.0):
        xs = sorted(rfloat(rng, lo, hi) for _ in range(n))
        return xs

    if kind == "PiecewiseLinearThermalMaterial":
        n = rng.randint(2, 7)
        return {"name": rng.choice(["m1", "alloy x"]), "temps": table(n), "cond": [rfloat(rng, 0.005, 0.1) for _ in range(n)],
                "diff": [rfloat(rng, 5e3, 2e5) for _ in range(n)]}
    if kind == "ConstantThermalMaterial":
        return {"name": "c", "k": rfloat(rng, 0.005, 0.1), "alpha": rfloat(rng, 5e3, 2e5)}
    if kind == "PiecewiseLinearFluidMaterial":
        out = {}
        for k in ["default"] + rng.sample(["A740H", "SiC"], rng.randint(0, 2)):
            n = rng.randint(2, 6)
            out[k] = (table(n), [rfloat(rng, 1e-3, 2e-2) for _ in range(n)])
        return {"data": out}
    if kind == "ConstantFluidMaterial":
        return {"data": {k: rfloat(rng, 1e-3, 2e-2) for k in ["default"] + rng.sample(["A740H", "SiC"], rng.randint(0, 2))}}
    if kind == "StructuralMaterial":
        deg = rng.randint(1, 3)
        curves = []
        for i in range(rng.randint(1, 4)):
            dg = rng.randint(1, 3)
            curves.append({"T": rfloat(rng, 600.0, 1200.0), "a": [rfloat(rng, -9.0, -0.5) for _ in range(dg + 1)],
                           "n": [float(j) for j in range(dg, -1, -1)], "cutoff": rfloat(rng, 1e-3, 5e-3)})
        return {"C": rfloat(rng, 10.0, 20.0), "a": [rfloat(rng, -5000.0, -100.0) for _ in range(deg)] + [rfloat(rng, 2e4, 4e4)],
                "n": [float(j) for j in range(deg, -1, -1)], "curves": curves, "knee": [rfloat(rng, 0.05, 0.5), rfloat(rng, 0.05, 0.5)]}
    if kind == "StandardCeramicMaterial":
        args = []
        for lo, hi in ((300.0, 600.0), (5.0, 12.0), (20.0, 60.0), (100.0, 2000.0)):
            n = rng.randint(2, 5)
            args += [table(n, 290.0, 1800.0), [rfloat(rng, lo, hi) for _ in range(n)]]
        # order: s_T, s, m_T, m, c_bar, nu, Nv_T, Nv, Bv_T, Bv
        return {"args": args[0:4] + [rfloat(rng, 0.5, 2.0), rfloat(rng, 0.1, 0.3)] + args[4:8]}
    if kind == "PolynomialThermalFluidMaterial":
        kw = {k: rfloat(rng, lo, hi) for k, (lo, hi) in {"film_min": (1e-9, 1e-7), "T_max": (1500.0, 2500.0), "T_min": (0.0, 300.0),
                                                          "laminar_cutoff": (1e3, 3e3), "laminar_value": (3.0, 5.0)}.items()
              if rng.random() < 0.6}
        return {"cp": [rfloat(rng, -1e-5, 1e-5), rfloat(rng, 0.2, 0.9)], "rho": [rfloat(rng, -1e-9, 0.0), rfloat(rng, 1e-6, 3e-6)],
                "mu": [rfloat(rng, 1e-8, 1e-7), rfloat(rng, -2e-4, 0.0), rfloat(rng, 0.05, 0.1)][rng.randint(0, 1):],
                "k": [rfloat(rng, -1e-7, 1e-7), rfloat(rng, 1e-4, 6e-4)], "kw": kw}
    raise KeyError(kind)


def reload_model(kind, m, fn):
    from srlife import materials
    from srlife.thermohydraulics import thermalfluid
    m.save(fn, "model")
    if kind.endswith("ThermalMaterial"):
        return materials.ThermalMaterial.load(fn, "model")
    if kind.endswith("FluidMaterial") and "Thermal" not in kind:
        return materials.FluidMaterial.load(fn, "model")
    if kind == "StructuralMaterial":
        return materials.StructuralMaterial.load(fn, "model")
    if kind == "StandardCeramicMaterial":
        return materials.CeramicMaterial.load(fn, "model")
    if kind == "PolynomialThermalFluidMaterial":
        return thermalfluid.ThermalFluidMaterial.load(fn, "model")
    raise KeyError(kind)


def evaluations(kind, m, pts):
    """list of (label, value) — the evaluations by which two models are compared"""
    out = []
    if kind.endswith("ThermalMaterial"):
        for T in pts["T"]:
            for nm in ("conductivity", "diffusivity", "dconductivity", "ddiffusivity"):
                out.append(("%s(%r)" % (nm, T), sval(getattr(m, nm), np.float64(T))))
        out.append(("name", getattr(m, "name", None)))
    elif kind.endswith("FluidMaterial") and "Thermal" not in kind:
        for k in list(m.data.keys()) + ["other"]:
            for T in pts["T"]:
                out.append(("coefficient(%s,%r)" % (k, T), sval(m.coefficient, k, np.float64(T))))
                out.append(("dcoefficient(%s,%r)" % (k, T), sval(m.dcoefficient, k, np.float64(T))))
    elif kind == "StructuralMaterial":
        for pn, val in m.data.items():
            if isinstance(val, dict) and "C" in val:
                for (T, s) in pts["Ts"]:
                    out.append(("time_to_rupture(%s,%r,%r)" % (pn, T, s), sval(m.time_to_rupture, pn, np.array([T]), np.array([s]))))
            elif isinstance(val, dict):
                for (T, e) in pts["Te"]:
                    out.append(("cycles_to_fail(%s,%r,%r)" % (pn, T, e), sval(m.cycles_to_fail, pn, T, e)))
            else:
                for (a, b) in pts["env"]:
                    out.append(("inside_envelope(%s,%r,%r)" % (pn, a, b), sval(m.inside_envelope, pn, a, b)))
    elif kind == "StandardCeramicMaterial":
        for T in pts["T"]:
            for nm in ("strength", "modulus", "fatigue_Nv", "fatigue_Bv", "c_bar", "nu"):
                out.append(("%s(%r)" % (nm, T), sval(getattr(m, nm), np.float64(T))))
    elif kind == "PolynomialThermalFluidMaterial":
        for T in pts["T"]:
            for nm in ("cp", "rho", "mu", "k"):
                out.append(("%s(%r)" % (nm, T), sval(getattr(m, nm), T)))
            out.append(("film_coefficient(%r)" % T, sval(m.film_coefficient, T, 3.6e6, 10.0)))
        for nm in ("film_min", "T_max", "T_min", "laminar_cutoff", "laminar_value"):
            out.append((nm, float(getattr(m, nm))))
    return out


def eval_points(rng):
    return {"T": [rng.uniform(250.0, 1600.0) for _ in range(6)] + [100.0, 5000.0],
            "Ts": [(rng.uniform(T_LO, T_HI), 10.0 ** rng.uniform(0.0, 3.0)) for _ in range(6)],
            "Te": [(rng.uniform(T_LO, 1300.0), 10.0 ** rng.uniform(-4.0, -1.3)) for _ in range(8)],
            "env": [(rng.uniform(0.0, 1.1), rng.uniform(0.0, 1.1)) for _ in range(6)] + [(0.0, 1.0), (1.0, 0.0)]}


def roundtrip(kind, params, pts, tmp):
    """returns list of differences between the model and its saved-and-reloaded copy"""
    m = mk_model(kind, params)
    fn = os.path.join(tmp, "rt.xml")
    try:
        m2 = reload_model(kind, m, fn)
    except Exception as e:  # noqa: BLE001
        return ["save/load raises %s: %s" % (type(e).__name__, str(e)[:120])]
    if type(m2).__name__ != type(m).__name__:
        return ["reloaded object is a %s, saved a %s" % (type(m2).__name__, type(m).__name__)]
    return diff_evals(evaluations(kind, m, pts), evaluations(kind, m2, pts))


def diff_evals(a, b):
    """compare by label (the key order of a reloaded dict is reversed by dict(ChainMap(...)))"""
    db = dict(b)
    out = []
    if sorted(l for l, _ in a) != sorted(db):
        out.append("the reloaded model answers a different set of queries: %s vs %s" % (sorted(l for l, _ in a)[:4], sorted(db)[:4]))
    for la, va in a:
        vb = db.get(la, "missing")
        if not (va == vb or (va != va and vb != vb)):
            out.append("%s: saved model %r, reloaded %r" % (la, va, vb))
    return out


def xml_name_probe():
    """material names such as "316H" are not XML names: save_node writes <316H> which no parser accepts"""
    from srlife import materials
    tmp = tempfile.mkdtemp(prefix="c20p")
    key = "316H"
    try:
        fn = os.path.join(tmp, "p.xml")
        materials.ConstantFluidMaterial({"default": 1.0, key: 2.0}).save(fn, "base")
        try:
            m = materials.FluidMaterial.load(fn, "base")
            ok = float(m.coefficient(key, 900.0)) == 2.0
            return {"key": key, "fails": not ok, "error": None if ok else "reloaded value differs"}
        except Exception as e:  # noqa: BLE001
            return {"key": key, "fails": True, "error": "%s: %s" % (type(e).__name__, e)}
    finally:
        shutil.rmtree(tmp, ignore_errors=True)


KINDS = ["PiecewiseLinearThermalMaterial", "ConstantThermalMaterial", "PiecewiseLinearFluidMaterial", "ConstantFluidMaterial",
         "StructuralMaterial", "StandardCeramicMaterial", "PolynomialThermalFluidMaterial"]


def shipped_kind(d, rt, obj):
    n = type(obj).__name__
    return n if n in KINDS else None


# ---------------------------------------------------------------------------
# property predicates on the real code
# ---------------------------------------------------------------------------
def pred_tables(d, f, v, obj, node, rt, fine):
    """positivity on the tabulated range, table values at the knots, derivative = segment slope.
    Knots come from the XML text, not from the loaded object."""
    bad = []
    tabs = []  # (label, xs, ys, value fn, deriv fn or None, lower bound or None)
    if d == "thermal" and node.find("temps") is not None:
        xs = floats(node.find("temps").text)
        tabs.append(("conductivity", xs, floats(node.find("cond").text), obj.conductivity, obj.dconductivity, 0.0))
        tabs.append(("diffusivity", xs, floats(node.find("diff").text), obj.diffusivity, obj.ddiffusivity, 0.0))
    elif d == "thermal":
        for T in (300.0, 1000.0):
            if not (obj.conductivity(T) > 0 and obj.diffusivity(T) > 0):
                bad.append(("thermal_positive", {"what": "constant", "T": T}, "constant thermal property not positive"))
    elif d == "fluid":
        for c in node:
            if c.find("temp") is not None:
                k = c.tag
                tabs.append(("coefficient[%s]" % k, floats(c.find("temp").text), floats(c.find("values").text),
                             (lambda T, k=k: obj.coefficient(k, T)), (lambda T, k=k: obj.dcoefficient(k, T)), None))
    elif d == "damage" and rt == "ceramic":
        for tagname, fn, lb in (("strength", obj.strength, 0.0), ("modulus", obj.modulus, 0.0),
                                ("fatigue_Nv", obj.fatigue_Nv, 2.0), ("fatigue_Bv", obj.fatigue_Bv, 0.0)):
            t = node.find(tagname)
            tabs.append((tagname, floats(t.find("temperatures").text, ws=True), floats(t.find("values").text, ws=True), fn, None, lb))
        for nm, fn in (("c_bar", obj.c_bar), ("nu", obj.nu)):
            if not fn(1000.0) > 0:
                bad.append(("ceramic_positive", {"what": nm, "T": 1000.0}, "%s = %r is not positive" % (nm, fn(1000.0))))
    for (label, xs, ys, fn, dfn, lb) in tabs:
        xs, ys = np.array(xs), np.array(ys)
        kind = "ceramic_positive" if rt == "ceramic" else "thermal_positive"
        if lb is not None:
            grid = np.unique(np.concatenate([np.linspace(xs.min(), xs.max(), 2001 * fine), xs, 0.5 * (xs[1:] + xs[:-1])]))
            vals = np.asarray(fn(grid), dtype=float)
            w = np.where(~(vals > lb))[0]
            if len(w):
                i = w[0]
                bad.append((kind, {"what": label, "T": float(grid[i])},
                            "%s(%r) = %r is not > %g inside the tabulated range" % (label, float(grid[i]), float(vals[i]), lb)))
        for i, (x, y) in enumerate(zip(xs, ys)):
            got = float(fn(np.float64(x)))
            if not common.close(got, y, rel=1e-12, abs_=0.0):
                bad.append(("pw_at_knot", {"what": label, "T": float(x), "table_value": float(y)},
                            "%s at the table point %r is %r, the table says %r" % (label, float(x), got, float(y))))
                break
        if dfn is not None and len(xs) >= 2 and np.all(np.diff(xs) != 0):
            order = np.argsort(xs, kind="mergesort")
            sx, sy = xs[order], ys[order]
            for i in range(len(sx) - 1):
                sl = (sy[i + 1] - sy[i]) / (sx[i + 1] - sx[i])
                for x in (sx[i], 0.5 * (sx[i] + sx[i + 1]), sx[i] + 0.999 * (sx[i + 1] - sx[i])) + ((sx[i + 1],) if i == len(sx) - 2 else ()):
                    got = float(dfn(np.float64(x)))
                    if not common.close(got, sl, rel=1e-9, abs_=1e-300):
                        bad.append(("pw_deriv_is_slope", {"what": label, "T": float(x), "slope": float(sl)},
                                    "d %s at %r is %r, the slope of its segment [%r, %r] is %r" % (
                                        label, float(x), got, float(sx[i]), float(sx[i + 1]), float(sl))))
                        break
                else:
                    continue
                break
    return bad


def relisted(obj, pn, how):
    """the same property model with the (coefficient, exponent) pairs of its polynomial(s) listed in another order
    (a sum does not care) or, for how == "sparse", with only the highest and the constant term kept"""
    import copy
    m = copy.deepcopy(obj)

    def redo(d):
        a_, n_ = d["a"].split(), d["n"].split()
        pairs = list(zip(a_, n_))
        if how == "reverse":
            pairs = pairs[::-1]
        elif how == "rotate":
            pairs = pairs[1:] + pairs[:1]
        else:
            pairs = [pairs[0], pairs[-1]] if len(pairs) > 2 else pairs[::-1]
        d["a"], d["n"] = " ".join(p_[0] for p_ in pairs), " ".join(p_[1] for p_ in pairs)
        return [(float(x), float(y)) for x, y in pairs]
    pd = m.data[pn]
    if "C" in pd:
        return m, redo(pd)
    return m, {k: redo(c) for k, c in pd.items()}


def pred_listing(obj, node):
    """rupture and fatigue polynomials are sums of a_i * x^n_i over the listed pairs: re-listing the pairs changes
    nothing, and a model with other exponents (here: the highest and the constant term only) evaluates that sum"""
    bad = []
    S = np.logspace(math.log10(S_LO), math.log10(S_HI), 7)
    for p in node:
        pn = p.tag
        if p.find("C") is not None:
            C = float(p.find("C").text)
            for how in ("reverse", "rotate", "sparse"):
                m, pairs = relisted(obj, pn, how)
                for T in (T_LO, 0.5 * (T_LO + T_HI), T_HI):
                    got = m.time_to_rupture(pn, np.full(S.shape, T), S.copy())
                    L = np.log10(S)
                    with np.errstate(over="ignore"):
                        want = 10.0 ** (sum(b_ * L ** k_ for b_, k_ in pairs) / T - C)
                    ok = np.isclose(got, want, rtol=1e-9, atol=0.0) | (~np.isfinite(want) & ~np.isfinite(got))
                    if not np.all(ok):
                        j = int(np.argmin(ok))
                        bad.append(("rupture_listing", {"pname": pn, "how": how, "T": float(T), "s": float(S[j])},
                                    "time_to_rupture(%s) with the terms listed as n = '%s': %r at T=%r, stress=%r; the sum over the listed "
                                    "(a, n) pairs gives %r" % (pn, m.data[pn]["n"], float(got[j]), float(T), float(S[j]), float(want[j]))))
                        break
                else:
                    continue
                break
    return bad


def pred_metallic(f, v, obj, node, fine):
    bad = pred_listing(obj, node)
    nS, nT, nE = 301 * fine, 26 * fine, 240 * fine
    S = np.logspace(math.log10(S_LO), math.log10(S_HI), nS)
    Ts = np.linspace(T_LO, T_HI, nT)
    for p in node:
        pn = p.tag
        if p.find("C") is not None:
            TT, SS = np.meshgrid(Ts, S, indexing="ij")
            tr = obj.time_to_rupture(pn, TT.reshape(-1), SS.reshape(-1)).reshape(TT.shape)
            fin = np.isfinite(tr)  # an overflow to inf (huge P/T) says nothing about monotonicity
            w = np.argwhere(~(tr[:, 1:] < tr[:, :-1]) & fin[:, 1:] & fin[:, :-1])
            if len(w):
                i, j = w[0]
                bad.append(("rupture_antitone_stress", {"pname": pn, "T": float(Ts[i]), "s1": float(S[j]), "s2": float(S[j + 1])},
                            "time_to_rupture(%s, T=%r) does not decrease with stress: t(%r)=%r, t(%r)=%r" % (
                                pn, float(Ts[i]), float(S[j]), float(tr[i, j]), float(S[j + 1]), float(tr[i, j + 1]))))
            w = np.argwhere(~(tr[1:, :] < tr[:-1, :]) & fin[1:, :] & fin[:-1, :])
            if len(w):
                i, j = w[0]
                bad.append(("rupture_antitone_temp", {"pname": pn, "s": float(S[j]), "T1": float(Ts[i]), "T2": float(Ts[i + 1])},
                            "time_to_rupture(%s, stress=%r) does not decrease with temperature: t(T=%r)=%r, t(T=%r)=%r" % (
                                pn, float(S[j]), float(Ts[i]), float(tr[i, j]), float(Ts[i + 1]), float(tr[i + 1, j]))))
        elif len(p) > 0 and all(c.find("cutoff") is not None for c in p):
            cT = sorted(float(c.find("T").text) for c in p)
            temps = sorted(set(cT + [0.5 * (a + b) for a, b in zip(cT[:-1], cT[1:])] + [cT[0] - 100.0]))
            E = np.logspace(math.log10(EPS_MIN), math.log10(EPS_HI), nE)
            E = np.unique(np.concatenate([E, [float(c.find("cutoff").text) for c in p]]))
            E = E[E <= EPS_HI]
            for T in temps:
                try:
                    N = np.array([float(obj.cycles_to_fail(pn, T, e)) for e in E])
                except Exception as e:  # noqa: BLE001
                    bad.append(("fatigue_antitone", {"pname": pn, "T": T, "e1": float(E[0]), "e2": float(E[0])},
                                "cycles_to_fail(%s, T=%r) raises %s below the hottest curve" % (pn, T, type(e).__name__)))
                    break
                w = np.where(~(N[1:] <= N[:-1]))[0]
                if len(w):
                    j = w[0]
                    bad.append(("fatigue_antitone", {"pname": pn, "T": T, "e1": float(E[j]), "e2": float(E[j + 1])},
                                "cycles_to_fail(%s, T=%r) increases with strain range: N(%r)=%r, N(%r)=%r" % (
                                    pn, T, float(E[j]), float(N[j]), float(E[j + 1]), float(N[j + 1]))))
                    break
        elif len(p) == 0:
            k = floats(p.text)
            d = 1e-9
            checks = [((0.0, 1.0), True), ((0.0, 1.0 + d), False), ((k[0], k[1]), True), ((k[0], k[1] + d), False),
                      ((1.0, 0.0), True), ((1.0, d), False),
                      # the envelope closes at (1,0) and (0,1): beyond them on the axes is outside
                      ((1.0 + d, 0.0), False), ((1.5, 0.0), False), ((10.0, 0.0), False), ((0.0, 1.5), False),
                      ((0.5 * k[0], 0.0), True), ((0.0, 0.5), True)]
            if not (0.0 < k[0] < 1.0 and 0.0 < k[1] < 1.0):
                bad.append(("envelope_points", {"pname": pn, "df": k[0], "dc": k[1]}, "knee %r of %s is not inside the unit square" % (k, pn)))
            for (a, b), want in checks:
                got = sval(obj.inside_envelope, pn, a, b)
                if got != ("T" if want else "F"):
                    bad.append(("envelope_points", {"pname": pn, "df": a, "dc": b, "expected": want},
                                "inside_envelope(%s, %r, %r) is %s, expected %s (envelope through (0,1), knee %r, (1,0))" % (
                                    pn, a, b, got, want, k)))
                    break
    return bad


def eval_replay(r):
    """re-evaluate one recorded failing input on the real code; returns (text, still_fails)"""
    kind = r["kind"]
    if kind == "pw_random_table":
        fails = pw_table_check(r["xs"], r["ys"])
        return ("; ".join(fails[:3]) or "table values and slopes reproduced at every knot"), bool(fails)
    if kind in ("load", "load_material"):
        from srlife import library
        try:
            if kind == "load":
                real_load(r["dir"], r["file"], r["variant"])
            else:
                t, dm, dg = library.load_material(r["file"], *r["variants"])
                dm.get_neml_model()
            return "loads fine", False
        except Exception as e:  # noqa: BLE001
            return "raises %s: %s" % (type(e).__name__, e), True
    if kind == "roundtrip":
        tmp = tempfile.mkdtemp(prefix="c20rt")
        try:
            diffs = roundtrip(r["model"], r["params"], r["points"], tmp)
        finally:
            shutil.rmtree(tmp, ignore_errors=True)
        return ("; ".join(diffs[:3]) or "identical evaluations"), bool(diffs)
    if kind == "roundtrip_shipped":
        obj = real_load(r["dir"], r["file"], r["variant"])
        tmp = tempfile.mkdtemp(prefix="c20rt")
        try:
            diffs = roundtrip_obj(type(obj).__name__, obj, r["points"], tmp)
        finally:
            shutil.rmtree(tmp, ignore_errors=True)
        return ("; ".join(diffs[:3]) or "identical evaluations"), bool(diffs)
    obj = real_load(r["dir"], r["file"], r["variant"])
    node = ET.parse(os.path.join(DATA, r["dir"], r["file"] + ".xml")).getroot().find(r["variant"])
    rt = ET.parse(os.path.join(DATA, r["dir"], r["file"] + ".xml")).getroot().attrib.get("type", "")
    if kind in ("thermal_positive", "ceramic_positive", "pw_at_knot", "pw_deriv_is_slope"):
        bad = [b for b in pred_tables(r["dir"], r["file"], r["variant"], obj, node, rt, 1) if b[0] == kind]
    else:
        bad = [b for b in pred_metallic(r["file"], r["variant"], obj, node, 1) if b[0] == kind]
    if kind == "rupture_antitone_stress":
        t = obj.time_to_rupture(r["pname"], np.array([r["T"], r["T"]]), np.array([r["s1"], r["s2"]]))
        return "t_R(T=%r, %r MPa)=%r, t_R(T=%r, %r MPa)=%r" % (r["T"], r["s1"], float(t[0]), r["T"], r["s2"], float(t[1])), not t[1] < t[0]
    if kind == "rupture_antitone_temp":
        t = obj.time_to_rupture(r["pname"], np.array([r["T1"], r["T2"]]), np.array([r["s"], r["s"]]))
        return "t_R(T=%r)=%r, t_R(T=%r)=%r at %r MPa" % (r["T1"], float(t[0]), r["T2"], float(t[1]), r["s"]), not t[1] < t[0]
    if kind == "fatigue_antitone":
        n1, n2 = sval(obj.cycles_to_fail, r["pname"], r["T"], r["e1"]), sval(obj.cycles_to_fail, r["pname"], r["T"], r["e2"])
        return "N(T=%r, %r)=%r, N(T=%r, %r)=%r" % (r["T"], r["e1"], n1, r["T"], r["e2"], n2), not (n1 != "raise" and n2 != "raise" and n2 <= n1)
    return ("; ".join(b[2] for b in bad[:2]) or "predicate holds"), bool(bad)


def roundtrip_obj(kind, m, pts, tmp):
    fn = os.path.join(tmp, "rt.xml")
    try:
        m2 = reload_model(kind, m, fn)
    except Exception as e:  # noqa: BLE001
        return ["save/load raises %s: %s" % (type(e).__name__, str(e)[:120])]
    return diff_evals(evaluations(kind, m, pts), evaluations(kind, m2, pts))


# ---------------------------------------------------------------------------
def run(ctx):
    import srlife
    if not os.path.abspath(srlife.__file__).startswith(os.path.abspath(common.REPO) + os.sep):
        raise common.Infra("srlife imported from %s, not from %s" % (srlife.__file__, common.REPO))
    quick = ctx.quick()
    ctx.rule = ("exhaustive over every (directory, file, variant) of srlife/data; per item random points inside the "
                "recorded ranges (plus knots, range ends and out-of-range points) for the Lean-vs-real evaluation; "
                "random parameter sets for every property-model type for save->load; random XML trees / dicts "
                "(duplicate tags included) for the XML model; dense grids for the property predicates. "
                "A case is non-trivial when the point is inside the range / the tree has children.")
    ctx.trusted = ["Lean 4 kernel + Mathlib (propext, Classical.choice, Quot.sound)",
                   "translator gen/gen_data.py (self-checked on every run against the real evaluators)",
                   "harness/c20.py; xml.etree.ElementTree; scipy.interpolate.interp1d / numpy.interp as modelled by pw",
                   "Float vs ℝ: IEEE rounding of log10, 10**x, pow (comparison tolerance 1e-10 relative)"]
    ctx.assumptions = ["float(str(x)) == x (shortest-repr round trip) — explicit hypothesis of array_roundtrip",
                       "stress == 0 -> inf branch of time_to_rupture is outside the modelled range [1, 1000] MPa",
                       "NEML deformation models: only loadability (parse_xml) is checked, not their content",
                       "ranges: stress [1,1000] MPa, strain range <= 0.05, T > 0 (spec/ranges.json)"]
    thm_ok = common.lean_stage(ctx, [("SrProps.C20", "SrProps/C20.lean", "SrProps.C20")], gen=gen_data.generate)
    drv = common.LeanDriver(["SrModel.PW", "Gen.Data"])
    violations = []  # (priority, what, replay, signature)
    tmp = tempfile.mkdtemp(prefix="c20_")
    try:
        # ---- spec constants ------------------------------------------------------------
        ans = drv.ask(["c20ranges", "c20d entries", "c20d failing", "c20d windows"])
        want = "%d/1 %d/1 %d/1 %d/1 %s %s %d" % (
            RANGES["stress_MPa"][0], RANGES["stress_MPa"][1], RANGES["log10_stress"][0], RANGES["log10_stress"][1],
            RANGES["strain_range_max"], RANGES["log10_strain_range_max_rational_upper_bound"], RANGES["bernstein_bisection_depth"])
        ctx.obligation("spec/ranges.json == constants of SrModel/PW.lean", ans[0] == want, "lean: %s  json: %s" % (ans[0], want))
        if ans[0] != want:
            raise common.Infra("spec/ranges.json and SrModel/PW.lean disagree: %s vs %s" % (ans[0], want))
        lean_entries = [tuple(unhex(t) for t in e.split(" ")) for e in ans[1].split("|")] if ans[1] else []
        lean_failing = [unhex(t) for t in ans[2].split("|")] if ans[2] else []
        ctx.extra["lean_failing_certificates"] = lean_failing
        # ---- entries: translator vs independent scan ------------------------------------
        entries = scan()
        good_entries = [e for e in entries if e[2] is not None]
        ent_ok = sorted(lean_entries) == sorted(set(good_entries)) and len(set(good_entries)) == len(lean_entries)
        # duplicate variants are dropped (and flagged unsupported) by the translator
        ctx.obligation("translator: generated entry list == independent scan of srlife/data", ent_ok,
                       "%d generated, %d scanned; only generated: %s; only scanned: %s" % (
                           len(lean_entries), len(good_entries), sorted(set(lean_entries) - set(good_entries))[:3],
                           sorted(set(good_entries) - set(lean_entries))[:3]))
        # ---- exhaustive real loading ----------------------------------------------------
        loaded, load_bad = {}, []
        for (d, f, v, rt, ty) in entries:
            if v is None:
                load_bad.append(((d, f, None), "XML parse error"))
                violations.append((0, "srlife/data/%s/%s.xml is not well-formed XML" % (d, f),
                                   {"kind": "load", "dir": d, "file": f, "variant": "base"}, "c20:load"))
                continue
            obj, err = try_load(d, f, v)
            ctx.case(("load", d, f, v), nontrivial=True, tag="load:" + d,
                     sample={"loader": d, "name": f, "variant": v, "result": type(obj).__name__ if obj is not None else err})
            if err:
                load_bad.append(((d, f, v), err))
                violations.append((0, "documented loader fails for %s/%s variant %r: %s" % (d, f, v, err),
                                   {"kind": "load", "dir": d, "file": f, "variant": v, "error": err}, "c20:load"))
            else:
                loaded[(d, f, v)] = obj
        solids = sorted({f for (d, f, v, _, _) in good_entries if d in ("thermal", "deformation", "damage")})
        from srlife import library
        nmat = 0
        for f in solids:
            var = {d: [v for (dd, ff, v, _, _) in good_entries if dd == d and ff == f] for d in ("thermal", "deformation", "damage")}
            metallic = any(dd == "damage" and ff == f and rt == "metallic" for (dd, ff, v, rt, _) in good_entries)
            triples = [(a, b, c) for a in var["thermal"] for b in var["deformation"] for c in var["damage"]]
            if metallic and ("base", "base", "base") not in triples:
                triples.append(("base", "base", "base"))
            if not triples:
                triples = [("base", "base", "base")]
            for tr in triples:
                nmat += 1
                try:
                    t, dm, dg = library.load_material(f, *tr)
                    dm.get_neml_model()
                    ok, err = True, None
                except Exception as e:  # noqa: BLE001
                    ok, err = False, "%s: %s" % (type(e).__name__, str(e)[:160])
                ctx.case(("load_material", f) + tr, nontrivial=True, tag="load_material")
                if not ok:
                    load_bad.append((("material", f) + tr, err))
                    violations.append((0, "library.load_material(%r, %r, %r, %r) fails: %s" % ((f,) + tr + (err,)),
                                       {"kind": "load_material", "file": f, "variants": list(tr), "error": err}, "c20:load"))
        ctx.obligation("every (file, variant) loads through the documented loaders (exhaustive, incl. get_neml_model and load_material)",
                       not load_bad, "%d of %d single loads + %d load_material calls failed; first: %s" % (
                           len(load_bad), len(entries), nmat, load_bad[:1]))
        ctx.extra["entries"] = len(entries)
        # ---- translator self-check + XML model (one Lean batch) --------------------------
        n = 10 if quick else 60
        cases = selfcheck_cases(ctx, good_entries, loaded, n) + pw_cases(ctx, 60 if quick else 600)
        xcases = xml_model_cases(ctx, 300 if quick else 3000) + find_name_cases(ctx, 60 if quick else 400, tmp)
        answers = drv.ask([c[1] for c in cases] + [c[1] for c in xcases])
        mism = []
        for (key, line, real, tag), a in zip(cases, answers[:len(cases)]):
            lv = lean_val(a)
            inside = not isinstance(real, str)
            ctx.case(key, nontrivial=inside, tag="eval:" + tag,
                     sample={"item": [str(k) for k in key], "real": real, "lean": lv})
            if not same(lv, real):
                mism.append((key, real, lv))
        ctx.obligation("translator self-check: Lean evaluation of Gen.Data (and of pw on random tables) on Float == real evaluators (rel 1e-10)", not mism,
                       "%d mismatches of %d; first: %s" % (len(mism), len(cases), mism[:2]))
        xm = []
        for (key, line, real, tag), a in zip(xcases, answers[len(cases):]):
            ctx.case(("xml",) + key, nontrivial=" E " in line or " D " in line or tag in ("split", "join"), tag=tag)
            if a.strip() != real.strip():
                xm.append((key, line[:200], real[:200], a[:200]))
        ctx.obligation("correspondence: save_node / load_node (ChainMap order, duplicates) / find_name / split / join model == real functions",
                       not xm, "%d mismatches of %d; first: %s" % (len(xm), len(xcases), xm[:1]))
        # ---- save -> load round trips ---------------------------------------------------
        rt_bad = []
        nrt = 20 if quick else 200
        for kind in KINDS:
            for i in range(nrt):
                params, pts = rand_params(kind, ctx.rng), eval_points(ctx.rng)
                diffs = roundtrip(kind, params, pts, tmp)
                ctx.case(("roundtrip", kind, i), nontrivial=True, tag="roundtrip:" + kind)
                if diffs:
                    rt_bad.append((kind, diffs[0]))
                    if len([x for x in rt_bad if x[0] == kind]) == 1:
                        violations.append((1, "save -> load of a %s changes it: %s" % (kind, diffs[0]),
                                           {"kind": "roundtrip", "model": kind, "params": params, "points": pts, "first_difference": diffs[0]},
                                           "c20:roundtrip"))
        for (d, f, v), obj in sorted(loaded.items()):
            kind = shipped_kind(d, None, obj)
            if kind is None:
                continue
            pts = eval_points(ctx.rng)
            diffs = roundtrip_obj(kind, obj, pts, tmp)
            ctx.case(("roundtrip_shipped", d, f, v), nontrivial=True, tag="roundtrip:shipped")
            if diffs:
                rt_bad.append(((d, f, v), diffs[0]))
                violations.append((1, "save -> load of the shipped %s/%s[%s] changes it: %s" % (d, f, v, diffs[0]),
                                   {"kind": "roundtrip_shipped", "dir": d, "file": f, "variant": v, "points": pts, "first_difference": diffs[0]},
                                   "c20:roundtrip"))
        ctx.obligation("real save -> load of every property-model type (random parameters) and of every shipped model: identical evaluations",
                       not rt_bad, "%d differ; first: %s" % (len(rt_bad), rt_bad[:1]))
        # ---- property predicates on the real code ----------------------------------------
        pred_bad = []
        for (d, f, v, rt, ty) in good_entries:
            obj = loaded.get((d, f, v))
            if obj is None or d == "deformation" or d == "thermalfluid":
                continue
            node = ET.parse(os.path.join(DATA, d, f + ".xml")).getroot().find(v)
            item = "%s/%s/%s" % (d, f, v)
            fine = (10 if any(item in s for s in lean_failing) else 1) * (1 if quick else 4)
            try:
                if d == "damage" and rt == "metallic":
                    bad = pred_metallic(f, v, obj, node, fine)
                else:
                    bad = pred_tables(d, f, v, obj, node, rt, fine)
            except Exception as e:  # noqa: BLE001 - an evaluator that raises inside its range is a failure of the property
                bad = [("evaluation", {"error": "%s: %s" % (type(e).__name__, e)}, "evaluating %s raises %s: %s" % (item, type(e).__name__, e))]
            ctx.case(("predicate", d, f, v), nontrivial=True, tag="predicate:" + d)
            for (kind, rep, text) in bad:
                rep = dict(rep, kind=kind, dir=d, file=f, variant=v)
                pred_bad.append((item, kind, text))
                violations.append((1, "%s: %s" % (item, text), rep, "c20:" + kind))
        for (kind, rep, text) in pw_predicate(ctx, 40 if quick else 400):
            pred_bad.append(("random table", kind, text))
            violations.append((1, text, dict(rep, kind=kind), "c20:" + kind))
        ctx.obligation("property predicates on the real code (positivity, monotonicity sweeps, envelope points, knots, slopes)",
                       not pred_bad, "%d fail; first: %s" % (len(pred_bad), pred_bad[:2]))
    finally:
        shutil.rmtree(tmp, ignore_errors=True)
    # ---- outcomes -----------------------------------------------------------------------
    ctx.exhaustive = True
    probe = xml_name_probe()
    ctx.extra["xml_name_probe"] = probe
    if probe["fails"]:
        msg = ("a fluid model "
               "with a table for the shipped thermal material name %r saves without error but the file cannot be loaded: %s"
               % (probe["key"], probe["error"]))
        # a genuine defect of the round-trip clause: always reported; it is listed as an open finding in
        # known_findings.jsonl (signature c20:xml-name), so on the unchanged tree it prints KNOWN-FINDING
        ctx.violation(msg, {"kind": "roundtrip", "model": "ConstantFluidMaterial", "params": {"data": {"default": 1.0, probe["key"]: 2.0}},
                            "points": {"T": [900.0]}}, signature="c20:xml-name")
    ctx.notes.append("thermalfluid/sCO2 has no \"base\" variant and deformation/SiC has no \"base\" variant (docs say every material has one); "
                     "both load under their own variant names, so this is recorded, not reported")
    if violations:
        seen = set()
        for pr, what, rep, sig in sorted(violations, key=lambda x: x[0]):
            k = (rep.get("kind"), rep.get("dir"), rep.get("file"), rep.get("variant"), rep.get("pname"), rep.get("model"))
            if k in seen:
                continue
            seen.add(k)
            rep["lean_failing_certificates"] = lean_failing
            ctx.violation(what, rep, signature=sig)
    elif not thm_ok or mism or xm or not ent_ok:
        what = ("a C20 theorem no longer checks (failing certificates: %s)" % (lean_failing or ctx.extra.get("broken_theorems"))) if not thm_ok \
            else "model/translator and code disagree but no real execution violates the property"
        ctx.violation(what, {"theorems": ctx.extra.get("broken_theorems"), "lean": ctx.extra.get("lean_errors"),
                             "lean_failing_certificates": lean_failing, "evaluation_mismatches": [str(m) for m in mism[:5]],
                             "xml_model_mismatches": [str(m) for m in xm[:3]], "entries_match": ent_ok,
                             "correspondence": "harness/c20.py vs SrModel.PW / Gen.Data"}, no_input=True)
    return "proof"


def replay(obj):
    r = obj["replay"]
    if "kind" not in r:
        print("replay names no input:", json.dumps(r)[:600])
        return 1
    text, fails = eval_replay(r)
    print("input:", json.dumps({k: v for k, v in r.items() if k not in ("params", "points", "lean_failing_certificates")}))
    print("real code:", text)
    print("property violated on this input" if fails else "property holds on this input")
    return 1 if fails else 0


if __name__ == "__main__":
    sys.exit(common.main("C20", run, replay))
