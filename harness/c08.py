"""C08 — results do not depend on thread count, paging or progress options.   (claim: PARTIAL)

Lean: SrModel/Pool.lean (model), SrProofs/Pool.lean, SrProps/C08.lean (theorems).  They cover only the
      bookkeeping: gather by submission index under every completion order and chunking, the
      dispatch rule, both branches = subproblems.map solveAll, the edge-parallel residual, copy-back.
Tie:  most of this property lives in the runtime (fork, dill, mmap), so the tie is *differential
      execution of the real stages*.  For every receiver a REFERENCE is computed with the real stage
      code but no worker process at all (`multiprocess.Pool` replaced by an in-process pool whose
      map/imap are the builtin map; the structural stage driven as `make_network -> reduce_graph ->
      solve_all(1)` on the receiver's own tubes, so neither the dispatch nor the copy-back code runs).
      Then the real stages run through `managers.SolutionManager` with real pools for
      nthreads x progress x paging, and every array of every tube (results, quadrature_results,
      axial_results) and the returned life / reliabilities are compared BIT FOR BIT with the reference.
      The dispatch branch actually taken is instrumented (parent-side `solve_all` calls, and the
      solver's own `verbose` text when progress is on) and compared with `Pool.dispatchOf` of the model.
      `Tube.copy_results` is compared with `Pool.copyResults`; `SpringNetwork.RJ` is checked per edge
      (the state installed on edge k is the state an independent per-edge solve gives for edge k).
      A library-level observation backs the assumption named in the trusted base: real
      `multiprocess.Pool.map/imap` runs whose *observed* completion order is fed to `Pool.gather`.
      Paging file names: for the paged in-process run of every receiver the files left in the working directory and
      the file behind every array are compared with `SrModel.PageNames` (tube number = position in Receiver.tubes,
      `<i>_<field><suffix>.dat`), and no two (tube, dictionary, field) triples may share a file.
Search: the same differential runs (every difference is a failing input: receiver, configuration, array).
Known: F24 — `page_results=True` + any pool stage that ships a tube already holding results dies with
      `TypeError: cannot pickle 'mmap.mmap' object` (signature c08:paging-pool-pickle).
"""
import contextlib
import gc
import io
import json
import os
import signal
import sys
import tempfile
import time
import warnings

sys.path.insert(0, os.path.dirname(os.path.abspath(__file__)))
import common
import numpy as np

F24_SIG = "c08:paging-pool-pickle"
F24_TEXT = "cannot pickle 'mmap.mmap' object"
DICTS = ("results", "quadrature_results", "axial_results")
R_OUT, THICK, HEIGHT, NT, NZ = 12.7, 1.0, 500.0, 6, 2


def mods():
    from srlife import receiver, solverparams, library, thermal, structural, system, damage, managers, spring
    return receiver, solverparams, library, thermal, structural, system, damage, managers, spring


# ---------------------------------------------------------------------------
# receivers (JSON-able descriptions)
# ---------------------------------------------------------------------------
def opt_of(enc):
    return enc if isinstance(enc, str) else float(enc)


def build(desc):
    receiver = mods()[0]
    times = np.array(desc["times"], dtype=float)
    model = receiver.Receiver(desc.get("period", 24.0), desc.get("days", 1), opt_of(desc["recv"]))
    th = np.linspace(0, 2 * np.pi, NT + 1)[:NT]
    onoff = np.maximum(np.sin(np.pi * times / 12.0), 0.0)
    for p in desc["panels"]:
        panel = receiver.Panel(opt_of(p["stiff"]))
        for td in p["tubes"]:
            ro, thk = td.get("ro", R_OUT), td.get("th", THICK)
            tube = receiver.Tube(ro, thk, HEIGHT, td["nr"], td.get("nt", NT), NZ, T0=td["T0"],
                                 multiplier=td.get("mult", 1))
            if td["dim"] == 1:
                tube.make_1D(HEIGHT / 2, 0.0)
            elif td["dim"] == 2:
                tube.make_2D(HEIGHT / 2)
            tube.set_times(times)
            nt = td.get("nt", NT)
            tht = np.linspace(0, 2 * np.pi, nt + 1)[:nt]
            flux = td["flux"] * onoff[:, None, None] * (0.25 + np.maximum(np.cos(tht), 0.0))[None, :, None] \
                * np.ones((1, 1, NZ))
            tube.set_bc(receiver.HeatFluxBC(ro, HEIGHT, nt, NZ, times, flux), "outer")
            if not desc.get("flowpath"):
                tube.set_bc(receiver.ConvectiveBC(ro - thk, HEIGHT, NZ, times,
                                                  np.full((len(times), NZ), td["Tf"])), "inner")
            tube.set_pressure_bc(receiver.PressureBC(times, td["p"] * onoff))
            panel.add_tube(tube)
        model.add_panel(panel)
    if desc.get("flowpath"):
        model.add_flowpath(list(model.panels.keys()), times, np.full(len(times), 2.0e5),
                           np.full(len(times), 800.0))
    return model


def describe(desc):
    def o(e):
        return e if isinstance(e, str) else "k=%g" % e
    return "%s[%s; recv=%s; %s]" % (
        desc["name"], desc["material"] + ("/" + desc["dmodel"] if "dmodel" in desc else ""), o(desc["recv"]),
        " | ".join("%s:%s" % (o(p["stiff"]), ",".join("%dD" % t["dim"] for t in p["tubes"])) for p in desc["panels"]))


def gen_tube(rng, dim, big=False):
    return {"dim": dim, "nr": (6 if big else rng.choice([4, 5])), "nt": (12 if big and dim == 2 else NT),
            "T0": 800.0, "Tf": rng.choice([790.0, 800.0, 810.0]),
            "flux": rng.choice([0.2, 0.3, 0.4, 0.5, 0.6]) + rng.randrange(0, 16) / 256.0,
            "p": rng.choice([0.5, 1.0, 2.0]), "mult": rng.choice([1, 1, 2, 5]),
            # tube gauges differ while the discretisation is shared: anything remembered per process and keyed on
            # the grid size alone would leak from one tube to the next tube of that worker
            "ro": rng.choice([R_OUT, R_OUT, 1.2 * R_OUT]), "th": rng.choice([THICK, 0.8 * THICK])}


def num_opt(rng):
    return rng.choice([100.0, 1000.0, 2.5e4, 1.0e5])


TIMES = [0.0, 6.0, 12.0, 18.0, 24.0]


def gen_edge(rng, material, small=False):
    """one connected sub-network with many tubes -> `nprobs < max_sub` -> sequential / edge-parallel"""
    dims = [1, 1, 1] if small else [1, 1, 1, 2]
    rng.shuffle(dims)
    tubes = [gen_tube(rng, d) for d in dims]
    return {"name": "edge", "material": material, "times": TIMES[:3] if small else TIMES,
            "period": 12.0 if small else 24.0,
            "recv": rng.choice(["rigid", num_opt(rng)]),
            "panels": [{"stiff": rng.choice(["rigid", num_opt(rng)]), "tubes": tubes[:2]},
                       {"stiff": rng.choice(["rigid", num_opt(rng)]), "tubes": tubes[2:]}]}


def gen_cutback(rng):
    """connected creep receiver in which one hot, pressurised tube needs adaptive cut-backs of its structural steps
    (Newton budget 4) and the others do not"""
    d = dict(gen_edge(rng, "creep", small=True), name="edge-cutback", structural_miter=3, no_damage=True)
    tubes = [t for p in d["panels"] for t in p["tubes"]]
    # load levels found by probing: three sub-increments fail and are cut back, the receiver still solves
    tubes[0].update(flux=0.8, p=2.0, dim=1)
    for t in tubes[1:]:
        t.update(flux=0.4, p=2.0, dim=1)
    for t in tubes:
        t.update(ro=R_OUT, th=THICK, Tf=800.0, nr=4)      # nominal gauge
    # stiff connections: with soft ones the system Newton iteration of this heavily loaded receiver does not converge
    d["recv"] = "rigid"
    d["panels"][0]["stiff"], d["panels"][1]["stiff"] = "rigid", 1.0e5
    return d


def gen_sub(rng, material, name="sub", small=False):
    """everything disconnected -> one sub-problem per tube -> sub-problems in a pool.  The FIRST
    sub-problem is by far the most expensive (2-D, fine mesh), so with >= 2 workers the later ones
    finish first: completion order != submission order."""
    tubes = [gen_tube(rng, 2, big=not small)] + [gen_tube(rng, 1) for _ in range(2 if small else 3)]
    # among the cheap tubes a coarser one always precedes a finer one: a schedule that hands tasks out by size
    # (largest first) then differs from submission order
    for k, t in enumerate(tubes[1:]):
        t["nr"] = 4 + (k % 2)
    return {"name": name, "material": material, "times": TIMES[:3] if small else TIMES, "recv": "disconnect",
            "period": 12.0 if small else 24.0,
            "panels": [{"stiff": "disconnect", "tubes": tubes[:2]}, {"stiff": "disconnect", "tubes": tubes[2:]}]}


def gen_mixed(rng, material):
    """random connection options and panel sizes (either branch)"""
    sizes = rng.choice([[2, 2], [3, 1], [1, 2, 1], [2, 1], [1, 3]])
    panels = []
    first = True
    for n in sizes:
        tubes = []
        for _ in range(n):
            tubes.append(gen_tube(rng, 2 if first else 1, big=first))
            first = False
        panels.append({"stiff": rng.choice(["disconnect", "rigid", num_opt(rng)]), "tubes": tubes})
    return {"name": "mixed", "material": material, "times": TIMES,
            "recv": rng.choice(["disconnect", "disconnect", "rigid", num_opt(rng)]), "panels": panels}


def gen_flow(rng):
    """thermohydraulic receiver: thermal stage only (`solve_metal`'s `p.map(work, tubes)`).  All tubes
    share one abstraction and mesh: the coupled solver stacks the tube fields into one array."""
    tubes = [dict(gen_tube(rng, 1), nr=4) for _ in range(3)]
    return {"name": "flow", "material": "thermohydraulic", "times": [0.0, 6.0], "flowpath": True,
            "recv": "disconnect",
            "panels": [{"stiff": "disconnect", "tubes": tubes[:2]}, {"stiff": "disconnect", "tubes": tubes[2:]}]}


_matcache = {}


def materials_for(kind):
    """kind: 'elastic' | 'creep' (316H shipped) | 'ceramic' (SiC shipped) | 'thermohydraulic'"""
    receiver, solverparams, library, thermal, structural, system, damage, managers, spring = mods()
    if kind not in _matcache:
        if kind in ("elastic", "creep"):
            _matcache[kind] = dict(
                th=library.load_thermal("316H", "base"), fl=library.load_fluid("salt", "base"),
                de=library.load_deformation("316H", "elastic_model" if kind == "elastic" else "base"),
                da=library.load_damage("316H", "base"))
        elif kind == "ceramic":
            _matcache[kind] = dict(
                th=library.load_thermal("SiC", "base"), fl=library.load_fluid("salt_SiC", "base"),
                de=library.load_deformation("SiC", "elastic_model"), da=library.load_damage("SiC", "base"))
        elif kind == "thermohydraulic":
            _matcache[kind] = dict(
                th=library.load_thermal("316H", "base"), fl=library.load_thermal_fluid("32MgCl2-68KCl", "base"),
                de=None, da=None)
        else:
            raise ValueError(kind)
    return _matcache[kind]


# ---------------------------------------------------------------------------
# instrumentation
# ---------------------------------------------------------------------------
class SerialPool:
    """in-process stand-in for multiprocess.Pool used ONLY for the reference run"""

    def __init__(self, n=None, reverse=False):
        self.n = n
        self.reverse = reverse     # evaluate the tasks last-to-first (results still in submission order)

    def _run(self, f, items):
        items = list(items)
        if not self.reverse:
            return [f(x) for x in items]
        out = [None] * len(items)
        for i in reversed(range(len(items))):
            out[i] = f(items[i])
        return out

    def __enter__(self):
        return self

    def __exit__(self, *a):
        return False

    def map(self, f, it, chunksize=None):
        return self._run(f, it)

    def imap(self, f, it, chunksize=1):
        return iter(self._run(f, it))

    def imap_unordered(self, f, it, chunksize=1):
        return iter(self._run(f, it))     # submission order is one of the orders the real call may produce

    def starmap(self, f, it, chunksize=None):
        return self._run(lambda a: f(*a), it)

    def apply(self, f, args=(), kwds=None):
        return f(*args, **(kwds or {}))


def _robust_help_stuff_finish(inqueue, task_handler, size):
    """replacement for multiprocess.pool.Pool._help_stuff_finish used while the harness runs.
    The library's version stops draining the task pipe as soon as it is momentarily empty; a task
    handler that is still pickling a large task (srlife ships the whole receiver with every task)
    then blocks for ever on the pipe once the workers are terminated, and `with Pool() as p:` never
    returns after a worker raised.  This version drains until the task handler has finished.  It only
    changes how a pool is torn down, never a result."""
    inqueue._rlock.acquire()
    while task_handler.is_alive():
        if inqueue._reader.poll(0.01):
            inqueue._reader.recv_bytes()


class StageTimeout(Exception):
    pass


@contextlib.contextmanager
def time_limit(seconds):
    def handler(signum, frame):
        raise StageTimeout("stage did not finish within %d s (hang)" % seconds)
    old = signal.signal(signal.SIGALRM, handler)
    signal.alarm(int(seconds))
    try:
        yield
    finally:
        signal.alarm(0)
        signal.signal(signal.SIGALRM, old)


class Instr:
    """patches multiprocess.Pool (recording wrapper around the REAL pool, or SerialPool for the
    reference) and records what SpringSystemSolver.solve did with its sub-problems"""

    def __init__(self, serial=False, reverse=False):
        self.serial = serial
        self.reverse = reverse
        self.pools = []          # processes of every pool created in this (parent) process
        self.subs = None         # tube counts of the sub-problems returned by reduce_graph
        self.parent_solve_all = []   # nthreads of solve_all calls executed in the parent

    def __enter__(self):
        import multiprocess
        import multiprocess.pool
        spring = mods()[8]
        self._mp, self._spring = multiprocess, spring
        self._help = multiprocess.pool.Pool.__dict__["_help_stuff_finish"]
        multiprocess.pool.Pool._help_stuff_finish = staticmethod(_robust_help_stuff_finish)
        self._pool, self._rg, self._sa = multiprocess.Pool, spring.SpringNetwork.reduce_graph, spring.SpringNetwork.solve_all
        me, real_pool, pid = self, multiprocess.Pool, os.getpid()

        def pool(n=None, *a, **k):
            if os.getpid() == pid:
                me.pools.append(n)
            return SerialPool(n, reverse=me.reverse) if me.serial else real_pool(n, *a, **k)

        def reduce_graph(net):
            subs = me._rg(net)
            me.subs = [sum(1 for _, _, d in sb.edges(data=True) if isinstance(d["object"], spring.TubeSpring))
                       for sb in subs]
            return subs

        def solve_all(net, nthreads=1, **k):
            if os.getpid() == pid:
                me.parent_solve_all.append(nthreads)
            return me._sa(net, nthreads, **k)

        multiprocess.Pool = pool
        spring.SpringNetwork.reduce_graph = reduce_graph
        spring.SpringNetwork.solve_all = solve_all
        return self

    def __exit__(self, *a):
        self._mp.Pool = self._pool
        self._mp.pool.Pool._help_stuff_finish = self._help
        self._spring.SpringNetwork.reduce_graph = self._rg
        self._spring.SpringNetwork.solve_all = self._sa
        return False


@contextlib.contextmanager
def in_tempdir(active):
    """paged files are created in the current directory"""
    if not active:
        yield None
        return
    old = os.getcwd()
    with tempfile.TemporaryDirectory(prefix="c08_page_") as d:
        os.chdir(d)
        try:
            yield d
        finally:
            os.chdir(old)


def snapshot(model):
    out = {}
    for i, tube in enumerate(model.tubes):
        for dn in DICTS:
            for k, v in getattr(tube, dn).items():
                out["%d/%s/%s" % (i, dn, k)] = np.array(v, dtype=float, copy=True)
    return out


def cfg_name(cfg):
    return "nthreads=%d progress=%s paging=%s%s" % (
        cfg["nthreads"], "on" if cfg["progress"] else "off", "on" if cfg["page"] else "off",
        " (thermal+structural in-process, damage through the real pool)" if cfg.get("inproc_before_damage") else
        " (in-process, tasks evaluated last-to-first)" if cfg.get("inproc_reversed") else "")


REL_TIME = 100000.0
STAGE_LIMIT = 600


def run_pipeline(desc, cfg, reference=False):
    """runs go through a child process: a change that makes two tubes share one paging file ends
    in SIGBUS, which must be a recorded result and not the death of the check"""
    # every run -- the reference too -- happens in a child forked from a parent that never solves anything itself:
    # state a solve leaves behind in its process (module- or class-level caches) then differs between schedules
    # instead of being shared by all of them
    if os.environ.get("C08_NOFORK"):
        return _run_pipeline(desc, cfg, reference)
    import pickle
    import signal as _signal
    rd, wr = os.pipe()
    pid = os.fork()
    if pid == 0:
        code = 0
        try:
            os.close(rd)
            data = pickle.dumps(_run_pipeline(desc, cfg, reference))
            with os.fdopen(wr, "wb") as f:
                f.write(data)
        except BaseException:   # noqa
            code = 3
        os._exit(code)
    os.close(wr)
    with os.fdopen(rd, "rb") as f:
        data = f.read()
    _, status = os.waitpid(pid, 0)
    if os.WIFSIGNALED(status) or not data:
        why = ("killed by signal %d (%s)" % (os.WTERMSIG(status), _signal.Signals(os.WTERMSIG(status)).name)
               if os.WIFSIGNALED(status) else "exited with status %d without a result" % os.WEXITSTATUS(status))
        stages = ["thermal"] if desc["material"] == "thermohydraulic" else ["thermal", "structural", "damage"]
        return {"stages": {st: ("raised ProcessCrash: the pipeline process %s" % why if k == 0 else "skipped") for k, st in enumerate(stages)},
                "snaps": {}, "life": None, "rel": None, "branch": None, "subs": None, "pools": {}, "verbose_branch": None,
                "paged_types": None, "errors": {stages[0]: ("ProcessCrash", why)}}
    return pickle.loads(data)


def _run_pipeline(desc, cfg, reference=False):
    """all stages of one receiver.  cfg = {nthreads, progress, page}.  reference=True: no worker
    process anywhere, structural stage without SpringSystemSolver.solve.
    Returns dict(stages={name: 'ok' | 'raised ...' | 'skipped'}, snaps={stage: snapshot}, life, rel, ...)"""
    receiver, solverparams, library, thermal, structural, system, damage, managers, spring = mods()
    kind = desc["material"]
    m = materials_for(kind)
    out = {"stages": {}, "snaps": {}, "life": None, "rel": None, "branch": None, "subs": None, "pools": {},
           "verbose_branch": None, "paged_types": None, "errors": {}}
    with in_tempdir(cfg["page"]), warnings.catch_warnings():
        warnings.simplefilter("ignore")
        model = build(desc)
        params = solverparams.ParameterSet()
        params["nthreads"] = cfg["nthreads"]
        params["progress_bars"] = cfg["progress"]
        params["page_results"] = cfg["page"]
        params["system"]["atol"] = 1.0e-4
        if desc.get("structural_miter"):
            # a small (legal) Newton budget of the tube solver: some steps then need the adaptive cut-back, so what a
            # tube solve costs -- and anything remembered about it -- differs from tube to tube
            params["structural"]["miter"] = int(desc["structural_miter"])
        if kind == "thermohydraulic":
            params["thermal"]["miter"] = 200
            tsolver = thermal.ThermohydraulicsThermalSolver(params["thermal"])
        else:
            tsolver = thermal.FiniteDifferenceImplicitThermalSolver(params["thermal"])
        ssolver = structural.PythonTubeSolver(params["structural"])
        sysolver = system.SpringSystemSolver(params["system"])
        if kind == "ceramic":
            # a crack-shape-dependent model: the 2-D first tube costs ~30x a 1-D tube, so with two or
            # more workers the later tubes finish first (completion order != submission order)
            dmodel = getattr(damage, desc.get("dmodel", "CSEModelPennyShapedFlaw"))(params["damage"])
        else:
            dmodel = damage.TimeFractionInteractionDamage(params["damage"])
        mgr = managers.SolutionManager(model, tsolver, m["th"], m["fl"], ssolver, m["de"], m["da"], sysolver,
                                       dmodel, pset=params)
        stages = ["thermal"] if kind == "thermohydraulic" else ["thermal", "structural", "damage"]
        if desc.get("no_damage"):
            stages = ["thermal", "structural"]
        failed = False
        for st in stages:
            if failed:
                out["stages"][st] = "skipped"
                continue
            so, se = io.StringIO(), io.StringIO()
            inproc = reference or (cfg.get("inproc_before_damage") and st != "damage")
            try:
                with Instr(serial=inproc, reverse=bool(cfg.get("inproc_reversed"))) as ins, contextlib.redirect_stdout(so), contextlib.redirect_stderr(se), \
                        time_limit(STAGE_LIMIT):
                    if st == "thermal":
                        mgr.solve_heat_transfer()
                    elif st == "structural":
                        if inproc:
                            net = sysolver.make_network(model, m["de"], ssolver)
                            for sb in net.reduce_graph():
                                sb.solve_all(1)
                        else:
                            mgr.solve_structural()
                    elif kind == "ceramic":
                        r = mgr.calculate_reliability(REL_TIME)
                        out["rel"] = {k: np.atleast_1d(np.array(v, dtype=float)) for k, v in r.items()}
                    else:
                        out["life"] = float(mgr.calculate_damage())
                out["stages"][st] = "ok"
            except Exception as e:   # noqa: a failing stage is a result here
                out["stages"][st] = "raised %s: %s" % (type(e).__name__, str(e)[:160])
                out["errors"][st] = (type(e).__name__, str(e))
                failed = True
                if isinstance(e, StageTimeout):
                    import multiprocess
                    for ch in multiprocess.active_children():
                        ch.terminate()
            out["pools"][st] = [] if inproc else list(ins.pools)
            if st == "structural" and not inproc:
                out["subs"] = ins.subs
                if ins.subs is not None and out["stages"][st] == "ok":
                    out["branch"] = "sequential" if ins.parent_solve_all else "parallel"
                    out["parent_solve_all"] = list(ins.parent_solve_all)
                txt = so.getvalue()
                if "Solving substructures sequentially" in txt:
                    out["verbose_branch"] = "sequential"
                elif "Solving subproblems in parallel" in txt:
                    out["verbose_branch"] = "parallel"
            if st == "structural" and inproc:
                out["subs"] = ins.subs
            if cfg["progress"]:
                out.setdefault("progress_text", {})[st] = (len(so.getvalue()), len(se.getvalue()))
            out["snaps"][st] = snapshot(model)
        if cfg["page"]:
            out["paged_types"] = sorted({type(v).__name__ for t in model.tubes for dn in DICTS
                                         for v in getattr(t, dn).values()})
            out["page_files"], out["page_layout"] = page_record(model)
        del mgr, model, tsolver, ssolver, sysolver, dmodel
        gc.collect()      # paged arrays keep their files open until collected
    return out


# ---------------------------------------------------------------------------
# paging file names
# ---------------------------------------------------------------------------
PAGE_SIG = "c08:page-files"
PAGE_MODS = ["SrModel.Pool", "SrModel.PageNames"]
DICT_CODE = {"results": "r", "quadrature_results": "q", "axial_results": "a"}
# the arrays srlife creates with add_blank_axial_results (thermal.ThermohydraulicsThermalSolver); every other axial
# array comes from add_axial_results.  For results / quadrature_results both writers use one suffix.
AXIAL_BLANK = ("fluid_temperature", "fluid_velocity")


def _backing_file(v):
    fn = getattr(v, "filename", None) if isinstance(v, np.memmap) else None
    return None if fn is None else os.path.basename(str(fn))


def page_record(model):
    """(files in the working directory, per tube: panel, position in the panel, index in model.tubes, page_prefix,
    and per dictionary [field name, file behind the array or None]) -- plain lists and strings"""
    flat = list(model.tubes)
    layout = []
    for p, panel in enumerate(model.panels.values()):
        for k, tube in enumerate(panel.tubes.values()):
            idx = [j for j, t in enumerate(flat) if t is tube]
            layout.append({"panel": p, "pos": k, "index": idx[0] if len(idx) == 1 else -1, "prefix": str(tube.page_prefix),
                           "fields": {dn: [[str(name), _backing_file(v)] for name, v in getattr(tube, dn).items()]
                                      for dn in DICTS}})
    return sorted(os.listdir(".")), layout


def hexs(s):
    return s.encode("utf-8").hex() or "-"


def unhexs(s):
    return "" if s == "-" else bytes.fromhex(s).decode("utf-8")


def page_check(desc, run_, drv):
    """problems (list of str) of the paging files of one paged run, number of (tube, dictionary, field) triples"""
    files, layout = run_.get("page_files"), run_.get("page_layout")
    if files is None or layout is None:
        return ["the paged run recorded no files (stages: %s)" % run_.get("stages")], 0
    sizes = [len(p["tubes"]) for p in desc["panels"]]
    probs, triples, lines = [], [], []
    if sorted((t["panel"], t["pos"]) for t in layout) != [(p, k) for p, n in enumerate(sizes) for k in range(n)]:
        probs.append("tubes of the receiver %s are not those of the description %s" % (
            [(t["panel"], t["pos"]) for t in layout], sizes))
        return probs, 0
    for t in layout:
        for dn in DICTS:
            for name, real in t["fields"][dn]:
                code = DICT_CODE[dn] + ("b" if dn == "axial_results" and name in AXIAL_BLANK else "")
                triples.append((t, dn, name, real))
                lines.append("pg %s %d %d %s %s" % (",".join(map(str, sizes)), t["panel"], t["pos"], code, hexs(name)))
    answers = drv.ask(lines)
    expected, behind = set(), {}
    for (t, dn, name, real), ans in zip(triples, answers):
        where = "tube %d of panel %d (index %d in Receiver.tubes, page_prefix %r) %s[%r]" % (
            t["pos"], t["panel"], t["index"], t["prefix"], dn, name)
        try:
            want = unhexs(ans)
        except ValueError:
            probs.append("%s: the model answers %r" % (where, ans))
            continue
        if real is None:
            probs.append("%s is not backed by a file although paging is on (model: %r)" % (where, want))
            continue
        expected.add(want)
        behind.setdefault(real, []).append(where)
        if real != want:
            probs.append("%s is stored in %r, the model says %r" % (where, real, want))
    # directly, without the model: different triples, different files
    for real, ws in sorted(behind.items()):
        if len(ws) > 1:
            probs.insert(0, "%d different arrays share the file %r: %s" % (len(ws), real, "; ".join(ws[:3])))
    if set(files) != expected:
        probs.append("files left by the run differ from the model's: only on disk %s, only in the model %s" % (
            sorted(set(files) - expected)[:4], sorted(expected - set(files))[:4]))
    return probs, len(triples)


PROBE_NAMES = ["x", "x ", "1_x", "x_node", "x_quad.dat", "x _axial", "\u00e9 \u03c3_\u03b8", "0"]


def writer_probe(drv):
    """both writers of the three dictionaries on a stand-alone paged tube, awkward field names: file behind the array
    == model.  Returns (problems, number of arrays, whether add_axial_results(f) and add_blank_axial_results(f + ' ')
    opened the same file)"""
    receiver = mods()[0]
    rows, lines = [], []
    with in_tempdir(True):
        tube = receiver.Tube(5.0, 0.5, 2.5, 3, 4, 2)
        tube.set_times(np.array([0.0, 1.0]))
        tube.set_paging(True, 7)
        sh = (2, 3, 4, 2)
        for name in PROBE_NAMES:
            for code in ("r", "rb", "q", "qb", "a", "ab"):
                if code == "r":
                    tube.add_results(name, np.zeros(sh))
                elif code == "rb":
                    tube.add_blank_results(name, sh)
                elif code == "q":
                    tube.add_quadrature_results(name, np.zeros(sh))
                elif code == "qb":
                    tube.add_blank_quadrature_results(name, sh)
                elif code == "a":
                    tube.add_axial_results(name, np.zeros((2, 2)))
                else:
                    tube.add_blank_axial_results(name)
                dn = {"r": "results", "q": "quadrature_results", "a": "axial_results"}[code[0]]
                rows.append((name, code, _backing_file(getattr(tube, dn)[name])))
                lines.append("pg 3,5 1 4 %s %s" % (code, hexs(name)))
        del tube
        gc.collect()
    answers = drv.ask(lines)
    probs = []
    for (name, code, real), ans in zip(rows, answers):
        try:
            want = unhexs(ans)
        except ValueError:
            want = ans
        if real != want:
            probs.append("Tube.set_paging(True, 7), writer %s, field %r: file %r, model %r" % (code, name, real, want))
    shared = {(n, c): r for n, c, r in rows}
    return probs, len(rows), shared[("x", "a")] == shared[("x ", "ab")]


def compare(ref, out):
    """list of (stage, what) differences between a run and the reference, over the stages the run
    completed; a field is attributed to the first stage after which it differs"""
    diffs, reported = [], set()
    for st, status in out["stages"].items():
        if status != "ok":
            continue
        a, b = ref["snaps"][st], out["snaps"][st]
        if set(a) != set(b) and ("fields", ) not in reported:
            reported.add(("fields", ))
            diffs.append((st, "result fields differ: missing %s, extra %s" % (sorted(set(a) - set(b))[:4], sorted(set(b) - set(a))[:4])))
        for k in sorted(set(a) & set(b)):
            if k in reported:
                continue
            if a[k].shape != b[k].shape:
                reported.add(k)
                diffs.append((st, "tube %s: shape %s vs reference %s" % (k.replace("/", " "), b[k].shape, a[k].shape)))
            elif a[k].tobytes() != b[k].tobytes():
                reported.add(k)
                with np.errstate(all="ignore"):
                    d = float(np.nanmax(np.abs(a[k] - b[k])))
                nbad = int(np.sum(a[k] != b[k]))
                diffs.append((st, "tube %s differs from the reference in %d of %d entries (max abs diff %.3g)" % (
                    k.replace("/", " "), nbad, a[k].size, d)))
    if out["stages"].get("damage") == "ok":
        if ref["life"] is not None and not (out["life"] == ref["life"]):
            diffs.append(("damage", "life %r differs from the reference %r" % (out["life"], ref["life"])))
        if ref["rel"] is not None:
            for k in ref["rel"]:
                if out["rel"][k].shape != ref["rel"][k].shape or out["rel"][k].tobytes() != ref["rel"][k].tobytes():
                    diffs.append(("damage", "%s %s differs from the reference %s" % (
                        k, out["rel"][k].tolist(), ref["rel"][k].tolist())))
    return diffs


def is_f24(err):
    return err is not None and err[0] == "TypeError" and F24_TEXT in err[1]


# ---------------------------------------------------------------------------
# F24 minimal reproductions (real code)
# ---------------------------------------------------------------------------
F24_MINIMAL = """import numpy as np, multiprocess
from srlife import receiver
t = receiver.Tube(5.0, 0.5, 2.5, 3, 4, 2, page=True)      # run in an empty directory: creates temperature_node.dat
t.make_1D(1.25, 0.0); t.set_times(np.array([0.0, 1.0]))
t.add_results("temperature", np.zeros((2, 3)))             # -> np.memmap
with multiprocess.Pool(1) as p:
    p.map(lambda x: x.r, [t])                              # TypeError: cannot pickle 'mmap.mmap' object"""


def f24_minimal():
    """returns (exception type, text) of the minimal reproduction, or None when it works"""
    import multiprocess
    receiver = mods()[0]
    with in_tempdir(True):
        t = receiver.Tube(5.0, 0.5, 2.5, 3, 4, 2, page=True)
        t.make_1D(1.25, 0.0)
        t.set_times(np.array([0.0, 1.0]))
        t.add_results("temperature", np.zeros((2, 3)))
        kind = type(t.results["temperature"]).__name__
        try:
            with multiprocess.Pool(1) as p:
                got = p.map(lambda x: x.r, [t])
            res = None if got == [5.0] else ("WrongResult", repr(got))
        except Exception as e:
            res = (type(e).__name__, str(e))
        del t
    return kind, res


# ---------------------------------------------------------------------------
# RJ: state of edge k installed on edge k (independent per-edge reference)
# ---------------------------------------------------------------------------
def state_snapshot(st):
    if st is None:
        return None
    out = {}
    for k, v in vars(st).items():
        if isinstance(v, np.ndarray) and v.dtype.kind == "f":
            out[k] = v.tobytes()
        elif isinstance(v, (float, np.floating)):
            out[k] = float(v).hex()
    return out


def rj_check(desc, thermal_snap, nthreads_list, seed):
    """real SpringNetwork.RJ on the first sub-problem of `desc` at step 1 with a random displacement;
    returns (failures, info).  `thermal_snap`: reference temperatures to put on the tubes."""
    import random
    receiver, solverparams, library, thermal, structural, system, damage, managers, spring = mods()
    m = materials_for(desc["material"])
    bad = []
    with warnings.catch_warnings():
        warnings.simplefilter("ignore")
        model = build(desc)
        for i, tube in enumerate(model.tubes):
            tube.add_results("temperature", thermal_snap["%d/results/temperature" % i])
        net = system.SpringSystemSolver(atol=1e-4).make_network(model, m["de"], structural.PythonTubeSolver())
        subs = net.reduce_graph()
        sub = max(subs, key=lambda s: s.number_of_edges())
        sub.validate_solve()
        sub.i = 1
        sub.displacements = np.zeros((len(sub.nodes),))
        sub.dmap, sub.free, sub.forces, sub.fixed, sub.fixed_displacements = sub.dof_maps(1)
        rng = random.Random(seed)
        d = np.array([rng.randrange(-8, 9) / 64.0 for _ in sub.free])
        dall = np.zeros((len(sub.nodes),))
        dall[sub.dmap[sub.fixed]] = sub.fixed_displacements
        dall[sub.dmap[sub.free]] = d
        # independent reference: each edge solved on its own, in this process
        ref, kinds = [], []
        for i, j, edge in sub.edges(data=True):
            ii, jj = sub.dmap[i], sub.dmap[j]
            ss = np.sign(ii - jj)
            obj = edge["object"]
            f, k = obj.force_and_stiffness(1, (dall[jj] - dall[ii]) * ss)
            ref.append((float(f).hex(), float(k).hex(), state_snapshot(obj.state_np1)))
            kinds.append(type(obj).__name__)
            obj.state_np1 = None
        distinct = len({json.dumps(r[2], sort_keys=True, default=str) for r in ref if r[2] is not None})
        base = None
        for n in nthreads_list:
            for _, _, edge in sub.edges(data=True):
                edge["object"].state_np1 = None
            R, J = sub.RJ(d, nthreads=n)
            got = (np.array(R).tobytes(), np.array(J).tobytes())
            if base is None:
                base = got
            elif got != base:
                bad.append("RJ(nthreads=%d) residual/Jacobian differ bitwise from nthreads=%d" % (n, nthreads_list[0]))
            for k, (_, _, edge) in enumerate(sub.edges(data=True)):
                inst = state_snapshot(edge["object"].state_np1)
                if inst != ref[k][2]:
                    which = [q for q in range(len(ref)) if ref[q][2] == inst and inst is not None]
                    bad.append("RJ(nthreads=%d): state installed on edge %d (%s) is not the state of edge %d%s" % (
                        n, k, kinds[k], k, (" but that of edge %s" % which) if which else ""))
                    break
    return bad, {"edges": len(ref), "tube_edges": kinds.count("TubeSpring"), "distinct_states": distinct,
                 "nfree": len(d)}


# ---------------------------------------------------------------------------
# dispatch decision of the real solve on many option assignments (no FEM: stub tube solver)
# ---------------------------------------------------------------------------
class _BarState:
    def __init__(self, force=0.0, stiffness=1.0):
        self.force, self.stiffness = force, stiffness


class _StubSolver:
    def setup_tube(self, tube):
        pass

    def init_state(self, tube, mat, i=None):
        return _BarState()

    def dump_state(self, tube, i, state):
        pass

    def solve(self, tube, i, state_n, d):
        return _BarState(d, 1.0)


def dispatch_probe(recv, panels):
    """branch the REAL SpringSystemSolver.solve takes (its own verbose text), solve_all stubbed out"""
    receiver, solverparams, library, thermal, structural, system, damage, managers, spring = mods()
    model = receiver.Receiver(24.0, 1, opt_of(recv))
    for stiff, n in panels:
        panel = receiver.Panel(opt_of(stiff))
        for _ in range(n):
            t = receiver.Tube(5.0, 0.5, 2.5, 2, 1, 1)
            t.set_times(np.array([0.0, 1.0]))
            panel.add_tube(t)
        model.add_panel(panel)
    so = io.StringIO()
    with Instr(serial=True) as ins:
        real_sa = spring.SpringNetwork.solve_all
        spring.SpringNetwork.solve_all = lambda net, nthreads=1, **k: net
        try:
            with contextlib.redirect_stdout(so):
                system.SpringSystemSolver().solve(model, None, _StubSolver(), nthreads=3, verbose=True)
            err = None
        except Exception as e:
            err = "%s: %s" % (type(e).__name__, e)
        finally:
            spring.SpringNetwork.solve_all = real_sa
    txt = so.getvalue()
    branch = "sequential" if "Solving substructures sequentially" in txt else (
        "parallel" if "Solving subproblems in parallel" in txt else "error")
    return branch, ins.subs, err


# ---------------------------------------------------------------------------
# library-level observation: real multiprocess pools, observed completion order -> model gather
# ---------------------------------------------------------------------------
def pool_observation(n, workers, chunk, delays, use_imap):
    import multiprocess

    def task(i, delays=delays):
        import os
        import time as _t
        _t.sleep(delays[i])
        return (100 + i, _t.monotonic(), os.getpid())

    with multiprocess.Pool(workers) as p:
        if use_imap:
            res = list(p.imap(task, range(n), chunksize=chunk))
        else:
            res = list(p.map(task, range(n), chunksize=chunk))
        default_chunk = p.map_async(abs, list(range(n)))._chunksize if n else 0
    nch = (n + chunk - 1) // chunk
    done = [max(r[1] for r in res[j * chunk:(j + 1) * chunk]) for j in range(nch)]
    order = sorted(range(nch), key=lambda j: done[j])
    return [r[0] for r in res], order, len({r[2] for r in res}), default_chunk


# ---------------------------------------------------------------------------
def configs(ctx, kind, name):
    """(nthreads, progress, paging) explored for a receiver"""
    def c(n, pr=False, pg=False, pre=False):
        d = {"nthreads": n, "progress": pr, "page": pg}
        if pre:
            d["inproc_before_damage"] = True
        return d
    if ctx.quick():
        if kind == "creep":
            return [c(1), c(2)] + ([c(4)] if not name.startswith("edge") else [])
        if kind == "thermohydraulic":
            return [c(1), c(2), c(1, False, True)]
        if kind == "ceramic":
            return [c(1), c(2), c(4), c(2, True), c(2, False, True), c(2, False, True, True)]
        return [c(1), c(2), c(4), c(1, True), c(2, True), c(1, False, True), c(2, False, True)] + (
            [c(2, False, True, True)] if name == "sub" else [])
    ns = [1, 2, 3, 4, 8, 16]
    if kind == "creep":
        return [c(n) for n in ns[:4]] + [c(2, True), c(1, False, True)]
    if kind == "thermohydraulic":
        return [c(n) for n in ns[:4]] + [c(2, True), c(1, False, True), c(2, False, True)]
    return [c(n) for n in ns] + [c(n, True) for n in (1, 2, 4)] + [c(n, False, True) for n in (1, 2)] + [
        c(2, True, True), c(2, False, True, True)]


def receivers(ctx):
    rng = ctx.rng
    rs = [gen_edge(rng, "elastic"), gen_sub(rng, "elastic"), gen_mixed(rng, "elastic"),
          gen_edge(rng, "creep", small=ctx.quick()), gen_sub(rng, "creep", small=ctx.quick()),
          gen_sub(rng, "ceramic", name="ceramic"), gen_flow(rng),
          gen_cutback(rng)]
    if not ctx.quick():
        rs += [gen_mixed(rng, "elastic") for _ in range(4)] + [
            gen_mixed(rng, "creep"), dict(gen_edge(rng, "ceramic"), dmodel="PIAModel"),
            dict(gen_mixed(rng, "ceramic"), dmodel="MTSModelGriffithFlaw"),
            dict(gen_sub(rng, "ceramic", name="ceramic"), dmodel="WNTSAModel")]
    return rs


def run(ctx):
    t_start = time.time()
    warnings.filterwarnings("ignore", message=".*os.fork\\(\\) was called.*")
    ctx.rule = ("receivers: fixed families (edge: one connected network of 4 tubes; sub/ceramic: 4 disconnected tubes, "
                "the first much more expensive; mixed: random options/panel sizes; flow: thermohydraulic) with fluxes, "
                "meshes, stiffnesses, pressures, multipliers drawn from VERIF_SEED; each run through every stage for "
                "a fixed list of (nthreads, progress, paging); a case = (receiver, configuration, stage); non-trivial "
                "when a real worker pool was created in that stage (all are, except nthreads=1 residuals)")
    ctx.trusted = ["Lean 4 kernel + Mathlib (propext, Classical.choice, Quot.sound) — bookkeeping only",
                   "the differential harness harness/c08.py: reference = real stage code with an in-process pool "
                   "(no worker process) and the structural stage driven directly as solve_all(1) per sub-problem",
                   "bitwise comparison of every result array; life/reliabilities compared with ==",
                   "OMP/BLAS threads pinned to 1 by ./check (BLAS threading nondeterminism is outside the check)",
                   "NOT verified, only exercised: fork, dill pickling, mmap, OS scheduling"]
    ctx.assumptions = ["multiprocess.Pool.map/imap hand results back by submission index (observed on every run, see "
                       "'pool observation'; quantified over in the theorems as an arbitrary completion order)",
                       "a task function is a pure function of its pickled argument (fork/dill)",
                       "a paged (np.memmap) dictionary entry and an in-memory one are the same abstract value in the model"]
    thm_ok = common.lean_stage(ctx, [("SrProps.C08", "SrProps/C08.lean", "SrProps.C08")])
    drv = common.LeanDriver(PAGE_MODS)
    mods()

    lines, checks = [], []     # model requests and what to compare them with

    # ---- F24: establish the known issue first ---------------------------------------------------
    kind, f24 = f24_minimal()
    f24_hits = []
    if f24 is not None:
        f24_hits.append({"where": "minimal: Pool(1).map(f, [tube]) with tube.page=True after add_results",
                         "exception": "%s: %s" % f24})
    ctx.case(("f24", "minimal"), nontrivial=True, tag="f24/minimal/%s" % ("raises" if f24 else "works"))
    ctx.notes.append("F24 minimal reproduction: results['temperature'] is %s; Pool(1).map -> %s" % (
        kind, ("%s: %s" % f24) if f24 else "works"))

    # ---- differential execution -----------------------------------------------------------------
    viol = []          # (what, replay, signature)
    branches_hit = {}
    stage_table = {}
    unexpected_errors = []
    n_compared = 0
    dispatch_real = []
    page_bad, n_page_recv, n_page_triples = [], 0, 0
    for desc in receivers(ctx):
        kindm = desc["material"]
        base_cfg = {"nthreads": 1, "progress": False, "page": False}
        ref = run_pipeline(desc, base_cfg, reference=True)
        if any(s != "ok" for s in ref["stages"].values()):
            # is it the input (every configuration fails alike: infrastructure) or the schedule (some configuration
            # completes what the in-process run could not: the outcome depends on how the work is dispatched)?
            others = [(cfg, run_pipeline(desc, cfg)) for cfg in configs(ctx, kindm, desc["name"])[:2]]
            better = [(cfg, o) for cfg, o in others if any(o["stages"].get(st) == "ok" and ref["stages"][st] != "ok" for st in ref["stages"])]
            if not better:
                raise common.Infra("reference run failed for %s: %s" % (describe(desc), ref["stages"]))
            cfg, o = better[0]
            viol.append(("%s: the in-process run ends with %s, but with %s the stages end with %s: whether a stage completes depends on "
                         "the dispatch" % (describe(desc), ref["stages"], cfg_name(cfg), o["stages"]),
                         {"desc": desc, "cfg": cfg, "reference_fails": True}, "c08:outcome-differs"))
            ctx.case((describe(desc), "reference-fails"), nontrivial=True, tag="%s/reference fails, pooled run completes" % desc["name"])
            continue
        if not ref["snaps"]["thermal"]:
            raise common.Infra("reference run produced no arrays")
        # paging by itself is value-neutral (no pool involved): the paged reference equals the reference
        dp = []
        if not (ctx.quick() and kindm == "creep"):
            refp = run_pipeline(desc, {"nthreads": 1, "progress": False, "page": True}, reference=True)
            dp = compare(ref, refp) + [(s, "paged reference " + v) for s, v in refp["stages"].items() if v != "ok"]
            for st in refp["stages"]:
                ctx.case((describe(desc), "ref-paged", st), nontrivial=True, tag="%s/%s/in-process paged vs in-memory/%s" % (
                    desc["name"], st, "identical" if not dp else "DIFFERS"))
            if refp["paged_types"] and "memmap" not in refp["paged_types"]:
                dp.append(("thermal", "paging requested but no np.memmap in the tubes: %s" % refp["paged_types"]))
            # the files of the paged run: names as in the model, one file per (tube, dictionary, field)
            pprobs, ntr = page_check(desc, refp, drv)
            n_page_recv += 1
            n_page_triples += ntr
            ctx.case((describe(desc), "page-files"), nontrivial=ntr > 0 and len(desc["panels"]) > 1,
                     tag="%s/paging file names/%s" % (desc["name"], "as in the model" if not pprobs else "WRONG"),
                     sample={"receiver": describe(desc), "panel_sizes": [len(p["tubes"]) for p in desc["panels"]],
                             "arrays": ntr, "files": (refp.get("page_files") or [])[:6]})
            if pprobs:
                page_bad.append((describe(desc), pprobs))
                viol.append(("%s, paged in-process run: %s" % (describe(desc), pprobs[0]),
                             {"desc": desc, "cfg": {"nthreads": 1, "progress": False, "page": True}, "page_files_check": True,
                              "reference_vs_paged_reference": True, "all": pprobs[:8]}, PAGE_SIG))
        if dp:
            viol.append(("%s: paged in-process run differs from the in-memory one: %s: %s" % (describe(desc), dp[0][0], dp[0][1]),
                         {"desc": desc, "cfg": {"nthreads": 1, "progress": False, "page": True}, "reference_vs_paged_reference": True,
                          "all": dp[:8]}, "c08:paging-changes-values"))
        # the same tasks evaluated last-to-first in one process: a legal schedule; anything a task leaves behind
        # in the process (module- or class-level state) must not reach the next task
        refr = run_pipeline(desc, dict(base_cfg, inproc_reversed=True), reference=True)
        dr_ = compare(ref, refr) + [(s_, "reversed-order in-process run " + v) for s_, v in refr["stages"].items() if v != "ok"]
        for st in refr["stages"]:
            ctx.case((describe(desc), "ref-reversed", st), nontrivial=True, tag="%s/%s/in-process reversed task order/%s" % (
                desc["name"], st, "identical" if not dr_ else "DIFFERS"))
        if dr_:
            viol.append(("%s: evaluating the tasks of a stage last-to-first in one process changes results: %s: %s" % (
                describe(desc), dr_[0][0], dr_[0][1]),
                {"desc": desc, "cfg": dict(base_cfg, inproc_reversed=True), "reference_reversed": True, "all": dr_[:8]},
                "c08:task-order-changes-values"))
        for cfg in configs(ctx, kindm, desc["name"]):
            out = run_pipeline(desc, cfg)
            if any(e[0] == "StageTimeout" for e in out["errors"].values()):
                # a pool forked from a process whose JAX runtime already runs threads can deadlock (observed in
                # this sandbox with the coupled solver): an infrastructure accident, not a property of the schedule
                ctx.notes.append("stage timed out once for %s, %s; repeated" % (describe(desc), cfg_name(cfg)))
                out = run_pipeline(desc, cfg)
                if any(e[0] == "StageTimeout" for e in out["errors"].values()):
                    raise common.Infra("stage timed out twice (%d s each) for %s, %s" % (STAGE_LIMIT, describe(desc), cfg_name(cfg)))
            diffs = compare(ref, out)
            for st, status in out["stages"].items():
                pooled = bool([p for p in out["pools"].get(st, [])])
                key = "%s/%s/%s" % (desc["name"] + ":" + kindm, st, cfg_name(cfg))
                if status == "ok":
                    bad_here = [d for d in diffs if d[0] == st]
                    res = "identical" if not diffs else ("DIFFERS" if bad_here else "identical")
                    n_compared += 1
                elif status == "skipped":
                    res = "skipped (earlier stage failed)"
                elif cfg["page"] and is_f24(out["errors"].get(st)):
                    res = "F24"
                    f24_hits.append({"where": "%s, stage %s, %s (pools created: %s)" % (
                        describe(desc), st, cfg_name(cfg), out["pools"].get(st)), "exception": status[7:]})
                else:
                    res = "RAISED"
                    unexpected_errors.append((desc, cfg, st, status))
                stage_table[key] = res
                ctx.case((describe(desc), cfg_name(cfg), st), nontrivial=pooled and status != "skipped",
                         tag="%s/%s/%s" % (desc["name"], st, res),
                         sample={"receiver": describe(desc), "config": cfg_name(cfg), "stage": st, "result": res,
                                 "pools_created": out["pools"].get(st), "branch": out["branch"]})
            if out["branch"]:
                branches_hit.setdefault(out["branch"], set()).add(desc["name"] + ":" + kindm)
                dispatch_real.append((describe(desc), cfg_name(cfg), out["subs"], out["branch"]))
                lines.append("c08d " + (",".join(map(str, out["subs"])) or "-"))
                checks.append(("dispatch", (describe(desc), cfg_name(cfg), out["subs"]), out["branch"]))
                if out["verbose_branch"] and out["verbose_branch"] != out["branch"]:
                    viol.append(("%s %s: solver says '%s' but sub-problems were solved %s" % (
                        describe(desc), cfg_name(cfg), out["verbose_branch"], out["branch"]),
                        {"desc": desc, "cfg": cfg}, "c08:branch-report"))
                if out["branch"] == "sequential" and set(out["parent_solve_all"]) != {cfg["nthreads"]}:
                    viol.append(("%s %s: sequential branch ran solve_all with nthreads %s" % (
                        describe(desc), cfg_name(cfg), out["parent_solve_all"]), {"desc": desc, "cfg": cfg}, "c08:nthreads-lost"))
            if diffs:
                st, what = diffs[0]
                viol.append(("%s, %s, stage %s: %s" % (describe(desc), cfg_name(cfg), st, what),
                             {"desc": desc, "cfg": cfg, "stage": st, "branch": out["branch"],
                              "all_differences": [d[1] for d in diffs[:10]], "n_differences": len(diffs)},
                             "c08:differs:%s" % st))
        # residual evaluation: edge k's state lands on edge k (connected receivers only)
        if desc["name"] in ("edge",) or (desc["name"] == "mixed" and ref["subs"] and max(ref["subs"]) >= 2):
            nts = [1, 2] if ctx.quick() else [1, 2, 4]
            bad, info = rj_check(desc, ref["snaps"]["thermal"], nts, ctx.seed)
            ctx.case((describe(desc), "rj"), nontrivial=info["distinct_states"] >= 2,
                     tag="%s/RJ state placement/%s" % (desc["name"], "ok" if not bad else "WRONG"),
                     sample={"receiver": describe(desc), "rj": info, "nthreads": nts})
            stage_table["%s/RJ/nthreads=%s" % (desc["name"] + ":" + kindm, nts)] = "ok" if not bad else bad[0]
            if bad:
                viol.append(("%s: %s" % (describe(desc), bad[0]), {"desc": desc, "rj": True, "nthreads": nts,
                                                                      "seed": ctx.seed, "all": bad[:6]}, "c08:rj-state-placement"))
    for (d, cfg, st, status) in unexpected_errors[:3]:
        viol.append(("%s, %s: stage %s %s" % (describe(d), cfg_name(cfg), st, status),
                     {"desc": d, "cfg": cfg, "stage": st, "error": status, "n_such_runs": len(unexpected_errors)},
                     "c08:stage-raised"))

    # ---- the damage stage alone: more workers than tubes, lives in all three regimes ----------------
    # (synthetic solved receivers of 1-2 tubes; the pipelines above have 4 tubes and at most 4 workers in the quick tier,
    # so a worker without a tube, and an unbounded or zero life coming back from a pool, would never be seen)
    import random as _random
    import damage_common as dc
    lrng = _random.Random(7919 + ctx.seed)
    for regime in dc.REGIMES:
        for ntubes in ((1, 2) if ctx.quick() else (1, 2, 3)):
            lcase = dc.gen_case(lrng, regime=regime, ntubes=ntubes, mode=lrng.choice(["lump", "last"]))
            ref_life = dc.real_life(lcase, nthreads=1)
            for _try in range(8):
                # the regimes of the generator are approximate: insist on a really unbounded / zero life
                if regime == "crossing" or ref_life == ("ok", regime):
                    break
                lcase = dc.gen_case(lrng, regime=regime, ntubes=ntubes, mode=lcase["mode"])
                ref_life = dc.real_life(lcase, nthreads=1)
            for n in ((ntubes + 1, 8) if ctx.quick() else (2, 3, 4, 5, 8, 16)):
                got = dc.real_life(lcase, nthreads=n)
                n_compared += 1
                same = got == ref_life
                ctx.case(("life-sweep", regime, ntubes, n), nontrivial=n > ntubes,
                         tag="damage stage alone/%s/%d tubes/%s" % (regime, ntubes, "ok" if same else "DIFFERS"))
                stage_table["life-sweep/%s/%d tubes/nthreads=%d" % (regime, ntubes, n)] = "ok" if same else "differs"
                if not same:
                    viol.append(("determine_life on a solved receiver of %d tube(s) (%s, regime %s): nthreads=%d gives %r, "
                                 "nthreads=1 gives %r" % (ntubes, lcase["material"], regime, n, got, ref_life),
                                 {"life_sweep": dc.case_to_json(lcase), "nthreads": n}, "c08:differs:life-sweep"))

    # ---- dispatch decision on many option assignments (real solve, stub tubes) ---------------------
    rng = ctx.rng
    nprobe = 40 if ctx.quick() else 200
    for _ in range(nprobe):
        recv = rng.choice(["disconnect", "rigid", 1000.0])
        panels = [(rng.choice(["disconnect", "rigid", 500.0]), rng.randint(1, 4)) for _ in range(rng.randint(1, 4))]
        branch, subs, err = dispatch_probe(recv, panels)
        if subs is None:
            continue
        lines.append("c08d " + (",".join(map(str, subs)) or "-"))
        checks.append(("dispatch", ("probe recv=%s panels=%s" % (recv, panels), "verbose text", subs), branch))
        ctx.case(("probe", str(recv), str(panels)), nontrivial=True, tag="dispatch probe/%s" % branch)
        branches_hit.setdefault(branch, set()).add("probe")

    # ---- Tube.copy_results vs model ---------------------------------------------------------------
    receiver = mods()[0]
    copy_bad = []
    for _ in range(6):
        a, b = receiver.Tube(5.0, 0.5, 2.5, 3, 4, 2), receiver.Tube(6.0, 0.5, 2.5, 3, 4, 2)
        tags = {}
        for t, off in ((a, 0), (b, 4)):
            for q, dn in enumerate(DICTS):
                dct = {"tag": np.array([float(rng.randrange(1000))])}
                setattr(t, dn, dct)
                tags[id(dct)] = off + q + 1
        before = {k: v for k, v in vars(a).items() if k not in DICTS}
        a.copy_results(b)
        got = [tags.get(id(getattr(a, dn)), 0) for dn in DICTS]
        other_same = all(vars(a)[k] is before[k] for k in before) and set(vars(a)) == set(before) | set(DICTS)
        lines.append("c08c 1 2 3 0 5 6 7 9")
        checks.append(("copy", None, "%d %d %d %d" % (got[0], got[1], got[2], 0 if other_same else 1)))
        if got != [5, 6, 7] or not other_same:
            copy_bad.append("Tube.copy_results: target dictionaries are %s of (results, quadrature, axial)=5,6,7; other attributes untouched: %s" % (got, other_same))
        ctx.case(("copy", _), nontrivial=True, tag="copy_results")
    if copy_bad:
        viol.append((copy_bad[0], {"copy_results": True}, "c08:copy-results"))

    # ---- library-level observation of real pools --------------------------------------------------
    obs = []
    nobs = 6 if ctx.quick() else 24
    for q in range(nobs):
        n = rng.randint(5, 12)
        w = rng.choice([2, 3, 4])
        chunk = rng.choice([1, 1, 2, 3])
        delays = [rng.choice([0.0, 0.002, 0.01, 0.03]) for _ in range(n)]
        delays[0] = 0.06
        vals, order, npids, dchunk = pool_observation(n, w, chunk, delays, use_imap=(q % 2 == 0))
        lines.append("c08g %d %d %s" % (n, chunk, ",".join(map(str, order))))
        checks.append(("gather", (n, w, chunk, order, "imap" if q % 2 == 0 else "map"), ",".join(map(str, vals))))
        lines.append("c08m %d %d" % (n, w))
        checks.append(("mapchunk", (n, w), str(dchunk)))
        shuffled = order != sorted(order)
        obs.append({"n": n, "workers": w, "chunk": chunk, "api": "imap" if q % 2 == 0 else "map",
                    "observed_completion_order": order, "worker_pids": npids, "returned_in_submission_order": vals == [100 + i for i in range(n)]})
        ctx.case(("obs", q), nontrivial=shuffled, tag="pool observation/%s" % ("completion order != submission order" if shuffled else "in order"))
        if vals != [100 + i for i in range(n)]:
            viol.append(("multiprocess.Pool.%s returned results out of submission order: %s" % (obs[-1]["api"], vals),
                         {"pool_observation": obs[-1]}, "c08:pool-order"))

    # ---- both writers of every dictionary on a stand-alone paged tube ---------------------------------
    wprobs, nprobe_arrays, axial_shared = writer_probe(drv)
    ctx.case(("page-writers",), nontrivial=True, tag="paging file names/writer probe/%s" % ("as in the model" if not wprobs else "WRONG"))
    if wprobs:
        page_bad.append(("stand-alone tube", wprobs))
        viol.append(("paging file names of a stand-alone tube: %s" % wprobs[0], {"page_writer_probe": True, "all": wprobs[:8]}, PAGE_SIG))
    ctx.notes.append("paging: add_axial_results('x') and add_blank_axial_results('x ') open the same file on the real Tube: %s "
                     "(the model's only exception, theorem page_file_collision; no shipped code names a field with a trailing space)" % axial_shared)

    # ---- ask the model ----------------------------------------------------------------------------
    answers = drv.ask(lines)
    mism = []
    for (what, info, real), ans in zip(checks, answers):
        if ans.strip() != str(real).strip():
            mism.append((what, info, real, ans))
    ndisp = sum(1 for c in checks if c[0] == "dispatch")

    # ---- obligations ------------------------------------------------------------------------------
    differs = [v for v in viol if v[2].startswith("c08:differs") or v[2] in ("c08:paging-changes-values",)]
    ctx.obligation("correspondence: dispatch branch of the real SpringSystemSolver.solve == Pool.dispatchOf (%d receivers/"
                   "assignments), Tube.copy_results == Pool.copyResults, real pool runs == Pool.gather on the observed "
                   "completion order, Pool.map default chunk == Pool.mapChunk" % ndisp,
                   not mism, "%d mismatches of %d; first: %s" % (len(mism), len(checks), mism[:1]))
    ctx.obligation("correspondence: paging file names == model; distinct triples have distinct files (paged in-process run of "
                   "%d receivers, %d arrays: files left in the working directory == SrModel.PageNames over all (tube, "
                   "dictionary, field), file behind every array == model, no file behind two arrays; both writers x %d "
                   "field names on a stand-alone tube)" % (n_page_recv, n_page_triples, len(PROBE_NAMES)),
                   not page_bad and n_page_recv > 0, "%d receivers with problems; first: %s" % (len(page_bad), [(d, p[:2]) for d, p in page_bad[:1]]))
    ctx.obligation("both dispatch branches exercised by full runs (sequential/edge-parallel and sub-problem pool)",
                   all(any(x != "probe" for x in branches_hit.get(b, ())) for b in ("sequential", "parallel")),
                   str({k: sorted(v) for k, v in branches_hit.items()}))
    ctx.obligation("property predicate: every stage x configuration that completes is bit-identical to the in-process "
                   "reference (all tube arrays, life, reliabilities); paged in-process == in-memory",
                   not differs, "%d stage results compared; %d differ; first: %s" % (n_compared, len(differs), [v[0] for v in differs[:1]]))
    others = [v for v in viol if v not in differs and v[2] != PAGE_SIG]
    ctx.obligation("property predicate: no stage raises for any configuration (paging x pool = F24 reported separately); "
                   "RJ installs edge k's state on edge k; branch report and nthreads hand-over consistent",
                   not others, "%d problems; first: %s" % (len(others), [v[0] for v in others[:1]]))
    ctx.obligation("paging works with worker pools (F24)", not f24_hits,
                   "%d paged stage runs died with TypeError: %s; first: %s" % (len(f24_hits), F24_TEXT, f24_hits[:1]))
    nonid = sum(1 for o in obs if o["observed_completion_order"] != sorted(o["observed_completion_order"]))
    ctx.extra["stage_table"] = stage_table
    ctx.extra["dispatch_branches_hit"] = {k: sorted(v) for k, v in branches_hit.items()}
    ctx.extra["dispatch_real"] = [list(map(str, d)) for d in dispatch_real[:12]]
    ctx.extra["pool_observations"] = obs
    ctx.extra["f24_hits"] = f24_hits
    ctx.extra["level_note"] = "partial: theorems cover bookkeeping only; fork/pickle/mmap/BLAS/scheduler are exercised, not proved"
    ctx.extra["chunking_note"] = ("srlife exposes no chunk-size option: Pool.map uses ceil(n/(4*nthreads)) (RJ edges, "
                                  "thermohydraulic tubes), Pool.imap uses 1 (sub-problems, thermal, damage); chunking was varied only "
                                  "through nthreads; the theorems hold for every chunk size")
    ctx.notes.append("pool observation: %d of %d real pool runs completed out of submission order and still returned in order" % (nonid, len(obs)))
    ctx.notes.append("wall: differential part %.1fs" % (time.time() - t_start))

    # ---- outcomes ---------------------------------------------------------------------------------
    if f24_hits:
        stages = sorted({h["where"].split("stage ")[1].split(",")[0] for h in f24_hits if "stage " in h["where"]})
        ctx.violation("page_results=True: shipping a tube that already holds results to a multiprocess.Pool raises "
                      "TypeError: %s (dill cannot serialise np.memmap); stages hit: %s" % (F24_TEXT, ", ".join(stages) or "minimal only"),
                      {"f24": True, "minimal_reproduction": F24_MINIMAL, "hits": [h["where"] for h in f24_hits][:12],
                       "exception": f24_hits[0]["exception"]}, signature=F24_SIG)
    seen = set()
    for what, rep, sig in viol:
        if sig in seen and sig != "c08:stage-raised":
            continue
        seen.add(sig)
        ctx.violation(what, rep, signature=sig)
    if (mism or not thm_ok) and not viol:
        what = ("model and code disagree on %d items but no run violates the property" % len(mism)) if mism \
            else "a C08 theorem no longer checks"
        ctx.violation(what, {"mismatches": [list(map(str, m)) for m in mism[:5]], "lean": ctx.extra.get("lean_errors"),
                             "theorems": ctx.extra.get("broken_theorems"),
                             "correspondence": "harness/c08.py vs SrModel.Pool (dispatchOf/copyResults/gather/mapChunk)"},
                      no_input=True)
    return "proof"


def replay(obj):
    r = obj["replay"]
    mods()
    if r.get("f24"):
        kind, res = f24_minimal()
        print(F24_MINIMAL)
        print("-> results['temperature'] is a %s; outcome: %s" % (kind, ("%s: %s" % res) if res else "works"))
        return 1 if res else 0
    if r.get("life_sweep"):
        import damage_common as dc
        lcase = dc.case_from_json(r["life_sweep"])
        a, b = dc.real_life(lcase, nthreads=1), dc.real_life(lcase, nthreads=r["nthreads"])
        print("determine_life nthreads=1 ->", a, "; nthreads=%d ->" % r["nthreads"], b)
        print("property holds on this input" if a == b else "property violated on this input")
        return 0 if a == b else 1
    if r.get("rj"):
        ref = run_pipeline(r["desc"], {"nthreads": 1, "progress": False, "page": False}, reference=True)
        bad, info = rj_check(r["desc"], ref["snaps"]["thermal"], r["nthreads"], r["seed"])
        print(describe(r["desc"]), info)
        for b in bad:
            print("  FAILS:", b)
        print("property holds on this input" if not bad else "property violated on this input")
        return 1 if bad else 0
    if r.get("page_writer_probe"):
        probs, n, shared = writer_probe(common.LeanDriver(PAGE_MODS))
        for b in probs:
            print("  FAILS:", b)
        print("property holds on this input" if not probs else "property violated on this input")
        return 1 if probs else 0
    if "desc" not in r:
        print("replay names no input:", r)
        return 1
    desc, cfg = r["desc"], r["cfg"]
    print("receiver:", describe(desc))
    print("configuration:", cfg_name(cfg))
    ref = run_pipeline(desc, {"nthreads": 1, "progress": False, "page": False}, reference=True)
    out = run_pipeline(desc, cfg, reference=bool(r.get("reference_vs_paged_reference") or r.get("reference_reversed")))
    print("stages:", out["stages"], "branch:", out["branch"], "pools:", out["pools"])
    diffs = compare(ref, out)
    for st, what in diffs[:20]:
        print("  FAILS [%s]: %s" % (st, what))
    raised = [s for s in out["stages"].values() if s.startswith("raised")]
    for s in raised:
        print("  FAILS:", s)
    pprobs = []
    if r.get("page_files_check"):
        pprobs, ntr = page_check(desc, out, common.LeanDriver(PAGE_MODS))
        print("paging files:", out.get("page_files"))
        for b in pprobs[:20]:
            print("  FAILS [paging files]:", b)
    outcome = [st for st in ref["stages"] if (ref["stages"][st] == "ok") != (out["stages"].get(st) == "ok")]
    for st in outcome:
        print("  FAILS: stage %s ends with %r in the in-process run and with %r under %s" % (st, ref["stages"][st], out["stages"].get(st), cfg_name(cfg)))
    bad = bool(diffs or raised or outcome or pprobs)
    print("property holds on this input" if not bad else "property violated on this input")
    return 1 if bad else 0


if __name__ == "__main__":
    sys.exit(common.main("C08", run, replay))
