"""C13 — every wall boundary-condition kind reproduces the exact steady cylinder solution.

Lean: SrProps/C13.lean (steady_flux_constant, steady_profile, closed forms for the wall pairings,
      transient_nonexpansive) on SrModel.Thermal; C12 lifts carry 1D to 2D/3D.
Tie:  matrix correspondence in steady and transient mode (real solve_step system == model rows)
      including the consistency of the solver's Jacobian with its residual for every wall kind.
Search: real solves for every well-posed inner x outer pairing x {1D,2D,3D} x {steady, long
      transient, substep > 1} against the exact logarithmic profile; observed order of accuracy.
"""
import os
import sys

sys.path.insert(0, os.path.dirname(os.path.abspath(__file__)))
import numpy as np
import common
import thermal_common as tc


def exact_profile(kind_i, kind_o, ri, ro, k, Ti, To, qi, qo, hi, ho):
    """T(r) = A + B ln r for the pairing; heat INTO the solid: inner -k dT/dr = -kB/ri, outer kB/ro"""
    # two linear equations in (A, B)
    rows, rhs = [], []
    if kind_i == "fix":
        rows.append([1.0, np.log(ri)]); rhs.append(Ti)
    elif kind_i == "flux":
        rows.append([0.0, -k / ri]); rhs.append(qi)
    elif kind_i in ("conv", "film"):
        # hi (Ti - T(ri)) = -k B / ri
        rows.append([hi, hi * np.log(ri) - k / ri]); rhs.append(hi * Ti)
    elif kind_i == "ins":
        rows.append([0.0, 1.0]); rhs.append(0.0)
    if kind_o == "fix":
        rows.append([1.0, np.log(ro)]); rhs.append(To)
    elif kind_o == "flux":
        rows.append([0.0, k / ro]); rhs.append(qo)
    elif kind_o == "conv":
        rows.append([ho, ho * np.log(ro) + k / ro]); rhs.append(ho * To)
    elif kind_o == "ins":
        rows.append([0.0, 1.0]); rhs.append(0.0)
    M = np.array(rows)
    if abs(np.linalg.det(M)) < 1e-12:
        return None
    A, B = np.linalg.solve(M, np.array(rhs))
    return lambda r: A + B * np.log(r)


def well_posed(ki, ko):
    return not (ki in ("ins", "flux") and ko in ("ins", "flux"))


def make_case(rng, ndim, ki, ko, nr, steady, r=None, t=None):
    c = tc.gen_case(rng, ndim=ndim, inner=ki, outer=ko, steady=steady, const_mat=True, nsteps=1)
    c.nr = nr
    c.nt, c.nz = 4, 3
    c.bc_nt = c.nt
    c.r = r or rng.choice([5.0, 10.0, 20.0])
    c.t = t or c.r * rng.choice([0.1, 0.2, 0.4])
    c.T0field = None
    c.substep = 1
    nt, nz, ntime = c.nt, c.nz, len(c.times)
    Ti, To = tc.dyadic(rng, 400.0, 600.0), tc.dyadic(rng, 650.0, 900.0)
    qi, qo = tc.dyadic(rng, 0.125, 1.0), tc.dyadic(rng, 0.125, 1.0)
    hi, ho = tc.dyadic(rng, 0.5, 4.0), tc.dyadic(rng, 0.5, 4.0)
    c.film = ho
    def data(kind, T, q, h):
        if kind == "fix":
            return np.full((ntime, nt, nz), T), None
        if kind == "flux":
            return np.full((ntime, nt, nz), q), None
        if kind == "conv":
            return np.full((ntime, nz), T), None
        if kind == "film":
            return np.full((nz,), T), np.full((nz,), h)
        return None, None
    # the outer "conv" wall uses the fluid material's coefficient; give both walls the same h when both convective
    if ki == "conv":
        hi = ho
    c.inner_data, c.inner_data2 = data(ki, Ti, qi, hi)
    c.outer_data, c.outer_data2 = data(ko, To, qo, ho)
    c.params = dict(Ti=Ti, To=To, qi=qi, qo=qo, hi=hi, ho=ho)
    # every second convective case: the fluid material's film coefficient depends on temperature (value `film` exactly
    # at the fluid temperatures; the documented evaluation point of a ConvectiveBC is the fluid temperature)
    # (decided from the drawn value, without another draw, so that the random stream of the other cases is unchanged;
    # the knots are read from the case's data when the objects are built, see thermal_common.build)
    if "conv" in (ki, ko) and int(round(ho * 64)) % 4 < 2:
        c.film_tdep = True
    return c


def steady_error(case):
    """max error of the real steady-mode solve against the exact profile"""
    receiver, thermal, materials = tc.mods()
    tube, mat, fluid = tc.build(case)
    solver = thermal.FiniteDifferenceImplicitThermalSolver(rtol=1e-13, atol=tc.auto_atol(case), miter=30, steady=True)
    T = np.array(solver.solve(tube, mat, fluid))[-1]
    p = case.params
    f = exact_profile(case.inner, case.outer, case.r - case.t, case.r, float(case.mat_k[0]),
                      p["Ti"], p["To"], p["qi"], p["qo"], p["hi"], p["ho"])
    rs = np.linspace(case.r - case.t, case.r, case.nr)
    ex = f(rs)
    Tm = T.reshape((case.nr, -1))
    err = float(np.max(np.abs(Tm - ex[:, None])))
    spread = float(np.max(np.abs(Tm - Tm[:, :1])))
    return err, spread, float(np.max(np.abs(ex)))


def default_solver_small_signal(rng, ndim, ki, ko):
    """the documented default solver parameters (atol 1e-2, rtol 1e-6) on a fine grid with small data
    values and T0 = 0: the step is linear, so the answer must still follow the exact profile in the
    relative sense (a solver that stops on `initial residual < atol` would return T0)."""
    receiver, thermal, materials = tc.mods()
    c = make_case(rng, ndim, ki, ko, 33, True)
    eps = 2.0 ** -12
    c.T0 = 0.0
    for name in ("inner_data", "outer_data"):
        d = getattr(c, name)
        if d is not None:
            setattr(c, name, d * eps)
    for k in ("Ti", "To", "qi", "qo"):
        c.params[k] *= eps
    out = []
    for steady in (True,):   # transient runs at default tolerances hit the rounding floor for huge dt (a loud raise)
        import copy
        cc = copy.deepcopy(c)
        cc.steady = steady
        if not steady:
            tau = cc.t ** 2 / float(cc.mat_a[0])
            cc.times = np.array([0.0, 1e7 * tau, 1e11 * tau])
            for name in ("inner_data", "outer_data"):
                d = getattr(cc, name)
                kind = cc.inner if name.startswith("inner") else cc.outer
                if d is not None and kind in ("fix", "flux", "conv"):
                    setattr(cc, name, np.repeat(d[:1], len(cc.times), axis=0))
        tube, mat, fluid = tc.build(cc)
        solver = thermal.FiniteDifferenceImplicitThermalSolver(steady=steady)   # all defaults
        T = np.array(solver.solve(tube, mat, fluid))[-1]
        p = cc.params
        f = exact_profile(cc.inner, cc.outer, cc.r - cc.t, cc.r, float(cc.mat_k[0]),
                          p["Ti"], p["To"], p["qi"], p["qo"], p["hi"], p["ho"])
        ex = f(np.linspace(cc.r - cc.t, cc.r, cc.nr))
        err = float(np.max(np.abs(T.reshape((cc.nr, -1)) - ex[:, None])))
        scale = float(np.max(np.abs(ex)))
        dr = cc.t / (cc.nr - 1)
        if err > (2.0 * dr / (cc.r - cc.t)) * scale + 1e-12:
            out.append("%s %s/%s %dD, default solver parameters, data of size %.1e on nr=33: error %.3e relative to %.3e"
                       % ("steady" if steady else "transient", ki, ko, ndim, scale, err, scale))
    return out, c


def transient_limit(case, substep):
    """long transient with the same data must approach the steady-mode solution"""
    import copy
    receiver, thermal, materials = tc.mods()
    cs = copy.deepcopy(case)
    cs.steady = True
    tube, mat, fluid = tc.build(cs)
    Ts = np.array(thermal.FiniteDifferenceImplicitThermalSolver(rtol=1e-13, atol=tc.auto_atol(cs), miter=30, steady=True)
                  .solve(tube, mat, fluid))[-1]
    ct = copy.deepcopy(case)
    ct.steady = False
    tau = case.t ** 2 / float(case.mat_a[0])
    ct.times = np.array([0.0, 50 * tau, 3200 * tau, 1e7 * tau, 1e11 * tau])
    for name in ("inner_data", "outer_data"):
        d = getattr(ct, name)
        kind = ct.inner if name.startswith("inner") else ct.outer
        if d is not None and kind in ("fix", "flux", "conv"):
            setattr(ct, name, np.repeat(d[:1], len(ct.times), axis=0))
    tube, mat, fluid = tc.build(ct)
    Tt = np.array(thermal.FiniteDifferenceImplicitThermalSolver(rtol=1e-13, atol=tc.auto_atol(ct), miter=30, substep=substep)
                  .solve(tube, mat, fluid))
    d_last = float(np.max(np.abs(Tt[-1] - Ts)))
    d_prev = float(np.max(np.abs(Tt[-2] - Ts)))
    return d_last, d_prev, float(np.max(np.abs(Ts)))


def decay_bound(case):
    """SrProps.C13.transient_converges on a real run: with a fixed-temperature wall, constant material and
    time-constant data, |T_n - T_steady| <= rho^n * Phi * |T_0 - T_steady| with the explicit
    rho = Phi / (Phi + 4 a dt),  Phi = r_ghost^2 + 2 + 2 dr rh(N)^2 sum_{m<N} 1/rh(m).
    Returns a failure text or None (None also when the theorem does not cover the pairing)."""
    import copy
    if "fix" not in (case.inner, case.outer) or case.t / (case.nr - 1) >= case.r - case.t:
        return None
    receiver, thermal, materials = tc.mods()
    cs = copy.deepcopy(case)
    cs.steady = True
    tube, mat, fluid = tc.build(cs)
    Ts = np.array(thermal.FiniteDifferenceImplicitThermalSolver(rtol=1e-13, atol=tc.auto_atol(cs), miter=30, steady=True)
                  .solve(tube, mat, fluid))[-1]
    ct = copy.deepcopy(case)
    ct.steady = False
    a = float(case.mat_a[0])
    dt = 0.5 * case.t ** 2 / a
    nst = 8
    ct.times = dt * np.arange(nst + 1)
    for name in ("inner_data", "outer_data"):
        d = getattr(ct, name)
        kind = ct.inner if name.startswith("inner") else ct.outer
        if d is not None and kind in ("fix", "flux", "conv"):
            setattr(ct, name, np.repeat(d[:1], len(ct.times), axis=0))
    tube, mat, fluid = tc.build(ct)
    Tt = np.array(thermal.FiniteDifferenceImplicitThermalSolver(rtol=1e-13, atol=tc.auto_atol(ct), miter=30)
                  .solve(tube, mat, fluid))
    N, dr = case.nr, case.t / (case.nr - 1)
    rr = lambda i: (case.r - case.t) + (i - 1) * dr          # ghosted radial index, real nodes 1..N
    rh = lambda i: 0.5 * (rr(i) + rr(i + 1))
    Phi = rr(N + 1) ** 2 + 2.0 + 2.0 * dr * rh(N) ** 2 * sum(1.0 / rh(m) for m in range(N))
    rho = Phi / (Phi + 4.0 * a * dt)
    B = float(np.max(np.abs(Tt[0] - Ts)))
    for n in range(1, nst + 1):
        e = float(np.max(np.abs(Tt[n] - Ts)))
        if e > rho ** n * Phi * B * (1 + 1e-9) + 1e-9 * (1.0 + float(np.max(np.abs(Ts)))):
            return ("step %d: |T - T_steady| = %.6g exceeds the proved bound rho^n Phi B = %.6g (rho = %.6f, Phi = %.4g)"
                    % (n, e, rho ** n * Phi * B, rho, Phi))
        # the first step from a field within B of the steady one is also non-expansive (transient_nonexpansive)
        if e > B * (1 + 1e-9) + 1e-9 * (1.0 + float(np.max(np.abs(Ts)))):
            return "step %d: |T - T_steady| = %.6g grew above its initial value %.6g" % (n, e, B)
    return None


def strong_film(rng, ndim, ki, ko):
    """a convective wall whose film is strong against the radial cell (cell Biot number dr*h/k = 4 or 16) on
    a coarse grid (nr = 5) of a thin wall: the film resistance 1/h is then much smaller than the cell's dr/k,
    the wall sits close to the fluid temperature, and the exact profile is still met to 2 dr/r_i of the
    temperature differences in the problem.  Returns (failures, case, info)."""
    c = make_case(rng, ndim, ki, ko, 5, True)
    c.t = c.r * 0.0625
    dr = c.t / (c.nr - 1)
    biot = rng.choice([4.0, 16.0])
    h = biot * float(c.mat_k[0]) / dr
    c.film = h
    c.params["hi"] = c.params["ho"] = h
    if ki == "film":
        c.inner_data2 = np.full((c.nz,), h)
    p = c.params
    f = exact_profile(ki, ko, c.r - c.t, c.r, float(c.mat_k[0]), p["Ti"], p["To"], p["qi"], p["qo"], h, h)
    ex = f(np.linspace(c.r - c.t, c.r, c.nr))
    refs = ([p["Ti"]] if ki in ("fix", "conv", "film") else []) + ([p["To"]] if ko in ("fix", "conv") else [])
    span = max(float(np.max(np.abs(ex - Tr))) for Tr in refs)
    err, spread, _ = steady_error(c)
    info = dict(biot=biot, err=err, span=span)
    tol = 2.0 * dr / (c.r - c.t) * span + 1e-9 * float(np.max(np.abs(ex)))
    if err > tol:
        return (["steady %s/%s %dD, strong film (cell Biot number %g, nr=5): error %.3e against the exact profile exceeds "
                 "dr/r_i of the temperature differences (%.3e)" % (ki, ko, ndim, biot, err, tol)], c, info)
    return [], c, info


def check_pairing(rng, ndim, ki, ko):
    bad = []
    c1 = make_case(rng, ndim, ki, ko, 9, True)
    c2 = make_case(rng, ndim, ki, ko, 17, True, r=c1.r, t=c1.t)
    for k in ("inner_data", "inner_data2", "outer_data", "outer_data2", "params", "film", "mat_k", "mat_a", "h", "plane"):
        setattr(c2, k, getattr(c1, k))
    e1, s1, scale = steady_error(c1)
    e2, s2, _ = steady_error(c2)
    second_order = (ki == "fix" and ko == "fix")
    # the scheme is exact to round-off when no flux/convective wall is involved? no: midpoint rule -> O(dr^2)
    floor = 1e-9 * scale
    ratio = e1 / max(e2, floor)
    want = 3.5 if second_order else 1.8
    if e1 > floor and ratio < want:
        bad.append("steady %s/%s %dD: error %.3e (nr=9) -> %.3e (nr=17), ratio %.2f < %.1f" % (ki, ko, ndim, e1, e2, ratio, want))
    # discretisation-accuracy bound: error at nr=17 below 2*dr/r_i of the temperature scale
    dr = c2.t / (c2.nr - 1)
    if e2 > 2.0 * dr / (c2.r - c2.t) * scale:
        bad.append("steady %s/%s %dD: error %.3e exceeds the dr/r accuracy bound" % (ki, ko, ndim, e2))
    if max(s1, s2) > 1e-7 * scale:
        bad.append("steady %s/%s %dD: axisymmetric data but solution varies over theta/z by %.3e" % (ki, ko, ndim, max(s1, s2)))
    sub = rng.choice([1, 2, 3])
    dl, dp, sc = transient_limit(c1, sub)
    if dl > 1e-5 * sc or dl > dp + 1e-7 * sc:
        bad.append("transient %s/%s %dD (substep %d): distance to steady solution %.3e (previous %.3e)" % (ki, ko, ndim, sub, dl, dp))
    db = decay_bound(c1)
    if db:
        bad.append("transient %s/%s %dD: %s" % (ki, ko, ndim, db))
    small, _ = default_solver_small_signal(rng, ndim, ki, ko)
    bad += small
    return bad, c1, dict(e9=e1, e17=e2, ratio=ratio)


def run(ctx):
    ctx.rule = ("every inner x outer wall-kind pairing (20), the 16 with a steady state checked against the exact "
                "logarithmic profile at nr = 9 and 17 in 1D/2D/3D (quick: dimension rotates over pairings); all 20 "
                "accepted by a transient solve; distinct = (dim, inner, outer)")
    ctx.trusted = ["Lean 4 kernel + Mathlib (propext, Classical.choice, Quot.sound)",
                   "harness/thermal_common.py capture of the real step system",
                   "the effect of the dr/2 wall-radius offset on flux/convective pairings is measured (order of accuracy), the closeness of the profile sum to ln r is proved (profile_vs_log)"]
    ctx.assumptions = ["constant material, time-constant data"]
    thm_ok = common.lean_stage(ctx, [("SrProps.C13", "SrProps/C13.lean", "SrProps.C13")])
    rng = ctx.rng
    pairs = [(i, o) for i in tc.KINDS_INNER for o in tc.KINDS_OUTER]
    cases = []
    for n, (i, o) in enumerate(pairs * (2 if ctx.quick() else 12)):
        cases.append(tc.gen_case(rng, ndim=1 + n % 3, inner=i, outer=o, steady=(n % 2 == 0) and tc_wellposed(i, o), const_mat=True))
    mism = tc.matrix_correspondence(ctx, cases, "C13")
    viol = []
    # every documented kind is accepted on its wall (transient, 1D/2D/3D)
    for n, (i, o) in enumerate(pairs):
        for ndim in ((1, 2, 3) if not ctx.quick() else (1 + n % 3,)):
            c = tc.gen_case(rng, ndim=ndim, inner=i, outer=o, steady=False, const_mat=True, nsteps=1)
            try:
                tc.run_history(c)
                ok = True
            except ValueError as e:
                ok = False
                viol.append((c, "accepted", "wall kinds %s/%s rejected in %dD: %r" % (i, o, ndim, e), {}))
            except RuntimeError as e:
                ctx.notes.append("transient %s/%s raised: %r" % (i, o, e))
            ctx.case(("accept", ndim, i, o), tag="accept/%dD/%s-%s" % (ndim, i, o))
    raised = []
    npair = 0
    for n, (i, o) in enumerate(pairs):
        if not well_posed(i, o):
            continue
        for ndim in ((1, 2, 3) if not ctx.quick() else (1 + n % 3,)):
            npair += 1
            try:
                bad, c, info = check_pairing(rng, ndim, i, o)
            except (RuntimeError,) as e:
                ctx.notes.append("pairing %s/%s %dD raised: %r" % (i, o, ndim, e))
                raised.append((i, o, ndim, repr(e)))
                continue
            ctx.case(("pair", ndim, i, o), nontrivial=True, tag="steady/%dD/%s-%s" % (ndim, i, o),
                     sample=dict({"suite": "steady vs exact log profile", "ndim": ndim, "inner": i, "outer": o}, **info))
            for m in bad:
                viol.append((c, "profile", m, {"ndim": ndim, "inner": i, "outer": o}))
            if "conv" in (i, o) or i == "film":
                try:
                    bad, c, info = strong_film(rng, ndim, i, o)
                except RuntimeError as e:
                    raised.append((i, o, ndim, repr(e)))
                    continue
                ctx.case(("strongfilm", ndim, i, o, info["biot"]), nontrivial=True, tag="strong-film/%dD/%s-%s" % (ndim, i, o),
                         sample=dict({"suite": "strong film on a coarse grid vs exact log profile", "ndim": ndim, "inner": i, "outer": o}, **info))
                for m in bad:
                    viol.append((c, "profile", m, {"ndim": ndim, "inner": i, "outer": o}))
    ctx.exhaustive = True
    ctx.obligation("every well-posed pairing could be evaluated (the real solver raised on none of them)",
                   not raised, "%d of %d pairings raised; first: %s" % (len(raised), npair, raised[:1]))
    if raised:
        mism = list(mism) + [(tc.gen_case(rng, ndim=raised[0][2], inner=raised[0][0], outer=raised[0][1], const_mat=True),
                              ["pairing %s/%s %dD: real solver raised %s" % raised[0]])]
    ctx.obligation("property predicate (exact log profile within discretisation accuracy, order of accuracy, transient limit, kinds accepted) on real solves",
                   not viol, "%d failures; first: %s" % (len(viol), viol[0][1:3] if viol else ""))
    for c, what, detail, extra in viol[:10]:
        ctx.violation("real thermal solve: " + detail, dict({"case": c.to_json(), "check": what, "params": getattr(c, "params", None)}, **extra),
                      signature="c13:" + what)
    if not ctx.violations and (mism or not thm_ok):
        ctx.violation("C13 theorem or correspondence no longer checks",
                      {"mismatches": [(c.to_json(), d) for c, d in mism[:3]], "lean": ctx.extra.get("lean_errors"),
                       "theorems": ctx.extra.get("broken_theorems")}, no_input=True)
    return "proof"


def tc_wellposed(i, o):
    return well_posed(i, o)


def replay(obj):
    import random
    r = obj["replay"]
    if "case" not in r:
        print("replay names no input:", list(r))
        return 1
    if r["check"] == "accepted":
        c = tc.Case.from_json(r["case"])
        try:
            tc.run_history(c)
            print("accepted now")
            return 0
        except ValueError as e:
            print("FAILS: rejected:", e)
            return 1
    bad, c, info = check_pairing(random.Random(0), r["ndim"], r["inner"], r["outer"])
    if "conv" in (r["inner"], r["outer"]) or r["inner"] == "film":
        for biot_seed in range(4):
            bad = bad + strong_film(random.Random(biot_seed), r["ndim"], r["inner"], r["outer"])[0]
    for m in bad:
        print("FAILS:", m)
    print(info)
    return 1 if bad else 0


if __name__ == "__main__":
    sys.exit(common.main("C13", run, replay))
